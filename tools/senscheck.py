#!/usr/bin/env python3
"""Sensitivity runs (DESIGN.md section 9): apply small source mutations to a scratch copy of /repo and confirm
that a property's rc harness fails within its quick budget.

usage: tools/senscheck.py Cxx [cases]   reads tools/mutations/Cxx.json:
  [{"name": "...", "file": "src/x.cpp", "old": "...", "new": "..."}, ...]
"""
import json, os, re, shutil, subprocess, sys

ROOT = os.path.dirname(os.path.dirname(os.path.abspath(__file__)))
pid = sys.argv[1]
cases = int(sys.argv[2]) if len(sys.argv) > 2 else 4000
muts = json.load(open(os.path.join(ROOT, 'tools', 'mutations', pid + '.json')))
scratch = '/tmp/sens_' + pid
shutil.rmtree(scratch, ignore_errors=True)
os.makedirs(scratch)
for d in ('src', 'include'):
    shutil.copytree('/repo/' + d, os.path.join(scratch, d))
binary = os.path.join(scratch, 'vb', 'bin', pid + '_rc')


def build():
    p = subprocess.run(['make', '-C', ROOT, '-j16', 'REPO=' + scratch, 'B=' + scratch + '/vb', binary], stdout=subprocess.PIPE, stderr=subprocess.STDOUT, text=True)
    if p.returncode != 0:
        print(p.stdout[-3000:])
        return False
    return True


known = [e['signature'] for e in json.load(open(os.path.join(ROOT, 'known_findings.json')))['findings'] if e['property'] == pid and e.get('status') == 'known']
results = []
try:
    for m in muts:
        path = os.path.join(scratch, m['file'])
        orig = open(path).read()
        if m['old'] not in orig:
            results.append((m['name'], 'MUTATION DID NOT APPLY', ''))
            continue
        open(path, 'w').write(orig.replace(m['old'], m['new'], 1))
        ok = build()
        res = 'BUILD FAILED'
        desc = ''
        if ok:
            out = os.path.join(scratch, 'o.json')
            env = dict(os.environ, RC_PARAMS='seed=%d max_success=%d' % (m.get('seed', 1), m.get('cases', cases)), ASAN_OPTIONS='detect_leaks=0:max_allocation_size_mb=1024', VERIF_KNOWN=','.join(known))
            p = subprocess.run([binary, '--out', out, '--faildir', scratch], env=env, stdout=subprocess.PIPE, stderr=subprocess.STDOUT, text=True, errors='replace')
            try:
                d = json.load(open(out))
            except Exception:
                d = None
            if d and d.get('failed'):
                res = 'DETECTED after %d cases: %s' % (d['evaluations'], d['signature'])
                desc = d.get('fail_desc', '')[:300]
                # keep the shrunk tape as a regression input if it passes on the real tree
                tape = d.get('fail_tape')
                good_bin = os.path.join(ROOT, 'build', 'bin', pid + '_rc')
                if tape and os.path.exists(tape) and os.path.exists(good_bin):
                    slug = re.sub(r'[^a-z0-9]+', '-', m['name'].lower()).strip('-')[:60]
                    rp = subprocess.run([good_bin, '--replay', tape, '--faildir', scratch], env=env, stdout=subprocess.PIPE, stderr=subprocess.DEVNULL, text=True, errors='replace')
                    if 'RESULT pass' in rp.stdout:
                        os.makedirs(os.path.join(ROOT, 'replays', pid), exist_ok=True)
                        shutil.copy(tape, os.path.join(ROOT, 'replays', pid, 'mut-' + slug + '.tape'))
            elif p.returncode not in (0,):
                tail = p.stdout[-600:]
                res = 'DETECTED (crash/abort rc=%d)' % p.returncode
                desc = tail.replace('\n', ' ')[-300:]
            else:
                res = 'MISSED (%d cases)' % (d['evaluations'] if d else -1)
            if os.path.exists(out):
                os.remove(out)
        open(path, 'w').write(orig)
        results.append((m['name'], res, desc))
        print('%-45s %s\n    %s' % (m['name'], res, desc), flush=True)
finally:
    shutil.rmtree(scratch, ignore_errors=True)
out = [{'mutation': a, 'result': b, 'shrunk': c} for a, b, c in results]
print(json.dumps(out, indent=1))
os.makedirs(os.path.join(ROOT, 'tools', 'mutations', 'results'), exist_ok=True)
json.dump(out, open(os.path.join(ROOT, 'tools', 'mutations', 'results', pid + '.json'), 'w'), indent=1)
