#!/usr/bin/env python3-vt
import json, jsonschema, sys, glob, os
R = os.path.dirname(os.path.dirname(os.path.abspath(__file__)))
jsonschema.validate(json.load(open(R + '/MANIFEST.json')), json.load(open('/root/.vp/MANIFEST.schema.json')))
es = json.load(open('/root/.vp/EVIDENCE.schema.json'))
n = 0
for f in sorted(glob.glob(R + '/evidence/*.json')):
    jsonschema.validate(json.load(open(f)), es); n += 1
print('MANIFEST ok; %d evidence files ok' % n)
