#!/usr/bin/env python3
"""Rewrites the generated block of DESIGN.md (between <!-- RESULTS:BEGIN --> and <!-- RESULTS:END -->) from
known_findings.json, tools/mutations/results/*.json and seeded/*/{meta,detection}.json."""
import glob, json, os, re

ROOT = os.path.dirname(os.path.dirname(os.path.abspath(__file__)))


def esc(s):
    return str(s).replace('|', '\\|').replace('\n', ' ')


out = []
kf = json.load(open(os.path.join(ROOT, 'known_findings.json')))['findings']
out.append('### 11.1 Genuine defects found on the pinned tree\n')
out.append('Every entry was reproduced by a check against the real code (shrunk case in `what fails`, replay tape kept as a regression input). '
           '`fixed` = repaired by one unguarded `fix:` commit in /repo (the 46 pinned tests still pass); `known` = recorded, not repaired.\n')
out.append('| property | signature | status | commit | what fails |')
out.append('|---|---|---|---|---|')
for e in kf:
    out.append('| %s | `%s` | %s | %s | %s |' % (e['property'], esc(e['signature']), e['status'], e.get('commit') or '-', esc(e.get('what_fails', ''))[:330]))
out.append('')

out.append('### 11.2 Sensitivity: deliberate source mutations (tools/senscheck.py, quick-tier budget, scratch copy of the tree)\n')
out.append('| property | mutation | result | shrunk case |')
out.append('|---|---|---|---|')
tot = det = 0
for f in sorted(glob.glob(os.path.join(ROOT, 'tools', 'mutations', 'results', 'C*.json'))):
    pid = os.path.basename(f)[:-5]
    for m in json.load(open(f)):
        tot += 1
        det += 'DETECTED' in m['result']
        out.append('| %s | %s | %s | %s |' % (pid, esc(m['mutation']), esc(m['result']), esc(m.get('shrunk', ''))[:160]))
out.append('')
out.append('%d of %d mutations detected; the misses are equivalent mutants within the generated domain (discussed in 11.4).\n' % (det, tot))

out.append('### 11.3 Seeded changes written by independent sub-agents (property text + scratch worktree only)\n')
out.append('Each change compiles, passes the 46 pinned tests and comes with a demonstration that fails with it and passes without it (all three re-confirmed in a scratch worktree by '
           '`tools/seedtool.py verify`); `tools/seedtool.py detect` then ran the registered quick check of the broken property against a scratch copy with the patch applied.\n')
out.append('| seed | property | what the change does / what it needs | quick check result |')
out.append('|---|---|---|---|')
n = caught = 0
for d in sorted(glob.glob(os.path.join(ROOT, 'seeded', '*'))):
    if not os.path.isdir(d):
        continue
    meta = json.load(open(os.path.join(d, 'meta.json')))
    res = '-'
    if meta.get('retired'):
        res = 'retired: ' + meta['retired']
    dp = os.path.join(d, 'detection.json')
    if os.path.exists(dp):
        det_ = json.load(open(dp))
        parts = []
        for r in det_['results']:
            if r.get('detected'):
                parts.append('%s: DETECTED `%s`' % (r['check'], r.get('signature', '')))
            else:
                parts.append('%s: %s' % (r['check'], 'missed' if r.get('exit') == 0 else 'exit %s' % r.get('exit')))
        res = '; '.join(parts) + ' (%s tier)' % det_.get('tier', 'quick')
        n += 1
        caught += any(r.get('detected') for r in det_['results'])
    out.append('| %s | %s | %s — needs: %s | %s |' % (os.path.basename(d), meta.get('property'), esc(meta.get('summary', ''))[:260], esc(meta.get('needs', ''))[:200], esc(res)))
out.append('')
out.append('%d of %d seeded changes with a detection run were caught by the quick tier.\n' % (caught, n))

text = open(os.path.join(ROOT, 'DESIGN.md')).read()
block = '<!-- RESULTS:BEGIN -->\n' + '\n'.join(out) + '\n<!-- RESULTS:END -->'
if '<!-- RESULTS:BEGIN -->' in text:
    text = re.sub(r'<!-- RESULTS:BEGIN -->.*?<!-- RESULTS:END -->', lambda m: block, text, flags=re.S)
else:
    text += '\n' + block + '\n'
open(os.path.join(ROOT, 'DESIGN.md'), 'w').write(text)
print('DESIGN.md results block: %d findings, %d/%d mutations, %d/%d seeds' % (len(kf), det, tot, caught, n))
