#!/usr/bin/env python3
"""Seeded-change tooling (changes written by independent sub-agents; see /verif/seeded/*/meta.json).

  tools/seedtool.py verify  <deliverable-dir> <agent-worktree-path> [--name C10_1]
      Confirms in a scratch git worktree (outside /repo and /verif) that the patch applies, the project builds,
      the 46 baseline tests pass with it, and the demonstration fails with the patch and passes without it.
      On success copies patch.diff, the demonstration, RUN.txt and an augmented meta.json to /verif/seeded/<name>/.
  tools/seedtool.py detect  <name>... | --all   [--tier quick]
      Applies each kept patch to a scratch copy of /repo's tree (src+include), runs the registered check of the
      property it breaks (./check with VERIF_ALT_REPO, i.e. the same driver, engines, budgets as the real check) and
      records the outcome in /verif/seeded/<name>/detection.json.
"""
import glob, json, os, re, shutil, subprocess, sys, time

ROOT = os.path.dirname(os.path.dirname(os.path.abspath(__file__)))
WT = os.environ.get('VS_WT', '/tmp/vs_wt')   # a second verification lane uses VS_WT=/tmp/vs_wt2


def sh(cmd, **kw):
    return subprocess.run(cmd, shell=isinstance(cmd, str), stdout=subprocess.PIPE, stderr=subprocess.STDOUT, text=True, errors='replace', **kw)


def ensure_worktree():
    if not os.path.isdir(WT):
        p = sh(['git', '-C', '/repo', 'worktree', 'add', '--detach', WT, 'HEAD'])
        assert p.returncode == 0, p.stdout
    else:
        sh(['git', '-C', WT, 'checkout', '--detach', sh(['git', '-C', '/repo', 'rev-parse', 'HEAD']).stdout.strip()])
        sh(['git', '-C', WT, 'checkout', '--', '.'])
    ensure_worktree_build()


def ensure_worktree_build():
    if not (os.path.exists(os.path.join(WT, '_build', 'build.ninja')) and os.path.exists(os.path.join(WT, '_build', 'CMakeCache.txt'))):
        shutil.rmtree(os.path.join(WT, '_build'), ignore_errors=True)
        p = sh('cmake -G Ninja -S %s -B %s/_build -DCMAKE_BUILD_TYPE=RelWithDebInfo -DCMAKE_CXX_FLAGS=-Wno-error' % (WT, WT), cwd='/tmp')
        assert p.returncode == 0, p.stdout[-2000:]


def build_dir_sane():
    try:
        txt = open(os.path.join(WT, '_build', 'build.ninja')).read(20000)
    except OSError:
        return False
    return ('cmake_ninja_workdir = %s/_build/' % WT) in txt


def build_and_test(run_tests=True):
    if not build_dir_sane():
        # (seen once: the generated build files pointed at another source tree) -> configure from scratch
        shutil.rmtree(os.path.join(WT, '_build'), ignore_errors=True)
        ensure_worktree_build()
    p = sh('cmake --build %s/_build -- -k 0 -j12' % WT)
    # the only tolerated build failure is the cli_fetch_dir test target (broken on the pristine tree too)
    failed = set(re.findall(r'FAILED: (\S+)', p.stdout))
    bad = [f for f in failed if 'cli_fetch_dir' not in f]
    if bad:
        return False, 'build failed: %s\n%s' % (bad, p.stdout[-1500:])
    if not run_tests:
        return True, 'built'
    # a private network namespace per run: the CLI tests use fixed ports that other lanes / agents may hold
    netns = "unshare -rn sh -c 'ip link set lo up 2>/dev/null; %s'" if sh("unshare -rn true").returncode == 0 else "flock /tmp/vs_ctest.lock sh -c '%s'"
    t = sh(netns % ('ctest --test-dir %s/_build -j4 --timeout 900' % WT))
    fails = [f for f in re.findall(r'^\s*\d+ - (\S+) \(', t.stdout, re.M) if f != 'EphemeralNet.CLIFetchDir']
    m = re.search(r'(\d+)% tests passed, (\d+) tests failed out of (\d+)', t.stdout)
    # tests that start daemons on fixed ports are flaky on a shared, loaded machine: re-run each failed test alone
    still = []
    for f in fails:
        for attempt in range(3):
            r = sh(netns % ('ctest --test-dir %s/_build -R "^%s$" --timeout 900' % (WT, re.escape(f))))
            if '100% tests passed' in r.stdout:
                break
            time.sleep(3)
        else:
            still.append(f)
    if still:
        return False, 'tests failed: %s' % still
    return True, 'tests ok (%s%s)' % (m.group(0) if m else '?', ('; passed when re-run alone: %s' % fails) if fails else '')


def run_demo(src_dir, agent_wt):
    work = WT + '_demo'
    shutil.rmtree(work, ignore_errors=True)
    shutil.copytree(src_dir, work)
    run = open(os.path.join(work, 'RUN.txt')).read().strip().splitlines()
    lines = [re.sub(r'^\s*(ROOT|WT)=<[^>]*>\s*;\s*', '', l.strip()) for l in run if l.strip() and not l.strip().startswith('#')]
    lines = [re.sub(r';\s*echo\s+"?exit=\$\?"?', '', re.sub(r'\s{2,}#.*$', '', l)) for l in lines]   # the exit status itself is what is judged
    cmd = ' && '.join(lines)
    cmd = cmd.replace(agent_wt, WT)
    cmd = re.sub(r'<[A-Za-z_ -]*build[A-Za-z_ -]*>', WT + '/_build', cmd, flags=re.I)
    cmd = re.sub(r'<[A-Za-z_ -]*(?:repo|root|worktree|wt|checkout)[A-Za-z_ -]*>', WT, cmd, flags=re.I)
    cmd = cmd.replace(os.path.abspath(src_dir), work)
    env = dict(os.environ, ROOT=WT, WT=WT, WORKTREE=WT)
    p = sh(['bash', '-c', cmd], cwd=work, timeout=900, env=env)
    return p.returncode, p.stdout[-1500:]


def verify(argv):
    src, agent_wt = argv[0], argv[1]
    name = argv[argv.index('--name') + 1] if '--name' in argv else os.path.basename(src.rstrip('/'))
    meta = json.load(open(os.path.join(src, 'meta.json')))
    ensure_worktree()
    res = {'name': name, 'verified_at_commit': sh(['git', '-C', '/repo', 'rev-parse', '--short', 'HEAD']).stdout.strip()}
    a = sh(['git', '-C', WT, 'apply', os.path.join(os.path.abspath(src), 'patch.diff')])
    if a.returncode != 0:
        res['ok'] = False
        res['why'] = 'patch does not apply: ' + a.stdout[-500:]
        print(json.dumps(res, indent=1))
        return 1
    # cheap part first: the demonstration must pass on the unpatched tree (also catches RUN.txt problems before the long test run)
    sh(['git', '-C', WT, 'apply', '-R', os.path.join(os.path.abspath(src), 'patch.diff')])
    ok2, msg2 = build_and_test(False)
    rc0, out0 = run_demo(src, agent_wt)
    res['demo_without_patch_exit'] = rc0
    if not ok2 or rc0 != 0:
        res['ok'] = False
        res['demo_output_without_patch'] = (msg2 if not ok2 else out0)[-800:]
        print(json.dumps(res, indent=1))
        return 1
    sh(['git', '-C', WT, 'apply', os.path.join(os.path.abspath(src), 'patch.diff')])
    ok, msg = build_and_test(True)
    res['with_patch_build_and_tests'] = msg
    rc1, out1 = (None, '')
    if ok:
        rc1, out1 = run_demo(src, agent_wt)
        res['demo_with_patch_exit'] = rc1
    sh(['git', '-C', WT, 'checkout', '--', '.'])
    ok = bool(ok and rc1 not in (None, 0))
    if not ok:
        res['demo_output_with_patch'] = out1[-600:]
    res['ok'] = bool(ok)
    print(json.dumps(res, indent=1))
    if ok:
        dst = os.path.join(ROOT, 'seeded', name)
        os.makedirs(dst, exist_ok=True)
        for fn in os.listdir(src):
            if fn in ('demo',) or os.path.isdir(os.path.join(src, fn)):
                continue
            if os.path.getsize(os.path.join(src, fn)) < 2_000_000:
                shutil.copy(os.path.join(src, fn), os.path.join(dst, fn))
        meta['confirmed_by_main_session'] = {
            'commit': res['verified_at_commit'],
            'what_was_run': 'scratch worktree %s: git apply patch.diff; cmake --build; ctest -j6 (46 baseline tests passed; cli_fetch_dir does not build on the pristine tree either); '
                            'demonstration built per RUN.txt: exit %d with the patch, exit %d without it' % (WT, res['demo_with_patch_exit'], res['demo_without_patch_exit']),
            'tests': msg,
        }
        meta['agent_worktree'] = agent_wt
        json.dump(meta, open(os.path.join(dst, 'meta.json'), 'w'), indent=1)
    return 0 if ok else 1


def detect(argv):
    tier = argv[argv.index('--tier') + 1] if '--tier' in argv else 'quick'
    names = [a for a in argv if not a.startswith('--') and a not in ('quick', 'thorough')]
    if '--all' in argv:
        names = sorted(os.path.basename(d) for d in glob.glob(os.path.join(ROOT, 'seeded', '*')) if os.path.isdir(d))
    scratch = '/tmp/seedchk'
    for name in names:
        d = os.path.join(ROOT, 'seeded', name)
        meta = json.load(open(os.path.join(d, 'meta.json')))
        pid = meta['property']
        checks = meta.get('checks_to_run', [pid])
        # fresh sources, persistent object dir (incremental rebuilds)
        # (rewrite exactly the files whose content differs, so their mtime is new and make rebuilds them;
        #  never leave an object compiled from the previous seed's patch behind)
        for sub in ('src', 'include'):
            for root, _, files in os.walk(os.path.join('/repo', sub)):
                for fn in files:
                    srcp = os.path.join(root, fn)
                    dstp = os.path.join(scratch, os.path.relpath(srcp, '/repo'))
                    data = open(srcp, 'rb').read()
                    try:
                        same = open(dstp, 'rb').read() == data
                    except OSError:
                        same = False
                    if not same:
                        os.makedirs(os.path.dirname(dstp), exist_ok=True)
                        with open(dstp, 'wb') as f:
                            f.write(data)
            for root, _, files in os.walk(os.path.join(scratch, sub)):
                for fn in files:
                    if fn.endswith(('.orig', '.rej')) or not os.path.exists(os.path.join('/repo', os.path.relpath(os.path.join(root, fn), scratch))):
                        os.remove(os.path.join(root, fn))
        a = sh(['git', 'apply', '--directory', scratch.lstrip('/'), '--unsafe-paths', os.path.join(d, 'patch.diff')], cwd='/')
        if a.returncode != 0:
            a = sh('patch -p1 -d %s < %s' % (scratch, os.path.join(d, 'patch.diff')))
        if a.returncode != 0:
            print(name, 'PATCH DID NOT APPLY', a.stdout[-300:])
            continue
        out = {'tier': tier, 'at': time.strftime('%Y-%m-%d %H:%M'), 'repo_commit': sh(['git', '-C', '/repo', 'rev-parse', '--short', 'HEAD']).stdout.strip(), 'results': []}
        for chk in checks:
            t0 = time.time()
            env = dict(os.environ, VERIF_ALT_REPO=scratch, VERIF_SEED=os.environ.get('VERIF_SEED', '1'))
            p = sh([os.path.join(ROOT, 'check'), chk, '--tier', tier], env=env, timeout=7200)
            vio = re.findall(r'^VIOLATION property=(\S+) replay=(\S+)\n\s+signature=(\S+)', p.stdout, re.M)
            r = {'check': chk, 'exit': p.returncode, 'detected': p.returncode == 1 and bool(vio), 'wall_s': round(time.time() - t0, 1)}
            if vio:
                r['signature'] = vio[0][2]
                m = re.search(r'evaluations=(\d+)', p.stdout)
                if m:
                    r['evaluations_until_failure'] = int(m.group(1))
                tail = p.stdout[p.stdout.find('VIOLATION'):][:700]
                r['report'] = tail
            elif p.returncode != 0:
                r['note'] = p.stdout[-500:]
            out['results'].append(r)
            print('%-12s %-5s %s %s' % (name, chk, 'DETECTED ' + r.get('signature', '') if r['detected'] else ('MISSED' if p.returncode == 0 else 'BROKEN(exit %d)' % p.returncode), r['wall_s']), flush=True)
        json.dump(out, open(os.path.join(d, 'detection.json'), 'w'), indent=1)


if __name__ == '__main__':
    if len(sys.argv) < 2 or sys.argv[1] not in ('verify', 'detect'):
        print(__doc__)
        sys.exit(2)
    sys.exit({'verify': verify, 'detect': detect}[sys.argv[1]](sys.argv[2:]) or 0)
