#!/bin/bash
# runs every property's thorough tier once, sequentially, and prints one summary line per property
cd "$(dirname "$0")/.."
make -j16 all > /tmp/thorough_build.log 2>&1 || { echo "BUILD FAILED"; tail -20 /tmp/thorough_build.log; exit 2; }
LIST=$(tr -s " \n" "\n\n" < props.d/enabled.txt | grep -E "^C[0-9]+$"); [ "$1" = "reverse" ] && LIST=$(echo "$LIST" | tac); [ -n "$2" ] && LIST=$(echo "$LIST" | head -n "$2")
for p in $LIST; do
  t0=$(date +%s)
  out=$(nice -n 5 ./check $p --tier thorough 2>&1); rc=$?
  echo "$p exit=$rc wall=$(( $(date +%s) - t0 ))s $(echo "$out" | grep -E 'tier=thorough|VIOLATION|BROKEN|KNOWN-FINDING' | tr '\n' ' ' | cut -c1-400)"
done
