#!/usr/bin/env python3
"""Regenerates /verif/MANIFEST.json from props.py + properties.jsonl + tools/hooks.json."""
import json, os, sys
ROOT = os.path.dirname(os.path.dirname(os.path.abspath(__file__)))
sys.path.insert(0, ROOT)
from props import PROPS

ids = [json.loads(l)['id'] for l in open(os.path.join(ROOT, 'properties.jsonl'))]
hooks = json.load(open(os.path.join(ROOT, 'tools', 'hooks.json')))
na_reasons = json.load(open(os.path.join(ROOT, 'tools', 'not_applicable.json')))

checks = []
for pid in ids:
    if pid not in PROPS:
        continue
    c = PROPS[pid]
    engines = sorted({e for t in c['tiers'].values() for e, _ in t})
    chk = {
        'property_id': pid,
        'quick_cmd': './check %s --tier quick' % pid,
        'evidence_file': '/verif/evidence/%s.json' % pid,
        'replay_cmd_template': './check %s --replay {path}' % pid,
        'engine': '+'.join({'rc': 'tape-rc(rapidcheck)', 'fuzz': 'tape-fuzz(libFuzzer)', 'script': c.get('script_engine', 'script')}[e] for e in engines),
        'level_claimed': {'category': c.get('level', 'exploration'), 'text': c['level_text'], 'design_ref': c.get('design_ref', 'DESIGN.md 5')},
        'level_note': c['level_note'],
        'technique': c['technique'],
    }
    if 'thorough' in c['tiers']:
        chk['thorough_cmd'] = './check %s --tier thorough' % pid
    checks.append(chk)

na = [{'property_id': pid, 'reason': na_reasons.get(pid, 'check not built yet in this session (work in progress; design in DESIGN.md section 5)')}
      for pid in ids if pid not in PROPS]

manifest = {
    'version': 1,
    'setup_cmd': 'make -C /verif -j16 all',
    'hooks': hooks,
    'engines': [
        {'name': 'tape-rc', 'path': 'harness/runner.cpp', 'serves_properties': [p for p in ids if p in PROPS and any(e == 'rc' for t in PROPS[p]['tiers'].values() for e, _ in t)],
         'kind_free_text': 'rapidcheck generates and shrinks fixed-width operation tapes decoded into structured cases; explicit oracle per property'},
        {'name': 'tape-fuzz', 'path': 'harness/runner.cpp', 'serves_properties': [p for p in ids if p in PROPS and any(e == 'fuzz' for t in PROPS[p]['tiers'].values() for e, _ in t)],
         'kind_free_text': 'libFuzzer (ASan+UBSan) drives the same case function'},
        {'name': 'script', 'path': 'harness/', 'serves_properties': [p for p in ids if p in PROPS and any(e == 'script' for t in PROPS[p]['tiers'].values() for e, _ in t)],
         'kind_free_text': 'Hypothesis (black-box CLI) / TSan workload engines writing the same worker report'},
    ],
    'checks': checks,
    'not_applicable': na,
    'notes': 'All checks rebuild from /repo\'s working tree via /verif/Makefile (ASan+UBSan clang build, asserts on). '
             'Known findings: /verif/known_findings.json. See DESIGN.md.',
}
json.dump(manifest, open(os.path.join(ROOT, 'MANIFEST.json'), 'w'), indent=1)
print('MANIFEST.json: %d checks, %d not_applicable' % (len(checks), len(na)))
