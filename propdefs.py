W = 16  # thorough workers


def rc(cases, workers=1, **kw):
    return ('rc', dict(cases=cases, workers=workers, **kw))


def fuzz(secs, workers=1, **kw):
    return ('fuzz', dict(secs=secs, workers=workers, **kw))


def script(cmd, **kw):
    return ('script', dict(cmd=cmd, **kw))
