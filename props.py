# Per-property configuration for ./check and tools/gen_manifest.py: one fragment per property in props.d/Cxx.py
# defining PROP = dict(title, level, technique, design_ref, level_text, level_note, assumptions, tiers).
# tiers: list of (engine, options); engines: 'rc' (rapidcheck over tapes), 'fuzz' (libFuzzer over the same case
# function), 'script' (external engine writing the same worker report).
import glob, importlib.util, os

PROPS = {}
_dir = os.path.join(os.path.dirname(os.path.abspath(__file__)), 'props.d')
# only fragments listed in props.d/enabled.txt are live (others may be work in progress)
_enabled = set(open(os.path.join(_dir, 'enabled.txt')).read().split())
for _p in sorted(glob.glob(os.path.join(_dir, 'C*.py'))):
    if os.path.basename(_p)[:-3] not in _enabled:
        continue
    _spec = importlib.util.spec_from_file_location('propfrag_' + os.path.basename(_p)[:-3], _p)
    _m = importlib.util.module_from_spec(_spec)
    _spec.loader.exec_module(_m)
    PROPS[os.path.basename(_p)[:-3]] = _m.PROP
