# Per-property configuration for ./check and tools/gen_manifest.py.
# tiers: list of (engine, options); engines: 'rc' (rapidcheck over tapes), 'fuzz' (libFuzzer over the
# same case function), 'script' (external engine writing the same worker report).

W = 16  # thorough workers


def rc(cases, workers=1, **kw):
    return ('rc', dict(cases=cases, workers=workers, **kw))


def fuzz(secs, workers=1, **kw):
    return ('fuzz', dict(secs=secs, workers=workers, **kw))


PROPS = {
    'C08': dict(
        title='SHA-256 and HMAC-SHA256 match the standards for every input',
        level='exploration',
        technique='property-based differential testing against OpenSSL (rapidcheck tapes + libFuzzer on the same case function)',
        design_ref='DESIGN.md 5/C08',
        level_text='Generated messages, update partitions, keys and candidate tags are compared with OpenSSL libcrypto; '
                   'boundary lengths around the 55/56/64-byte padding edges and keys longer than one block are generated on purpose. '
                   'Exploration is the right level: the property is a pure input/output equality against a standard.',
        level_note='Trusted base: OpenSSL 3 EVP SHA-256/HMAC (self-checked against FIPS 180-4 / RFC 4231 vectors each run). '
                   'A hasher object is never reused after finalize (not claimed by the property).',
        assumptions=['OpenSSL libcrypto is a correct SHA-256/HMAC-SHA256 reference', 'hasher objects are not reused after finalize()'],
        tiers={
            'quick': [rc(20000)],
            'thorough': [rc(60000, W), fuzz(120, 4, max_len=12 + 4 * 64)],
        },
    ),
    'C06': dict(
        title='Provider lookups return exactly the live, non-withdrawn providers',
        level='exploration',
        technique='stateful model-based property testing under a harness-owned virtual clock (rapidcheck tapes + libFuzzer)',
        design_ref='DESIGN.md 5/C06',
        level_text='Generated add/withdraw/find/sweep/advance histories with mixed per-announcement TTLs are run against KademliaTable and an '
                   'explicit reference model; the live provider set is compared after every operation, at exact expiry instants (deadline, +-1 ns).',
        level_note='Trusted base: the reference model in harness/C06.cpp (written from the property statement) and the interposed clock. '
                   'Ties at the 20-provider cut are resolved by observation (any minimum-expiry element may be dropped).',
        assumptions=['steady_clock is the only time source of KademliaTable (interposed by the harness)'],
        tiers={
            'quick': [rc(4000)],
            'thorough': [rc(12000, W), fuzz(180, 8, max_len=4 + 8 * 80)],
        },
    ),
}
