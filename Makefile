# Builds the repository (from /repo's current working tree) in sanitizer variants, plus the
# harness binaries.  Everything lands in /verif/build.  See DESIGN.md section 2.3.
REPO    ?= /repo
B       ?= build
GUARD   := EPHEMERALNET_VERIF

CXX_A   := clang++
CXX_T   := g++
CXX_G   := g++
COMMON  := -g -D_FILE_OFFSET_BITS=64 -D$(GUARD) -DEPHEMERALNET_VERSION='"v1.0.5"' -I$(REPO)/include -Iharness -pthread -Wno-deprecated-declarations
SAN_A   := -fsanitize=address,undefined -fno-sanitize-recover=undefined -fno-omit-frame-pointer
FLAGS_A := -std=c++20 -O1 $(COMMON) $(SAN_A) -fsanitize=fuzzer-no-link
FLAGS_T := -std=c++20 -O1 $(COMMON) -fsanitize=thread
# second compiler for the pure parsing / codec / crypto properties: g++ at the product's optimisation level with its own
# ASan+UBSan (it instruments things clang 14 does not, e.g. abs(INT64_MIN), and optimises UB differently)
SAN_G   := -fsanitize=address,undefined -fno-sanitize-recover=undefined -fno-omit-frame-pointer
FLAGS_G := -std=c++20 -O2 $(COMMON) $(SAN_G)
LIBS    := -lcrypto -lcurl -lpthread

# ---- repository sources -------------------------------------------------------------
REPO_SRCS := $(shell cd $(REPO) && find src -name '*.cpp' | sort)
LIB_SRCS  := $(filter-out src/main.cpp src/relay/main.cpp,$(REPO_SRCS))
LIB_OBJS_A := $(patsubst src/%.cpp,$(B)/asan/%.o,$(LIB_SRCS))
LIB_OBJS_T := $(patsubst src/%.cpp,$(B)/tsan/%.o,$(LIB_SRCS))
GUB_SRCS   := $(filter src/protocol/%.cpp src/crypto/%.cpp src/security/%.cpp src/core/UpdateCheck.cpp src/core/Types.cpp src/daemon/StructuredLogger.cpp,$(LIB_SRCS))
LIB_OBJS_G := $(patsubst src/%.cpp,$(B)/gub/%.o,$(GUB_SRCS))
GCC_IDS    := C08 C09 C10 C13 C15 C16 C17 C18 C33 C37 C38
GCC_BINS   := $(patsubst %,$(B)/bin/%_rc_gcc,$(GCC_IDS))

# ---- harnesses ------------------------------------------------------------------------
HARNESS_SRCS := $(wildcard harness/C[0-9][0-9].cpp)
IDS          := $(patsubst harness/%.cpp,%,$(HARNESS_SRCS))
RC_BINS      := $(patsubst %,$(B)/bin/%_rc,$(IDS))
FUZZ_IDS     := $(shell grep -l 'VERIF_FUZZ_TARGET' $(HARNESS_SRCS) /dev/null | sed -n 's,harness/\(C[0-9]*\)\.cpp,\1,p')
FUZZ_BINS    := $(patsubst %,$(B)/bin/%_fuzz,$(FUZZ_IDS))
COMMON_OBJS  := $(B)/h/vclock.o $(B)/h/refs.o

# per-harness extra objects (shims that #include repository .cpp files)
EXTRA_C10 := $(B)/h/shim_shamir.o
EXTRA_C19 := $(B)/h/shim_pow.o $(B)/h/shim_main.o
EXTRA_C11 := $(B)/h/shim_main.o
EXTRA_C31 := $(B)/h/shim_main.o
EXTRA_C33 := $(B)/h/shim_nat.o
EXTRA_C34 := $(B)/h/shim_nat.o
EXTRAG_C10 := $(B)/hg/shim_shamir.o
EXTRAG_C33 := $(B)/hg/shim_nat.o

.PHONY: all repo bins clean tsan
all: repo bins
repo: $(B)/asan/libeph.a $(B)/bin/eph $(B)/bin/eph-relay-server
bins: $(RC_BINS) $(FUZZ_BINS) $(GCC_BINS) $(if $(wildcard harness/C36_tsan.cpp),$(B)/bin/C36_tsan)
tsan: $(B)/tsan/libeph.a

.SECONDARY:

# ---- asan variant -----------------------------------------------------------------------
$(B)/asan/%.o: $(REPO)/src/%.cpp
	@mkdir -p $(dir $@)
	$(CXX_A) $(FLAGS_A) -MMD -MP -c $< -o $@

# clang 14 + libstdc++ 12 cannot compile this TU as C++20 (recursive vector<pair<string,JsonValue>>)
$(B)/asan/core/UpdateCheck.o: $(REPO)/src/core/UpdateCheck.cpp
	@mkdir -p $(dir $@)
	$(CXX_A) $(FLAGS_A) -std=c++17 -MMD -MP -c $< -o $@

$(B)/asan/libeph.a: $(LIB_OBJS_A)
	@rm -f $@
	ar rcs $@ $^

$(B)/bin/eph: $(B)/asan/main.o $(B)/asan/libeph.a
	@mkdir -p $(dir $@)
	$(CXX_A) $(SAN_A) -o $@ $< $(B)/asan/libeph.a $(LIBS)

$(B)/bin/eph-relay-server: $(B)/asan/relay/main.o $(B)/asan/libeph.a
	@mkdir -p $(dir $@)
	$(CXX_A) $(SAN_A) -o $@ $< $(B)/asan/libeph.a $(LIBS)

# ---- tsan variant (C36) -----------------------------------------------------------------
$(B)/tsan/%.o: $(REPO)/src/%.cpp
	@mkdir -p $(dir $@)
	$(CXX_T) $(FLAGS_T) -MMD -MP -c $< -o $@

$(B)/tsan/libeph.a: $(LIB_OBJS_T)
	@rm -f $@
	ar rcs $@ $^

$(B)/bin/C36_tsan: harness/C36_tsan.cpp $(B)/tsan/libeph.a
	@mkdir -p $(dir $@)
	$(CXX_T) $(FLAGS_T) -MMD -MP -o $@ $< $(B)/tsan/libeph.a $(LIBS)

# ---- g++ ASan/UBSan variant of the leaf modules (second-compiler runs of the pure properties) -----
$(B)/gub/%.o: $(REPO)/src/%.cpp
	@mkdir -p $(dir $@)
	$(CXX_G) $(FLAGS_G) -MMD -MP -c $< -o $@

$(B)/gub/libeph.a: $(LIB_OBJS_G)
	@rm -f $@
	ar rcs $@ $^

$(B)/hg/%.o: harness/%.cpp
	@mkdir -p $(dir $@)
	$(CXX_G) $(FLAGS_G) -DVERIF_REPO='"$(REPO)"' -MMD -MP -c $< -o $@

$(B)/hg/runner_rc.o: harness/runner.cpp
	@mkdir -p $(dir $@)
	$(CXX_G) $(FLAGS_G) -DVERIF_ENGINE_RC -MMD -MP -c $< -o $@

# ---- harness objects ----------------------------------------------------------------------
$(B)/h/%.o: harness/%.cpp
	@mkdir -p $(dir $@)
	$(CXX_A) $(FLAGS_A) -DVERIF_REPO='"$(REPO)"' -MMD -MP -c $< -o $@

# shim_main includes src/main.cpp with main renamed
$(B)/h/shim_main.o: harness/shim_main.cpp $(REPO)/src/main.cpp
	@mkdir -p $(dir $@)
	$(CXX_A) $(FLAGS_A) -DVERIF_REPO='"$(REPO)"' -Dmain=eph_cli_main -MMD -MP -c $< -o $@

$(B)/h/runner_rc.o: harness/runner.cpp
	@mkdir -p $(dir $@)
	$(CXX_A) $(FLAGS_A) -DVERIF_ENGINE_RC -MMD -MP -c $< -o $@

$(B)/h/runner_fuzz.o: harness/runner.cpp
	@mkdir -p $(dir $@)
	$(CXX_A) $(FLAGS_A) -DVERIF_ENGINE_FUZZ -MMD -MP -c $< -o $@

.SECONDEXPANSION:
$(B)/bin/%_rc: $(B)/h/%.o $(B)/h/runner_rc.o $(COMMON_OBJS) $$(EXTRA_$$*) $(B)/asan/libeph.a
	@mkdir -p $(dir $@)
	$(CXX_A) $(SAN_A) -o $@ $(B)/h/$*.o $(B)/h/runner_rc.o $(COMMON_OBJS) $(EXTRA_$*) $(B)/asan/libeph.a -lrapidcheck $(LIBS)

$(B)/bin/%_rc_gcc: $(B)/hg/%.o $(B)/hg/runner_rc.o $(B)/hg/vclock.o $(B)/hg/refs.o $$(EXTRAG_$$*) $(B)/gub/libeph.a
	@mkdir -p $(dir $@)
	$(CXX_G) $(SAN_G) -o $@ $(B)/hg/$*.o $(B)/hg/runner_rc.o $(B)/hg/vclock.o $(B)/hg/refs.o $(EXTRAG_$*) $(B)/gub/libeph.a -lrapidcheck $(LIBS)

$(B)/bin/%_fuzz: $(B)/h/%.o $(B)/h/runner_fuzz.o $(COMMON_OBJS) $$(EXTRA_$$*) $(B)/asan/libeph.a
	@mkdir -p $(dir $@)
	$(CXX_A) $(SAN_A) -fsanitize=fuzzer -o $@ $(B)/h/$*.o $(B)/h/runner_fuzz.o $(COMMON_OBJS) $(EXTRA_$*) $(B)/asan/libeph.a $(LIBS)

clean:
	rm -rf $(B)

-include $(shell find $(B) -name '*.d' 2>/dev/null)
