// C24 — fetch scheduling respects limits, backs off, and always terminates (Node, virtual time)
#define VERIF_FUZZ_TARGET 1
#include "verif.hpp"
#include "vclock.hpp"
#include "node_access.hpp"

#include <map>

namespace verif {
const PropertyInfo kInfo = {
    "C24", 8, 8, 50,
    "tape -> Node with fetch_max_parallel_requests 0..3, attempt limit 1..6, 0 (unlimited) or 40, initial back-off 1..8 s, max back-off = initial * 2^(0..8), success interval 1..10 s. Two announcing "
    "peers: A with a live session on a socketpair (requests can be sent: dispatch succeeds) and B with a key but no session and no endpoint (dispatch fails at once); A's session "
    "can be dropped and re-attached. History over 4 foreign chunks (real manifests from a publisher node, expiry 40..400 s): assigned-fetch ANNOUNCE from A or B (incl. "
    "re-announce while the request is in flight, by the same or the other peer), chunk arrival (receive_chunk with the genuine ciphertext), advance (to the next retry instant "
    "exactly / -1ns / +1ns / to manifest expiry / random), tick, retry streak (advance to the next retry instant + tick, 8..47 times in a row). Oracle (state read through NodeTestAccess after every op): for each peer the in-use request count equals the "
    "number of pending fetches in flight to it and never exceeds the limit (when non-zero) — hence zero when nothing is outstanding; after the k-th consecutive failed dispatch of "
    "a fetch the next attempt is due exactly min(max_backoff, initial*2^(k-1)) later; a pending fetch is gone immediately after the chunk is received, after the first tick at/after "
    "its manifest expiry, and after a failed dispatch that reaches the attempt limit. Non-trivial: a re-announce of an in-flight fetch, or >= 3 consecutive failures."};

namespace {
using namespace ephemeralnet;
using TP = std::chrono::steady_clock::time_point;
using WP = std::chrono::system_clock::time_point;
using std::chrono::seconds;
using std::chrono::nanoseconds;
TP now() { return std::chrono::steady_clock::now(); }
WP wall() { return std::chrono::system_clock::now(); }
ChunkId cid(int i) { ChunkId c{}; Prng g(2400 + i); g.fill(c.data(), c.size()); c[0] = static_cast<std::uint8_t>(0xB0 + i); return c; }

struct Seen {
    std::size_t attempts = 0;
    bool in_flight = false;
    std::size_t consecutive_failures = 0;  // failed dispatches since the fetch was (re)created with attempts == 0 and no success
    bool had_success = false;
};
}  // namespace

void run_case(Ctx& c) {
    vclock::Frozen frozen(c.tape.header_seed());
    vnode::silence_streams();
    const Tape& t = c.tape;
    Config cfg;
    cfg.fetch_max_parallel_requests = static_cast<std::uint16_t>(t.h(0) % 4);
    static const std::uint8_t kAttemptLimits[8] = {1, 2, 3, 4, 5, 6, 0 /* unlimited */, 40};
    cfg.fetch_retry_attempt_limit = kAttemptLimits[t.h(1) % 8];
    cfg.fetch_retry_initial_backoff = seconds(1 + t.h(2) % 8);
    cfg.fetch_retry_max_backoff = cfg.fetch_retry_initial_backoff * (1 << (t.h(3) % 9));
    cfg.fetch_retry_success_interval = seconds(1 + t.h(4) % 10);
    cfg.fetch_availability_refresh = seconds(10);
    cfg.min_manifest_ttl = seconds(2);
    cfg.max_manifest_ttl = seconds(3600);
    cfg.cleanup_interval = seconds(3600);
    cfg.announce_min_interval = seconds(1);
    cfg.announce_burst_limit = 1000;
    cfg.announce_burst_window = seconds(1);
    cfg.announce_pow_difficulty = 0;
    cfg.handshake_pow_difficulty = 0;
    cfg.key_rotation_interval = seconds(3600);
    cfg.nat_stun_enabled = false;
    cfg.relay_enabled = false;
    cfg.identity_seed = 24;
    Config pcfg = cfg;
    pcfg.identity_seed = 25;
    Node node(vnode::make_id(101, 0xA4), cfg);
    Node publisher(vnode::make_id(102, 0xB4), pcfg);
    const std::size_t limit = node.config().fetch_max_parallel_requests;
    const std::size_t attempt_limit = node.config().fetch_retry_attempt_limit;
    const auto initial = node.config().fetch_retry_initial_backoff, maxb = node.config().fetch_retry_max_backoff;
    c.note("parallel=%zu attempts=%zu backoff=%llds..%llds success=%llds", limit, attempt_limit, (long long)initial.count(), (long long)maxb.count(),
           (long long)node.config().fetch_retry_success_interval.count());

    vnode::FakePeer A, B;
    std::vector<std::unique_ptr<vnode::FakePeer>> old_sessions;
    if (!A.attach(node, vnode::make_id(111, 0x31), 1111)) c.fail("C24:harness-error", "attach failed");
    B.attach(node, vnode::make_id(112, 0x32), 1112, false);
    vnode::QuiesceGuard guard{node, {&A}};
    bool a_connected = true;

    protocol::Manifest man[4];
    std::vector<std::uint8_t> cipher[4];
    std::string uri[4];
    for (int k = 0; k < 4; ++k) {
        man[k] = publisher.store_chunk(cid(k), Prng(70 + k).bytes(24), seconds(40 + 120 * k));
        cipher[k] = publisher.export_chunk_record(cid(k))->data;
        uri[k] = protocol::encode_manifest(man[k]);
    }
    std::map<std::string, int> key_to_idx;
    for (int k = 0; k < 4; ++k) key_to_idx[chunk_id_to_string(cid(k))] = k;
    std::map<int, Seen> seen;

    auto observe = [&](const char* after, bool was_tick) {
        auto& pend = vnode::Access::pending_fetches(node);
        auto& act = vnode::Access::active_peer_requests(node);
        // per-peer accounting
        std::map<std::string, std::size_t> inflight;
        for (auto& [key, f] : pend) if (f.in_flight) inflight[peer_id_to_string(f.peer_id)]++;
        for (auto* p : {&A, &B}) {
            auto pk = peer_id_to_string(p->id);
            std::size_t counted = act.count(pk) ? act[pk] : 0;
            std::size_t real = inflight.count(pk) ? inflight[pk] : 0;
            if (counted != real)
                c.fail(counted > real ? "C24:peer-slot-leaked" : "C24:peer-slot-undercounted",
                       std::string("after ") + after + ": peer " + (p == &A ? "A" : "B") + " has " + std::to_string(real) + " request(s) in flight but its in-use count is " + std::to_string(counted));
            if (limit > 0 && real > limit) c.fail("C24:parallel-limit-exceeded", std::to_string(real) + " requests in flight to one peer, limit " + std::to_string(limit));
        }
        // per-fetch transitions
        for (auto& [key, f] : pend) {
            int k = key_to_idx.at(key);
            Seen& s = seen[k];
            if (f.attempts < s.attempts) s = Seen{};  // re-created / reset by a re-announce
            if (f.attempts > s.attempts) {
                // one or more dispatches happened during this op; judge the last one
                bool failed = !f.in_flight;
                if (failed) {
                    s.consecutive_failures = s.had_success ? 0 : s.consecutive_failures + (f.attempts - s.attempts);
                    if (attempt_limit > 0 && f.attempts >= attempt_limit)
                        c.fail("C24:attempt-limit-not-enforced", "fetch of c" + std::to_string(k) + " is still pending after a failed dispatch brought it to " + std::to_string(f.attempts) + " attempts (limit " + std::to_string(attempt_limit) + ")");
                    if (!s.had_success && f.attempts - s.attempts == 1 && f.last_dispatch == now()) {
                        std::size_t kk = f.attempts;
                        auto expect = initial * (1 << std::min<std::size_t>(kk - 1, 8));
                        if (expect > maxb) expect = maxb;
                        if (f.next_attempt - f.last_dispatch != expect)
                            c.fail("C24:backoff-wrong", "after failed dispatch #" + std::to_string(kk) + " of c" + std::to_string(k) + " the next attempt is due in " +
                                                            std::to_string(std::chrono::duration_cast<nanoseconds>(f.next_attempt - f.last_dispatch).count()) + " ns, expected " + std::to_string(expect.count()) + " s");
                        if (kk >= 3) c.nt("three_consecutive_failures");
                        c.label("backoff_checked");
                    }
                } else {
                    s.had_success = true;
                }
            }
            s.attempts = f.attempts;
            s.in_flight = f.in_flight;
            if (was_tick && f.manifest_expires != WP{} && wall() >= f.manifest_expires)
                c.fail("C24:fetch-outlives-manifest", "fetch of c" + std::to_string(k) + " is still pending after a tick at/after its manifest expiry");
        }
        for (auto it = seen.begin(); it != seen.end();) it = pend.count(chunk_id_to_string(cid(it->first))) ? std::next(it) : seen.erase(it);
    };

    for (std::size_t i = 0; i < t.nrec(); ++i) {
        Rec r = t.r(i);
        int k = r.a(0) % 4;
        if (r.op() % 16 == 15) {
            // a streak of failed attempts: go to the next retry instant and tick, up to 8..47 times in a row (with an
            // unlimited or large attempt limit the doubling has to stay at the maximum for as long as the manifest lives)
            unsigned n = 8 + r.a(1) % 40, done = 0;
            for (; done < n; ++done) {
                TP next = TP::max();
                for (auto& [key, f] : vnode::Access::pending_fetches(node))
                    if (f.next_attempt > now() && f.next_attempt != TP::max()) next = std::min(next, f.next_attempt);
                if (next == TP::max()) break;
                vclock::advance(next - now());
                node.tick();
                A.drain();
                observe("tick in a retry streak", true);
            }
            c.note("|streak(%u)", done);
            if (done >= 12) c.nt("retry_streak_of_12_or_more");
            continue;
        }
        switch (r.op() % 8) {
            case 0: case 1: case 2: {
                bool fromA = (r.a(1) & 1) != 0;
                auto& pend = vnode::Access::pending_fetches(node);
                auto it = pend.find(chunk_id_to_string(cid(k)));
                if (it != pend.end() && it->second.in_flight) c.nt("reannounce_of_inflight_fetch");
                vclock::advance(seconds(1));  // keep clear of the announce throttle (judged in C21)
                c.note("|adv(1s) announce(c%d,from %s)", k, fromA ? "A" : "B");
                protocol::Message m{};
                m.type = protocol::MessageType::Announce;
                protocol::AnnouncePayload a{};
                a.chunk_id = cid(k);
                a.peer_id = fromA ? A.id : B.id;
                a.ttl = seconds(30);
                a.manifest_uri = uri[k];
                a.assigned_shards = {man[k].shards.front().index};
                m.payload = a;
                (fromA ? A : B).deliver(m);
                A.drain();
                observe("announce", false);
                break;
            }
            case 3: {
                c.note("|receive(c%d)", k);
                auto got = node.receive_chunk(uri[k], cipher[k]);
                if (got.has_value() && vnode::Access::pending_fetches(node).count(chunk_id_to_string(cid(k))))
                    c.fail("C24:fetch-survives-arrival", "fetch of c" + std::to_string(k) + " is still pending after the chunk was received and stored");
                A.drain();
                observe("receive", false);
                break;
            }
            case 4: {
                // toggle A's session
                if (a_connected) {
                    c.note("|dropA");
                    A.close();
                    for (int w = 0; w < 5000 && vnode::Access::sessions(node).is_connected(A.id); ++w) std::this_thread::sleep_for(std::chrono::microseconds(100));
                    a_connected = false;
                } else {
                    c.note("|attachA");
                    int sv[2];
                    if (::socketpair(AF_UNIX, SOCK_STREAM, 0, sv) == 0) {
                        A.fd = sv[0];
                        ::fcntl(A.fd, F_SETFL, ::fcntl(A.fd, F_GETFL, 0) | O_NONBLOCK);
                        vnode::Access::sessions(node).adopt_outbound_socket(A.id, static_cast<network::SessionManager::SocketHandle>(sv[1]), true);
                        a_connected = true;
                    }
                }
                observe("session-toggle", false);
                break;
            }
            case 5: case 6: {
                TP next = TP::max();
                WP next_exp = WP::max();
                for (auto& [key, f] : vnode::Access::pending_fetches(node)) {
                    if (f.next_attempt > now() && f.next_attempt != TP::max()) next = std::min(next, f.next_attempt);
                    if (f.manifest_expires > wall()) next_exp = std::min(next_exp, f.manifest_expires);
                }
                unsigned kind = r.a(1) % 6;
                if (next == TP::max() && kind < 3) kind = 4;
                if (next_exp == WP::max() && kind == 3) kind = 4;
                nanoseconds d{0};
                switch (kind) {
                    case 0: d = next - now(); break;
                    case 1: d = next - now() - nanoseconds(1); break;
                    case 2: d = next - now() + nanoseconds(1); break;
                    case 3: d = next_exp - wall(); break;
                    case 4: d = std::chrono::milliseconds(1 + r.a16(2) % 4000); break;
                    case 5: d = seconds(1 + r.a(2) % 20); break;
                }
                if (d.count() < 0) d = nanoseconds(0);
                c.note("|adv(%lld)", static_cast<long long>(d.count()));
                vclock::advance(d);
                break;
            }
            case 7: {
                c.note("|tick");
                node.tick();
                A.drain();
                observe("tick", true);
                break;
            }
        }
    }
}
}  // namespace verif
