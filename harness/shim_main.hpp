// Internals shim for the CLI (src/main.cpp, compiled with -Dmain=eph_cli_main): exports the helpers that
// live in main.cpp's anonymous namespace.  Plain functions over std types only.
//
// NOTE (C31): the filename sanitiser that `eph fetch` applies to the manifest's "filename" metadata is a
// lambda (`sanitize_filename`) local to main(), so it cannot be exported; the only function-level
// sanitiser the CLI uses is the library's public ephemeralnet::security::sanitize_filename_hint (store path).
// `cli_main` below runs the whole CLI in-process for harnesses that want to drive `eph fetch` directly.
#pragma once
#include <array>
#include <cstddef>
#include <cstdint>
#include <optional>
#include <string>
#include <utility>
#include <vector>

namespace shim_main {
using Id = std::array<std::uint8_t, 32>;

// count_leading_zero_bits(std::span<const uint8_t>) of main.cpp
std::size_t cli_leading_zero_bits(const std::uint8_t* p, std::size_t n);

// transport_handshake_digest / transport_pow_valid / compute_transport_pow of main.cpp
Id cli_transport_handshake_digest(const Id& initiator, const Id& responder, std::uint32_t initiator_public, std::uint64_t nonce);
bool cli_transport_pow_valid(const Id& initiator, const Id& responder, std::uint32_t initiator_public,
                             std::uint64_t nonce, std::uint8_t difficulty);
std::optional<std::uint64_t> cli_compute_transport_pow(const Id& initiator, const Id& responder,
                                                       std::uint32_t initiator_public, std::uint8_t difficulty);

// decrypt_chunk_with_manifest(manifest, payload) of main.cpp.  Only the manifest fields that function reads
// are passed: chunk_id, chunk_hash, nonce, threshold, shards (index, value) — and the CHUNK payload bytes.
// Exceptions thrown by the callee (e.g. from Shamir::combine) propagate unchanged.
struct ManifestKeyFields {
    Id chunk_id{};
    Id chunk_hash{};
    std::array<std::uint8_t, 12> nonce{};
    std::uint8_t threshold = 0;
    std::uint8_t total_shares = 0;
    std::vector<std::pair<std::uint8_t, Id>> shards;
};
std::optional<std::vector<std::uint8_t>> cli_decrypt_chunk_with_manifest(const ManifestKeyFields& manifest,
                                                                         const std::vector<std::uint8_t>& chunk_data);
// same, but the manifest is given as an eph:// manifest URI and decoded with protocol::decode_manifest
// (throws what decode_manifest throws)
std::optional<std::vector<std::uint8_t>> cli_decrypt_chunk_with_manifest_uri(const std::string& manifest_uri,
                                                                             const std::vector<std::uint8_t>& chunk_data);

// the renamed CLI entry point: int main(int argc, char** argv) of main.cpp
int cli_main(const std::vector<std::string>& args);
}  // namespace shim_main
