#include "vclock.hpp"

#include <atomic>
#include <deque>
#include <mutex>
#include <random>
#include <time.h>
#include <sys/random.h>
#include <unistd.h>

namespace {
std::atomic<bool> g_frozen{false};
std::atomic<std::int64_t> g_t{0};
thread_local std::int64_t tl_steady_skew = 0;
thread_local std::int64_t tl_wall_skew = 0;

std::atomic<bool> g_rng_fixed{false};
std::mutex g_rng_mutex;
std::uint64_t g_rng_state = 0;
std::deque<std::uint32_t> g_rng_queue;
std::atomic<std::uint64_t> g_rng_draws{0};

std::uint64_t splitmix(std::uint64_t& s) {
    std::uint64_t z = (s += 0x9E3779B97F4A7C15ull);
    z = (z ^ (z >> 30)) * 0xBF58476D1CE4E5B9ull;
    z = (z ^ (z >> 27)) * 0x94D049BB133111EBull;
    return z ^ (z >> 31);
}
}  // namespace

namespace vclock {
void freeze() { g_t.store(0); g_frozen.store(true); }
void unfreeze() { g_frozen.store(false); }
bool frozen() { return g_frozen.load(); }
void advance(ns d) { g_t.fetch_add(d.count()); }
void set(ns t) { g_t.store(t.count()); }
ns now_offset() { return ns(g_t.load()); }
void set_thread_skew(ns s, ns w) { tl_steady_skew = s.count(); tl_wall_skew = w.count(); }

std::chrono::steady_clock::time_point steady_at(ns t) {
    return std::chrono::steady_clock::time_point(ns(kSteady0 + t.count()));
}
std::chrono::system_clock::time_point wall_at(ns t) {
    return std::chrono::system_clock::time_point(ns(kWall0 + t.count()));
}

void rng_seed(std::uint64_t seed) {
    std::lock_guard<std::mutex> lock(g_rng_mutex);
    g_rng_state = seed;
    g_rng_queue.clear();
    g_rng_draws.store(0);
    g_rng_fixed.store(true);
}
void rng_real() { g_rng_fixed.store(false); }
void rng_push(std::uint32_t v) {
    std::lock_guard<std::mutex> lock(g_rng_mutex);
    g_rng_queue.push_back(v);
}
void rng_clear_queue() {
    std::lock_guard<std::mutex> lock(g_rng_mutex);
    g_rng_queue.clear();
}
std::uint64_t rng_draws() { return g_rng_draws.load(); }
}  // namespace vclock

// ---- interposed libstdc++ symbols ----------------------------------------------------------
namespace std {
namespace chrono {
inline namespace _V2 {
steady_clock::time_point steady_clock::now() noexcept {
    if (g_frozen.load(std::memory_order_relaxed)) {
        return time_point(nanoseconds(vclock::kSteady0 + g_t.load(std::memory_order_relaxed) + tl_steady_skew));
    }
    timespec ts{};
    clock_gettime(CLOCK_MONOTONIC, &ts);
    return time_point(seconds(ts.tv_sec) + nanoseconds(ts.tv_nsec));
}
system_clock::time_point system_clock::now() noexcept {
    if (g_frozen.load(std::memory_order_relaxed)) {
        return time_point(nanoseconds(vclock::kWall0 + g_t.load(std::memory_order_relaxed) + tl_wall_skew));
    }
    timespec ts{};
    clock_gettime(CLOCK_REALTIME, &ts);
    return time_point(seconds(ts.tv_sec) + nanoseconds(ts.tv_nsec));
}
}  // namespace _V2
}  // namespace chrono

random_device::result_type random_device::_M_getval() {
    if (g_rng_fixed.load(std::memory_order_relaxed)) {
        std::lock_guard<std::mutex> lock(g_rng_mutex);
        g_rng_draws.fetch_add(1);
        if (!g_rng_queue.empty()) {
            auto v = g_rng_queue.front();
            g_rng_queue.pop_front();
            return v;
        }
        return static_cast<result_type>(splitmix(g_rng_state));
    }
    result_type v = 0;
    if (getrandom(&v, sizeof(v), 0) != static_cast<ssize_t>(sizeof(v))) {
        timespec ts{};
        clock_gettime(CLOCK_MONOTONIC, &ts);
        v = static_cast<result_type>(ts.tv_nsec * 2654435761u);
    }
    return v;
}
}  // namespace std
