// C02 — every lifetime the node creates lies inside the sanitised TTL window
#define VERIF_FUZZ_TARGET 1
#include "verif.hpp"
#include "vclock.hpp"
#include "node_access.hpp"
#include "control_harness.hpp"

#include "ephemeralnet/security/StoreProof.hpp"

namespace verif {
const PropertyInfo kInfo = {
    "C02", 16, 8, 8,
    "tape -> Config with default/min/max TTL, key rotation, announce interval/burst/window and the three PoW difficulties each drawn from "
    "{-2^62,-86401,-1,0,1,2,4,5,6,59,60,3599,3600,3601,86399,86400,86401,2^31,2^62} (difficulties 0..255), inverted bounds included; each record is a "
    "store_chunk with a requested TTL from the same table (or a control-plane STORE with a TTL header: digits, huge, empty, non-numeric, negative) followed "
    "by an optional clock advance. Oracle (virtual clock, exact): node.config() satisfies 1s<=min<=max<=24h, min<=default<=max, rotation in [5s,1h], PoW<=24; "
    "after each store the chunk record deadline-now, manifest expiry-wall now, shard record expiry-now and the self-announcement contact expiry-now each lie "
    "in [min,max]; control STORE with TTL outside [min,max] is answered ERR_STORE_TTL_OUT_OF_RANGE and stores nothing, inside -> stored with a lifetime in the window. "
    "Non-trivial: the configuration needed clamping, or a requested TTL lay outside the window."};

namespace {
using namespace ephemeralnet;
using std::chrono::seconds;
const long long kVals[] = {-(1LL << 62), -86401, -1, 0, 1, 2, 4, 5, 6, 59, 60, 3599, 3600, 3601, 86399, 86400, 86401, 1LL << 31, 1LL << 62};
constexpr int kN = sizeof(kVals) / sizeof(kVals[0]);
long long pick(std::uint8_t b) { return kVals[b % kN]; }
}  // namespace

void run_case(Ctx& c) {
    vclock::Frozen frozen(c.tape.header_seed());
    vnode::silence_streams();
    const Tape& t = c.tape;
    Config cfg;
    cfg.default_chunk_ttl = seconds(pick(t.h(0)));
    cfg.min_manifest_ttl = seconds(pick(t.h(1)));
    cfg.max_manifest_ttl = seconds(pick(t.h(2)));
    cfg.key_rotation_interval = seconds(pick(t.h(3)));
    cfg.announce_min_interval = seconds(pick(t.h(4)));
    cfg.announce_burst_window = seconds(pick(t.h(5)));
    cfg.announce_burst_limit = t.h(6) % 8;
    cfg.announce_pow_difficulty = t.h(7);
    cfg.handshake_pow_difficulty = t.h(8);
    cfg.store_pow_difficulty = t.h(9);
    cfg.identity_seed = 7;
    cfg.nat_stun_enabled = false;
    cfg.relay_enabled = false;
    const bool use_control = (t.h(10) & 1) != 0;
    c.note("cfg def=%lld min=%lld max=%lld rot=%lld ann=%lld win=%lld burst=%u pow=%u/%u/%u ctl=%d", (long long)cfg.default_chunk_ttl.count(),
           (long long)cfg.min_manifest_ttl.count(), (long long)cfg.max_manifest_ttl.count(), (long long)cfg.key_rotation_interval.count(),
           (long long)cfg.announce_min_interval.count(), (long long)cfg.announce_burst_window.count(), (unsigned)cfg.announce_burst_limit, t.h(7), t.h(8), t.h(9), use_control);

    Node node(vnode::make_id(3, 0xC2), cfg);
    const Config& sc = node.config();
    const auto mn = sc.min_manifest_ttl, mx = sc.max_manifest_ttl;
    if (!(seconds(1) <= mn && mn <= mx && mx <= seconds(86400)))
        c.fail("C02:window-not-sanitised", "effective min=" + std::to_string(mn.count()) + " max=" + std::to_string(mx.count()));
    if (!(mn <= sc.default_chunk_ttl && sc.default_chunk_ttl <= mx)) c.fail("C02:default-outside-window", "effective default=" + std::to_string(sc.default_chunk_ttl.count()));
    if (!(seconds(5) <= sc.key_rotation_interval && sc.key_rotation_interval <= seconds(3600))) c.fail("C02:rotation-not-sanitised", "rotation=" + std::to_string(sc.key_rotation_interval.count()));
    if (sc.announce_pow_difficulty > 24 || sc.handshake_pow_difficulty > 24 || sc.store_pow_difficulty > 24) c.fail("C02:pow-above-24", "a PoW difficulty above 24 survived sanitisation");
    if (cfg.min_manifest_ttl != mn || cfg.max_manifest_ttl != mx || cfg.default_chunk_ttl != sc.default_chunk_ttl || cfg.key_rotation_interval != sc.key_rotation_interval ||
        t.h(7) > 24 || t.h(8) > 24 || t.h(9) > 24)
        c.nt("config_needed_clamping");
    if (cfg.min_manifest_ttl > cfg.max_manifest_ttl) c.label("inverted_bounds");

    std::unique_ptr<vctl::Server> server;
    if (use_control) {
        node.config().store_pow_difficulty = 0;  // C28 judges PoW; here only the TTL window
        server = std::make_unique<vctl::Server>(node);
        if (!server->ok()) c.fail("C02:harness-error", "control server did not start");
    }

    auto in_window = [&](const char* what, long long ns_left) {
        // lifetimes are whole seconds created at the current frozen instant
        if (ns_left < mn.count() * 1000000000LL || ns_left > mx.count() * 1000000000LL)
            c.fail(std::string("C02:lifetime-outside-window:") + what, std::string(what) + " lives " + std::to_string(ns_left) + " ns, window [" + std::to_string(mn.count()) + "s," + std::to_string(mx.count()) + "s]");
    };
    auto check_store_effects = [&](const ChunkId& id, const protocol::Manifest* manifest) {
        auto now = std::chrono::steady_clock::now();
        auto wall = std::chrono::system_clock::now();
        auto rec = node.export_chunk_record(id);
        if (!rec) c.fail("C02:store-left-no-record", "no chunk record after an accepted store");
        in_window("chunk-record", std::chrono::duration_cast<std::chrono::nanoseconds>(rec->expires_at - now).count());
        auto& mc = vnode::Access::manifest_cache(node);
        auto mit = mc.find(chunk_id_to_string(id));
        if (mit == mc.end()) c.fail("C02:store-left-no-manifest", "no cached manifest after an accepted store");
        in_window("manifest", std::chrono::duration_cast<std::chrono::nanoseconds>(mit->second.expires_at - wall).count());
        if (manifest) in_window("returned-manifest", std::chrono::duration_cast<std::chrono::nanoseconds>(manifest->expires_at - wall).count());
        auto shard = vnode::Access::dht(node).shard_record(id);
        if (!shard) c.fail("C02:store-left-no-shard-record", "no shard record after an accepted store");
        in_window("shard-record", std::chrono::duration_cast<std::chrono::nanoseconds>(shard->expires_at - now).count());
        bool self_seen = false;
        for (auto& l : vnode::Access::dht(node).snapshot_locators()) {
            if (l.id != id) continue;
            for (auto& h : l.holders) {
                if (h.id != node.id()) continue;
                self_seen = true;
                in_window("self-announcement", std::chrono::duration_cast<std::chrono::nanoseconds>(h.expires_at - now).count());
            }
        }
        if (!self_seen) c.fail("C02:store-left-no-self-announcement", "no self announcement after an accepted store");
    };

    for (std::size_t i = 0; i < t.nrec(); ++i) {
        Rec r = t.r(i);
        ChunkId id{};
        Prng(r.seed()).fill(id.data(), id.size());
        auto payload = Prng(r.seed() + 1).bytes(1 + r.a(2) % 40);
        if (!use_control) {
            long long ttl = pick(r.a(0));
            c.note("|store(ttl=%lld)", ttl);
            if (ttl < mn.count() || ttl > mx.count()) c.nt("requested_ttl_outside_window");
            auto manifest = node.store_chunk(id, payload, seconds(ttl));
            check_store_effects(id, &manifest);
        } else {
            // control-plane STORE with a TTL header
            std::string ttl_text;
            long long numeric = 0;
            bool is_number = true, absent = false;
            switch (r.a(1) % 6) {
                case 0: numeric = pick(r.a(0)); ttl_text = std::to_string(numeric); break;
                case 1: numeric = static_cast<long long>(mn.count()) + static_cast<long long>(r.a(0) % 3) - 1; ttl_text = std::to_string(numeric); break;
                case 2: numeric = static_cast<long long>(mx.count()) + static_cast<long long>(r.a(0) % 3) - 1; ttl_text = std::to_string(numeric); break;
                case 3: ttl_text = ""; is_number = false; absent = (r.a(0) & 1); break;
                case 4: ttl_text = (r.a(0) & 1) ? "12x" : "abc"; is_number = false; break;
                case 5: ttl_text = "99999999999999999999999"; is_number = false; break;
            }
            c.note("|ctl_store(ttl='%s'%s)", ttl_text.c_str(), absent ? ",absent" : "");
            std::size_t before = node.stored_chunks().size();
            // (the same payload may be stored twice: then the id is already listed and the count does not grow)
            const auto new_id = security::derive_chunk_id(std::span<const std::uint8_t>(payload));
            bool listed_before = false;
            for (auto& e : node.stored_chunks()) if (e.id == new_id) listed_before = true;
            vctl::Request req;
            req.command = "STORE";
            if (!absent) req.headers.push_back({"TTL", ttl_text});
            req.payload = payload;
            auto resp = server->roundtrip(req);
            if (!resp.ok && server->timed_out()) { c.label("control_timeout_inconclusive"); return; }   // a stalled machine is not a verdict
            if (!resp.ok) c.fail("C02:harness-error", "no control response: " + resp.raw.substr(0, 200));
            std::string code = resp.field("CODE");
            bool stored = resp.field("STATUS") == "OK";
            std::size_t after = node.stored_chunks().size();
            if (is_number && !ttl_text.empty() && (numeric < mn.count() || numeric > mx.count())) {
                c.nt("requested_ttl_outside_window");
                if (stored || after != before) c.fail("C02:control-store-accepts-ttl-outside-window", "STORE TTL=" + ttl_text + " accepted (code " + code + ") with window [" + std::to_string(mn.count()) + "," + std::to_string(mx.count()) + "]");
                if (numeric >= 0 && code != "ERR_STORE_TTL_OUT_OF_RANGE") c.fail("C02:control-store-wrong-error", "STORE TTL=" + ttl_text + " refused with " + code + " instead of ERR_STORE_TTL_OUT_OF_RANGE");
            }
            if (stored) {
                if (after != before + (listed_before ? 0 : 1)) c.fail("C02:harness-error", "STORE ok but the chunk count went from " + std::to_string(before) + " to " + std::to_string(after));
                // find the new chunk: the response names it in the manifest; check every stored chunk's window instead
                check_store_effects(security::derive_chunk_id(std::span<const std::uint8_t>(payload)), nullptr);
                c.label("control_store_accepted");
            } else {
                if (after != before) c.fail("C02:refused-store-changed-state", "refused STORE changed the chunk count");
                c.label("control_store_refused");
            }
        }
        if (r.a(3) & 1) {
            auto d = seconds(1 + r.a(4) % 50);
            c.note("|adv(%llds)", (long long)d.count());
            vclock::advance(d);
        }
    }
    if (server) server->stop();
}
}  // namespace verif
