#!/usr/bin/env python3
"""C36 engine: generated daemon workloads under ThreadSanitizer (DESIGN.md 5/C36).

  C36_run.py --workloads N [--jobs J]     script engine for ./check (reads VERIF_* from the environment)
  C36_run.py --replay FILE [--faildir D]  run one saved workload tape (up to 3 attempts); prints
                                          "RESULT fail signature=..." (exit 2) or "RESULT pass|excluded" (exit 0)
  C36_run.py --sensitivity [NAME]         apply tools/mutations/C36.json to a scratch copy of /repo, rebuild the
                                          TSan binary and confirm that a *new* signature is reported

Workload tapes are a pure function of (VERIF_SEED, index): 16 header bytes + 8-byte action records, decoded by
build/bin/C36_tsan (every byte string is a valid workload).  The oracle is ThreadSanitizer's happens-before
detector; this script only parses its reports and reduces each data-race report to a signature

    C36:race:<A><-><B>     A, B = owner of the innermost repository frame of each of the two access stacks that is
                           not in a module of pure functions (crypto, codecs, Types: they only touch memory handed
                           to them), written <Class>::* (Class = the repository source file the frame is in); for
                           the aggregate class Node the member function is kept (Node::perform_handshake), because
                           Node owns many unrelated structures and a class-wide wildcard would hide regressions.
                           A stack ThreadSanitizer could not restore gives "?" and is matched to a known signature
                           naming the visible side.  Reports whose stack is in the harness's exit-time destruction
                           of the daemons, and report types other than "data race", are counted but not judged.

Signatures listed in VERIF_KNOWN are counted in excluded{} and never reported; any other signature is a failure
whose replay file is the (reduced) workload tape.  The script prints nothing on its own.
"""
import concurrent.futures, hashlib, json, os, random, re, shutil, struct, subprocess, sys, time

ROOT = os.environ.get('VERIF_ROOT') or os.path.dirname(os.path.dirname(os.path.abspath(__file__)))
BUILD = os.environ.get('VERIF_BUILD') or os.path.join(ROOT, 'build')
PID = 'C36'
HEADER, REC, MAX_RECS = 16, 8, 64
RULE = ('workload tape (16 header bytes + <=64 8-byte actions) -> 2-4 in-process daemons (Node + ControlServer + main thread ticking under the node '
        'mutex + transport accept/reader threads) with generated bootstrap topology, key-rotation interval, handshake cooldown, PoW difficulties, '
        'TTLs, clock speed (1x/8x/32x scaled clock) and tick cadence; 1-3 control-client threads (STORE/FETCH/LIST/STATUS/DEFAULTS/METRICS/'
        'DIAGNOSTICS/PING/STOP) and 0-3 ghost threads with 1-4 peer identities each over TCP (handshake, re-handshake, announce, announce+shards, request, chunk, ack, garbage, '
        'close) with generated delays; shutdown by signal path or STOP command.  Non-trivial: at least two of {control request, tick, inbound '
        'handshake, session message} were in progress at the same time on one node (relaxed per-node activity counters).')

# ------------------------------------------------------------------------------------------------ generation


def gen_tape(seed, index):
    """by construction: every choice is drawn with weights that keep the interesting classes frequent"""
    r = random.Random('C36/%d/%d' % (seed, index))

    def pick(weights):  # weights: list of (value, weight)
        tot = sum(w for _, w in weights)
        x = r.random() * tot
        for v, w in weights:
            x -= w
            if x < 0:
                return v
        return weights[-1][0]

    h = [0] * HEADER
    h[0] = pick([(0, 3), (1, 4), (2, 2), (3, 1)])           # nodes 2,3,3,4
    h[1] = pick([(0, 2), (1, 3), (2, 3), (3, 2)])           # ghosts 0..3
    h[2] = pick([(0, 3), (1, 4), (2, 3)])                   # clients 1..3
    h[3] = pick([(0, 2), (1, 2), (2, 6)])                   # speed 1/8/32
    h[4] = r.randrange(4)                                   # tick period
    h[5] = pick([(0, 2), (1, 4), (2, 2), (3, 2)])           # rotation 3600/5/5/7
    h[6] = r.randrange(4)                                   # cooldown
    h[7] = r.randrange(9)                                   # pow difficulties
    h[8] = pick([(0, 2), (1, 4), (2, 2), (3, 2)])           # cleanup interval
    h[9] = pick([(0, 3), (1, 3), (2, 2), (3, 2)])           # min ttl
    h[10] = pick([(0, 6), (1, 2), (2, 2)]) + 3 * pick([(0, 1), (1, 1)])   # topology, ghosts listed as bootstrap peers
    h[11] = r.randrange(18)
    h[12] = pick([(0, 3), (1, 4), (2, 2), (3, 1)])          # linger
    h[13] = (r.randrange(2)) | (2 if r.random() < 0.3 else 0) | (r.randrange(4) << 2)
    h[14] = r.randrange(256)
    h[15] = pick([(0, 2), (1, 2), (2, 2), (3, 4)])          # identities per ghost thread 1..4
    nodes = [2, 3, 3, 4][h[0] % 4]
    ghosts, clients = h[1] % 4, 1 + h[2] % 3
    actors = clients + ghosts
    nrec = r.randrange(14, MAX_RECS + 1) if r.random() < 0.8 else r.randrange(1, 14)
    recs = []
    delays = [0, 0, 0, 1, 2, 3, 5, 12, 25, 50, 75, 127]     # x 400 us; the low bit of the byte asks for an aligned start
    def rec(actor, op, target, a, b, delay, align):
        return bytes([actor + actors * r.randrange(0, 256 // actors), op + (12 if actor < clients else 8) * r.randrange(0, 8), target, a, b, delay * 2 + align, r.randrange(256), r.randrange(256)])

    focus = (h[14] % 4) >= 2

    def target_byte(node):  # a byte the decoder maps to this node (also in focus mode)
        if not focus:
            return node + nodes * r.randrange(0, 256 // nodes)
        return r.choice([0, 1, 2]) + 4 * r.randrange(64) if node == 0 else 3 + 4 * (node + nodes * r.randrange(0, 64 // nodes))

    # first-contact storm (most workloads with >= 2 ghosts): every ghost connects to node k and then, at the same aligned
    # instant, sends its first announce there - concurrent first handshakes and first messages from distinct peers
    if ghosts >= 2 and r.random() < 0.75:
        personas = 1 + h[15] % 4
        for node in r.sample(range(nodes), r.randrange(1, nodes + 1)):
            for persona in range(personas):
                if len(recs) + 2 * ghosts > MAX_RECS - 6:
                    break
                with_shards = r.random() < 0.5
                for g in range(ghosts):
                    recs.append(rec(clients + g, 0, target_byte(node), 0, persona * 16, 0, 1))                                   # CONNECT, aligned
                    recs.append(rec(clients + g, 5 if with_shards else 1, target_byte(node), r.randrange(256), persona * 16 + r.randrange(16), 0, 1))   # ANNOUNCE, aligned
        nrec = max(0, min(nrec, MAX_RECS - len(recs)))
    for i in range(nrec):
        actor = r.randrange(actors)
        if actor < clients:
            # index into the decoder's 12-entry control map: STORE x3, FETCH x2, STOP, the read-only commands
            early = i < nrec // 3
            op = pick([(1, 6 if early else 3), (4, 2), (8, 2), (3, 1 if early else 3), (11, 1 if early else 2), (0, 1), (2, 1), (5, 1), (6, 1), (7, 1), (9, 1), (10, 1)])
        else:
            early = i < nrec // 4
            op = pick([(0, 4 if early else 2), (1, 3), (5, 3), (2, 3), (3, 2), (4, 2), (6, 1), (7, 1)])
        recs.append(rec(actor, op, r.randrange(256), r.randrange(256), r.randrange(256), r.choice(delays), 1 if r.random() < 0.5 else 0))
    return bytes(h) + b''.join(recs)


# ------------------------------------------------------------------------------------------------ TSan report parsing

FRAME_RE = re.compile(r'^\s+#(\d+) (.*) (\S+?)(?::(\d+))?(?::\d+)? \((\S+)\)\s*$')
STACK_HEAD_RE = re.compile(r'^\s+(Previous )?(atomic )?(read|write) of size \d+ at \S+ by (main thread|thread T\d+)', re.I)
REPO_FILE_RE = re.compile(r'(^|/)(src/(bootstrap|core|crypto|daemon|dht|network|protocol|relay|security)/[^/]+\.(cpp|hpp)|src/(main|libephemeralnet)\.cpp|include/ephemeralnet/.+\.hpp)$')


def is_repo_file(path):
    return bool(path) and 'libsanitizer' not in path and not path.startswith('/usr/') and REPO_FILE_RE.search(path) is not None


def strip_templates(s):
    out, depth = [], 0
    for ch in s:
        if ch == '<':
            depth += 1
        elif ch == '>':
            depth = max(0, depth - 1)
        elif depth == 0:
            out.append(ch)
    return ''.join(out)


def func_base(func):
    m = re.search(r'([A-Za-z_~]\w*)\s*\(', strip_templates(func))
    if not m:
        return '*'
    name = m.group(1)
    if name == 'operator':
        m2 = re.search(r'ephemeralnet::(?:\w+::)*(\w+)\(\)::', func)   # lambda inside a member function
        return (m2.group(1) + '.lambda') if m2 else 'lambda'
    return name


def owner_of(frame):
    stem = os.path.splitext(os.path.basename(frame['file']))[0]
    if stem == 'Node':
        return 'Node::' + func_base(frame['func'])
    return stem + '::*'


def thread_role(stack_frames, creation_frames):
    """which daemon thread an access was made on: read off the access stack (outermost frames), else off the creation stack"""
    text = ' '.join(f['func'] for f in stack_frames)
    if 'daemon_main' in text:
        return 'daemon-main(tick/shutdown)'
    if 'ControlServer::Impl::accept_loop' in text or 'ControlServer::Impl::handle_' in text:
        return 'control-accept'
    if 'SessionManager::receive_loop' in text:
        return 'session-reader'
    if 'SessionManager::accept_loop' in text:
        return 'transport-accept'
    if 'client_thread' in text or 'ghost_thread' in text:
        return 'harness-actor'
    ctext = ' '.join(f['func'] for f in creation_frames)
    if 'ControlServer::' in ctext:
        return 'control-accept'
    if re.search(r'accept_loop|handle_pending_handshake|SessionManager::connect|adopt_|connect_peer', ctext):
        return 'session-reader'
    if 'start_transport' in ctext or 'SessionManager::start' in ctext:
        return 'transport-accept'
    return 'process-main' if not creation_frames else 'other'


def parse_reports(text):
    reports = []
    for block in text.split('=================='):
        m = re.search(r'WARNING: ThreadSanitizer: ([^\n(]+?)\s*\(pid=\d+\)', block)
        if not m:
            continue
        rep = {'type': m.group(1).strip(), 'stacks': [], 'threads': {}, 'raw': block.strip()}
        cur, mode, cur_thread = None, None, None
        for line in block.splitlines():
            hm = STACK_HEAD_RE.match(line)
            if hm:
                cur = {'head': line.strip(), 'thread': hm.group(4).replace('thread ', ''), 'frames': []}
                rep['stacks'].append(cur)
                mode = 'stack'
                continue
            tm = re.match(r'^\s+Thread (T\d+) .*created by (main thread|thread T\d+) at:', line)
            if tm:
                cur_thread = tm.group(1)
                rep['threads'][cur_thread] = []
                mode = 'thread'
                continue
            if re.match(r'^\s+(Location is|Mutex M\d+|As if synchronized)', line) or line.startswith('SUMMARY'):
                mode = None
                continue
            fm = FRAME_RE.match(line)
            if fm and mode:
                fr = {'n': int(fm.group(1)), 'func': fm.group(2), 'file': fm.group(3), 'line': fm.group(4) or ''}
                if mode == 'stack':
                    cur['frames'].append(fr)
                else:
                    rep['threads'][cur_thread].append(fr)
            elif not line.strip():
                if mode == 'stack':
                    mode = None
        reports.append(rep)
    return reports


# modules of pure functions: they only touch memory handed to them by reference, so the shared structure belongs to the
# nearest caller that is a stateful class
STATELESS = {'Types', 'HmacSha256', 'Sha256', 'ChaCha20', 'Shamir', 'CryptoManager', 'Message', 'Manifest', 'StoreProof', 'TokenChallenge',
             'KeyExchange', 'AdvertiseDiscovery', 'libephemeralnet'}


def innermost_repo_frame(stack):
    first = None
    for fr in stack['frames']:
        if is_repo_file(fr['file']):
            first = first or fr
            if os.path.splitext(os.path.basename(fr['file']))[0] not in STATELESS:
                return fr
    return first


def signature_of(rep):
    """(signature, sides, summary) for a data-race report; None for other report types"""
    if not rep['type'].startswith('data race'):
        return None
    sides, lines = [], []
    for st in rep['stacks'][:2]:
        fr = innermost_repo_frame(st)
        role = 'process-main' if st['thread'] == 'main thread' else thread_role(st['frames'], rep['threads'].get(st['thread'], []))
        if fr is None:
            sides.append('?')
            lines.append('%s [%s]: no repository frame (%s)' % (st['head'], role, st['frames'][0]['func'][:80] if st['frames'] else 'stack not restored'))
        else:
            sides.append(owner_of(fr))
            chain = [f for f in st['frames'] if is_repo_file(f['file'])][:4]
            lines.append('%s [%s]: %s' % (st['head'], role, ' <- '.join('%s (%s:%s)' % (strip_templates(f['func']).split('(')[0].replace('ephemeralnet::', ''), os.path.basename(f['file']), f['line']) for f in chain)))
    while len(sides) < 2:
        sides.append('?')
        lines.append('second stack missing (history overflow)')
    sides = sorted(sides, key=lambda s: (s == '?', s))
    return '%s:race:%s<->%s' % (PID, sides[0], sides[1]), sides, ' || '.join(lines)


def is_known(sig, sides, known):
    if sig in known:
        return sig
    if '?' in sides:  # a stack TSan could not restore: attribute to a known signature that names the visible side
        vis = [s for s in sides if s != '?']
        for k in sorted(known):
            if vis and (':race:%s<->' % vis[0] in k or k.endswith('<->' + vis[0])):
                return k
    return None


# ------------------------------------------------------------------------------------------------ running one workload

def tsan_bin():
    return os.environ.get('C36_BIN') or os.path.join(BUILD, 'bin', 'C36_tsan')


def run_workload(tape, workdir, tag, timeout=200):
    for _ in range(3):  # a listening port taken by another process between probing and binding: same tape again
        res, reps = run_workload_once(tape, workdir, tag, timeout)
        if res.get('status') != 'setup_failed':
            break
    return res, reps


def run_workload_once(tape, workdir, tag, timeout):
    os.makedirs(workdir, exist_ok=True)
    tp = os.path.join(workdir, tag + '.wl')
    with open(tp, 'wb') as f:
        f.write(tape)
    out = os.path.join(workdir, tag + '.json')
    logp = os.path.join(workdir, tag + '.tsan')
    for fn in os.listdir(workdir):
        if fn.startswith(tag + '.tsan') or fn == tag + '.json':
            os.remove(os.path.join(workdir, fn))
    env = dict(os.environ)
    env['TSAN_OPTIONS'] = ('log_path=%s halt_on_error=0 exitcode=0 report_thread_leaks=0 report_signal_unsafe=0 history_size=7 '
                           'second_deadlock_stack=1 external_symbolizer_path= ') % logp
    t0 = time.time()
    status = 'ok'
    try:
        p = subprocess.run([tsan_bin(), '--tape', tp, '--out', out], env=env, stdout=subprocess.DEVNULL, stderr=subprocess.DEVNULL, timeout=timeout)
        rc = p.returncode
    except subprocess.TimeoutExpired:
        rc, status = -1, 'timeout'
    res = None
    if os.path.exists(out):
        try:
            with open(out) as f:
                res = json.load(f)
        except Exception:
            res = None
    if res is None:
        status = status if status != 'ok' else 'crashed(rc=%d)' % rc
        res = {'status': status, 'desc': describe(tp), 'nontrivial': False, 'labels': [], 'counters': {}}
    text = ''
    for fn in sorted(os.listdir(workdir)):
        if fn.startswith(tag + '.tsan'):
            with open(os.path.join(workdir, fn), errors='replace') as f:
                text += f.read()
    res['wall_s'] = round(time.time() - t0, 2)
    res['tape_path'] = tp
    return res, parse_reports(text)


def describe(tape_path):
    try:
        return subprocess.run([tsan_bin(), '--describe', '--tape', tape_path], stdout=subprocess.PIPE, stderr=subprocess.DEVNULL, text=True, timeout=60).stdout.strip()
    except Exception:
        return ''


def classify(reports, known):
    """-> (new {sig: summary}, known_hits {sig: n}, other {type: n})"""
    new, hits, other = {}, {}, {}
    for rep in reports:
        s = signature_of(rep)
        if s is None:
            other[rep['type']] = other.get(rep['type'], 0) + 1
            continue
        sig, sides, summary = s
        if any('destroy_daemons' in fr['func'] for st in rep['stacks'][:2] for fr in st['frames']):
            other['exit-time destruction vs detached reader thread (not judged)'] = other.get('exit-time destruction vs detached reader thread (not judged)', 0) + 1
            continue
        if sides == ['?', '?']:
            other['data race without repository frames'] = other.get('data race without repository frames', 0) + 1
            continue
        k = is_known(sig, sides, known)
        if k:
            hits[k] = hits.get(k, 0) + 1
        else:
            new.setdefault(sig, summary)
    return new, hits, other


def fnv(s):
    h = 1469598103934665603
    for c in s.encode('utf-8', 'replace'):
        h = ((h ^ c) * 1099511628211) & 0xFFFFFFFFFFFFFFFF
    return h


# ------------------------------------------------------------------------------------------------ reduction

def reduce_tape(tape, sig, known, workdir, max_trials):
    """bounded delta debugging over the action records (and a few header simplifications); keeps candidates on
    which the same signature is reported again"""
    hdr, body = tape[:HEADER], tape[HEADER:]
    recs = [body[i:i + REC] for i in range(0, len(body), REC)]
    trials = [0]

    def fails(h, rs):
        if trials[0] >= max_trials:
            return False
        trials[0] += 1
        _, reps = run_workload(bytes(h) + b''.join(rs), workdir, 'reduce%02d' % trials[0])
        new, _, _ = classify(reps, known)
        return sig in new

    n = 2
    while len(recs) >= 2 and trials[0] < max_trials:
        chunk = max(1, len(recs) // n)
        removed = False
        for start in range(0, len(recs), chunk):
            cand = recs[:start] + recs[start + chunk:]
            if cand and fails(hdr, cand):
                recs, removed = cand, True
                n = max(2, n - 1)
                break
        if not removed:
            if chunk == 1:
                break
            n = min(len(recs), n * 2)
    h = bytearray(hdr)
    for pos, val in ((1, 0), (2, 0), (0, 0), (12, 0)):  # no ghosts, one client, two nodes, short linger
        if trials[0] >= max_trials:
            break
        if h[pos] != val:
            h2 = bytearray(h)
            h2[pos] = val
            if fails(h2, recs):
                h = h2
    return bytes(h) + b''.join(recs), trials[0]


# ------------------------------------------------------------------------------------------------ modes

def known_from_env():
    return set(x for x in os.environ.get('VERIF_KNOWN', '').split(',') if x)


def engine(n_workloads, jobs, reduce_trials):
    seed = int(os.environ.get('VERIF_SEED', '1') or 1)
    tier = os.environ.get('VERIF_TIER', 'quick')
    out_path = os.environ.get('VERIF_OUT') or '/tmp/C36_out.json'
    faildir = os.environ.get('VERIF_FAILDIR') or '/tmp/C36_fail'
    hashes_path = os.environ.get('VERIF_HASHES')
    known = known_from_env()
    os.makedirs(faildir, exist_ok=True)
    t0 = time.time()
    labels, excluded, samples, hashes = {}, {}, [], set()
    evaluations = nontrivial = 0
    inconclusive = {}
    other_total = {}
    walls = []
    failure = None

    def one(i):
        return i, run_workload(gen_tape(seed, i), os.path.join(faildir, 'w'), 'w%04d' % i)

    with concurrent.futures.ThreadPoolExecutor(max_workers=max(1, jobs)) as ex:
        futs = [ex.submit(one, i) for i in range(n_workloads)]
        for fut in futs:
            if failure is not None:
                fut.cancel()
                continue
            try:
                i, (res, reps) = fut.result()
            except concurrent.futures.CancelledError:
                continue
            if res.get('status') != 'ok':
                inconclusive[res.get('status', '?')] = inconclusive.get(res.get('status', '?'), 0) + 1
                labels['inconclusive:' + res.get('status', '?').split('(')[0]] = labels.get('inconclusive:' + res.get('status', '?').split('(')[0], 0) + 1
                if not reps:
                    continue
            evaluations += 1
            walls.append(res.get('wall_s', 0))
            new, hits, other = classify(reps, known)
            for k, v in hits.items():
                excluded[k] = excluded.get(k, 0) + v
            for k, v in other.items():
                other_total[k] = other_total.get(k, 0) + v
            for lb in res.get('labels', []):
                labels[lb] = labels.get(lb, 0) + 1
            labels['tsan_reports:%s' % ('0' if not reps else ('1-9' if len(reps) < 10 else '10+'))] = labels.get('tsan_reports:%s' % ('0' if not reps else ('1-9' if len(reps) < 10 else '10+')), 0) + 1
            if res.get('nontrivial'):
                nontrivial += 1
                labels['nontrivial'] = labels.get('nontrivial', 0) + 1
                hashes.add(fnv(res.get('desc', '')))
                if len(samples) < 4:
                    samples.append(res.get('desc', '')[:1400])
            if new:
                sig = sorted(new)[0]
                failure = {'index': i, 'sig': sig, 'summary': new[sig], 'others': sorted(new)[1:], 'tape': gen_tape(seed, i), 'desc': res.get('desc', '')}
    rep = {
        'id': PID, 'evaluations': evaluations, 'nontrivial': nontrivial, 'distinct_nontrivial': len(hashes), 'labels': labels, 'excluded': excluded,
        'samples': samples, 'rule': RULE, 'failed': False,
        'once': ('ThreadSanitizer (g++ -fsanitize=thread, history_size=7) over %d generated workload(s), %d job(s), tier %s; median workload wall %.1f s; '
                 'other TSan report types seen (not judged): %s; inconclusive runs: %s'
                 % (n_workloads, jobs, tier, sorted(walls)[len(walls) // 2] if walls else 0.0, json.dumps(other_total, sort_keys=True), json.dumps(inconclusive, sort_keys=True))),
    }
    if failure is not None:
        tape, used = failure['tape'], 0
        if reduce_trials > 0:
            tape, used = reduce_tape(tape, failure['sig'], known, os.path.join(faildir, 'reduce'), reduce_trials)
        name = 'C36-%s.wl' % hashlib.sha1(tape).hexdigest()[:12]
        fp = os.path.join(faildir, name)
        with open(fp, 'wb') as f:
            f.write(tape)
        desc = describe(fp) or failure['desc']
        rep.update({'failed': True, 'signature': failure['sig'],
                    'message': ('ThreadSanitizer data race not on the known list: %s%s (workload #%d of seed %d; reduced with %d trial run(s) from %d to %d actions)'
                                % (failure['summary'], (' ; also new in the same workload: ' + ', '.join(failure['others'])) if failure['others'] else '', failure['index'], seed,
                                   used, (len(failure['tape']) - HEADER) // REC, (len(tape) - HEADER) // REC)),
                    'fail_desc': desc, 'fail_tape': fp})
    rep['wall_s'] = round(time.time() - t0, 2)
    with open(out_path, 'w') as f:
        json.dump(rep, f, indent=1)
    if hashes_path:
        with open(hashes_path, 'wb') as f:
            for hv in sorted(hashes):
                f.write(struct.pack('<Q', hv))
    shutil.rmtree(os.path.join(faildir, 'w'), ignore_errors=True)
    shutil.rmtree(os.path.join(faildir, 'reduce'), ignore_errors=True)
    return 0


def replay(path, faildir, attempts=3, verbose=False):
    known = known_from_env()
    with open(path, 'rb') as f:
        tape = f.read()
    work = os.path.join(faildir or '/tmp', 'C36_replay_%d' % os.getpid())
    seen_known = False
    try:
        for a in range(attempts):
            res, reps = run_workload(tape, work, 'r%d' % a)
            new, hits, other = classify(reps, known)
            seen_known = seen_known or bool(hits)
            if verbose:
                print('attempt %d: status=%s reports=%d new=%s known=%s other=%s' % (a, res.get('status'), len(reps), sorted(new), hits, other))
                for s in sorted(new):
                    print('  ' + s + '\n    ' + new[s])
            if new:
                sig = sorted(new)[0]
                print('RESULT fail signature=%s' % sig)
                print(new[sig])
                print('workload: ' + res.get('desc', ''))
                return 2
        print('RESULT %s' % ('excluded' if seen_known else 'pass'))
        return 0
    finally:
        shutil.rmtree(work, ignore_errors=True)


def sensitivity(only):
    muts = json.load(open(os.path.join(ROOT, 'tools', 'mutations', PID + '.json')))
    scratch = '/tmp/sens_' + PID
    shutil.rmtree(scratch, ignore_errors=True)
    os.makedirs(scratch)
    for d in ('src', 'include'):
        shutil.copytree('/repo/' + d, os.path.join(scratch, d))
    binary = os.path.join(scratch, 'vb', 'bin', 'C36_tsan')
    results = []
    try:
        # baseline signatures of the unchanged tree with the same budget: a mutation counts as detected when it adds a signature
        for m in muts:
            if only and m['name'] != only:
                continue
            path = os.path.join(scratch, m['file'])
            orig = open(path).read()
            if m['old'] not in orig:
                results.append((m['name'], 'MUTATION DID NOT APPLY', ''))
                continue
            open(path, 'w').write(orig.replace(m['old'], m['new'], 1))
            p = subprocess.run(['make', '-C', ROOT, '-j16', 'REPO=' + scratch, 'B=' + scratch + '/vb', binary], stdout=subprocess.PIPE, stderr=subprocess.STDOUT, text=True)
            res, shrunk = 'BUILD FAILED', p.stdout[-400:] if p.returncode else ''
            if p.returncode == 0:
                env = dict(os.environ, C36_BIN=binary, VERIF_OUT=os.path.join(scratch, 'out.json'), VERIF_FAILDIR=os.path.join(scratch, 'fail'),
                           VERIF_KNOWN=','.join(m.get('known', [])), VERIF_SEED=str(m.get('seed', 1)), VERIF_TIER='quick')
                env.pop('VERIF_HASHES', None)
                subprocess.run([sys.executable, os.path.abspath(__file__), '--workloads', str(m.get('workloads', 6)), '--reduce-trials', str(m.get('reduce_trials', 8))], env=env)
                d = json.load(open(os.path.join(scratch, 'out.json')))
                expect = m.get('expect')
                if d.get('failed') and (not expect or expect in d['signature']):
                    res = 'DETECTED after %d workload(s): %s' % (d['evaluations'], d['signature'])
                    shrunk = (d.get('message', '')[:500] + ' | ' + d.get('fail_desc', '')[:400])
                elif d.get('failed'):
                    res = 'OTHER SIGNATURE: %s' % d['signature']
                    shrunk = d.get('message', '')[:500]
                else:
                    res = 'MISSED (%d workloads)' % d['evaluations']
            open(path, 'w').write(orig)
            results.append((m['name'], res, shrunk))
            print('%-50s %s\n    %s' % (m['name'], res, shrunk), flush=True)
    finally:
        shutil.rmtree(scratch, ignore_errors=True)
    print(json.dumps([{'mutation': a, 'result': b, 'shrunk': c} for a, b, c in results], indent=1))
    return 0


def main():
    a = sys.argv[1:]

    def opt(name, default=None):
        return a[a.index(name) + 1] if name in a and a.index(name) + 1 < len(a) else default

    if '--replay' in a:
        return replay(opt('--replay'), opt('--faildir'), verbose='--verbose' in a)
    if '--sensitivity' in a:
        nxt = opt('--sensitivity')
        return sensitivity(nxt if nxt and not nxt.startswith('--') else None)
    if '--survey' in a:  # debugging aid: run N workloads, never stop, list every signature with one example
        seed = int(os.environ.get('VERIF_SEED', '1') or 1)
        n, jobs = int(opt('--workloads', '6')), int(opt('--jobs', '1'))
        work = opt('--survey')
        known = known_from_env()
        allsig, stats = {}, []
        with concurrent.futures.ThreadPoolExecutor(max_workers=jobs) as ex:
            for i, (res, reps) in ex.map(lambda i: (i, run_workload(gen_tape(seed, i), work, 'w%04d' % i)), range(n)):
                new, hits, other = classify(reps, known)
                for k, v in new.items():
                    allsig.setdefault(k, {'first_workload': i, 'count': 0, 'example': v})['count'] += 1
                stats.append({'i': i, 'status': res.get('status'), 'wall': res.get('wall_s'), 'nt': res.get('nontrivial'), 'reports': len(reps), 'new': sorted(new), 'known': hits,
                              'other': other, 'phase': res.get('phase_ms'), 'counters': res.get('counters')})
        print(json.dumps({'signatures': allsig, 'workloads': stats}, indent=1))
        return 0
    if '--dump' in a:  # write the generated tapes of a seed (debugging aid)
        d = opt('--dump')
        os.makedirs(d, exist_ok=True)
        for i in range(int(opt('--workloads', '6'))):
            with open(os.path.join(d, 'w%04d.wl' % i), 'wb') as f:
                f.write(gen_tape(int(os.environ.get('VERIF_SEED', '1') or 1), i))
        return 0
    return engine(int(opt('--workloads', '6')), int(opt('--jobs', '1')), int(opt('--reduce-trials', '10')))


if __name__ == '__main__':
    sys.exit(main())
