// C20 — inbound handshakes are accepted only with a valid key and valid PoW (Node, virtual time)
#define VERIF_FUZZ_TARGET 1
#include "verif.hpp"
#include "vclock.hpp"
#include "node_access.hpp"

#include <map>
#include <sys/socket.h>

namespace verif {
const PropertyInfo kInfo = {
    "C20", 8, 8, 30,
    "tape -> one Node (handshake cooldown from {1,5,30}s, PoW difficulty from {0,4,8}) receives a history of transport handshakes from 3 claimed peer ids through its "
    "handshake handler: valid (one of 3 identities per claimed id, so a different identity may reuse a claimed id), invalid key {0,1,p,p+1,p+2,p+3,3*10^9,2^32-3,2^32-2,2^32-1, uniform in [p+2,2^32-2]} with a nonce solved for it, "
    "valid key + wrong nonce, nonce solved for another responder, exact replay of the previous handshake, random key/nonce; spacing before each from {0, 1ms, cooldown-1ns, "
    "cooldown, cooldown+1ns, 3*cooldown}. Oracle: accepted <=> 1 < key < p and the reference PoW (OpenSSL SHA-256 over be64-length-prefixed claimed id, node id, be64 key, "
    "be64 nonce) has >= difficulty leading zero bits; on acceptance the returned and registered session key equals the reference derivation for (node scalar, offered key) and "
    "the ACK carries the OpenSSL HMAC under that key (one case in four travels over a real inbound connection and the ACK frame is decrypted from the wire); on rejection the claimed peer's key, every other peer's key and the session table are unchanged and the claimed "
    "peer's reputation is strictly lower (or already at the floor -100). Non-trivial: a rejected handshake after an accepted one for the same claimed peer inside the cooldown."};

namespace {
using namespace ephemeralnet;
using std::chrono::seconds;
using std::chrono::nanoseconds;
constexpr std::uint64_t kP = 2147483647ull;

std::array<std::uint8_t, 32> ref_pow_digest(const PeerId& initiator, const PeerId& responder, std::uint32_t pub, std::uint64_t nonce) {
    refs::Bytes b;
    refs::put_be64(b, initiator.size());
    b.insert(b.end(), initiator.begin(), initiator.end());
    refs::put_be64(b, responder.size());
    b.insert(b.end(), responder.begin(), responder.end());
    refs::put_be64(b, pub);
    refs::put_be64(b, nonce);
    return refs::sha256(b);
}
bool ref_pow_valid(const PeerId& i, const PeerId& r, std::uint32_t pub, std::uint64_t nonce, unsigned difficulty) {
    if (difficulty == 0) return true;
    auto d = ref_pow_digest(i, r, pub, nonce);
    return refs::leading_zero_bits(d.data(), d.size()) >= difficulty;
}
std::uint64_t solve(const PeerId& i, const PeerId& r, std::uint32_t pub, unsigned difficulty, std::uint64_t start) {
    for (std::uint64_t n = start;; ++n) if (ref_pow_valid(i, r, pub, n, difficulty)) return n;
}
std::array<std::uint8_t, 32> ref_session_key(std::uint32_t node_scalar, std::uint32_t node_public, std::uint32_t offered) {
    std::uint32_t shared = static_cast<std::uint32_t>(refs::modexp(offered % kP, node_scalar, kP));
    refs::Bytes m;
    refs::put_be32(m, shared);
    auto secret = refs::sha256(m);
    refs::Bytes mat;
    refs::put_be32(mat, std::min(node_public, offered));
    refs::put_be32(mat, std::max(node_public, offered));
    return refs::hmac_sha256(secret.data(), secret.size(), mat.data(), mat.size());
}
}  // namespace

void run_case(Ctx& c) {
    vclock::Frozen frozen(c.tape.header_seed());
    vnode::silence_streams();
    const Tape& t = c.tape;
    static const int kCool[] = {1, 5, 30, 5};
    static const unsigned kDiff[] = {0, 4, 8, 4};
    Config cfg;
    cfg.handshake_cooldown = seconds(kCool[t.h(0) % 4]);
    cfg.handshake_pow_difficulty = static_cast<std::uint8_t>(kDiff[t.h(1) % 4]);
    cfg.key_rotation_interval = seconds(3600);
    cfg.nat_stun_enabled = false;
    cfg.relay_enabled = false;
    cfg.identity_seed = 1000 + t.h(2);
    Node node(vnode::make_id(41, 0xA2), cfg);
    const unsigned difficulty = node.config().handshake_pow_difficulty;
    const auto cooldown = node.config().handshake_cooldown;
    const std::uint32_t node_scalar = vnode::Access::identity_scalar(node);
    const std::uint32_t node_public = node.public_identity();
    if (node_public != refs::modexp(5, node_scalar, kP)) c.fail("C20:harness-error", "node public identity is not g^scalar");
    c.note("cooldown=%llds difficulty=%u", (long long)cooldown.count(), difficulty);

    PeerId claimed[3] = {vnode::make_id(51, 1), vnode::make_id(52, 2), vnode::make_id(53, 3)};
    PeerId other_responder = vnode::make_id(60, 9);
    struct Last { bool any = false; std::uint32_t pub = 0; std::uint64_t nonce = 0; bool accepted = false; std::chrono::steady_clock::time_point at{}; };
    Last last[3];
    std::map<int, std::optional<std::array<std::uint8_t, 32>>> keys;
    std::vector<int> open_fds;
    struct CloseAll { std::vector<int>& fds; Node& n; ~CloseAll() { for (int fd : fds) ::close(fd); for (int i = 0; i < 5000 && n.connected_peer_count() > 0; ++i) std::this_thread::sleep_for(std::chrono::microseconds(200)); } } close_all{open_fds, node};

    for (std::size_t i = 0; i < t.nrec(); ++i) {
        Rec r = t.r(i);
        int p = r.a(0) % 3;
        // spacing
        nanoseconds d{0};
        switch (r.a(3) % 6) {
            case 0: d = nanoseconds(0); break;
            case 1: d = std::chrono::milliseconds(1); break;
            case 2: d = cooldown - nanoseconds(1); break;
            case 3: d = cooldown; break;
            case 4: d = cooldown + nanoseconds(1); break;
            case 5: d = cooldown * 3; break;
        }
        vclock::advance(d);
        // identities per claimed id: scalars derived from (p, j)
        auto identity_scalar = [&](int peer, int j) { return static_cast<std::uint32_t>(2 + Prng(7000 + peer * 10 + j).below(kP - 4)); };
        std::uint32_t pub = 0;
        std::uint64_t nonce = 0;
        const char* kind = "";
        switch (r.op() % 8) {
            case 0: case 1: case 4: {
                int j = r.a(1) % 3;
                pub = static_cast<std::uint32_t>(refs::modexp(5, identity_scalar(p, j), kP));
                nonce = solve(claimed[p], node.id(), pub, difficulty, r.a16(4));
                kind = j == 0 ? "valid" : "valid-other-identity";
                break;
            }
            case 2: {
                static const std::uint32_t kBad[] = {0u, 1u, 2147483647u, 2147483648u, 4294967295u, 2147483649u, 2147483650u, 3000000000u, 4294967293u, 4294967294u};
                pub = kBad[r.a(1) % 10];
                if ((r.a(2) & 7) == 7) pub = 2147483647u + 2u + static_cast<std::uint32_t>(Prng(r.seed()).below(2147483645ull));  // anywhere in [p+2, 2^32-2]
                nonce = solve(claimed[p], node.id(), pub, difficulty, r.a16(4));
                kind = "invalid-key";
                break;
            }
            case 3: {
                pub = static_cast<std::uint32_t>(refs::modexp(5, identity_scalar(p, r.a(1) % 3), kP));
                nonce = solve(claimed[p], node.id(), pub, difficulty, r.a16(4)) + 1 + r.a(2) % 3;
                kind = "wrong-nonce";
                break;
            }
            case 5: {
                pub = static_cast<std::uint32_t>(refs::modexp(5, identity_scalar(p, r.a(1) % 3), kP));
                nonce = solve(claimed[p], other_responder, pub, difficulty, r.a16(4));
                kind = "nonce-for-other-responder";
                break;
            }
            case 6: {
                if (last[p].any) { pub = last[p].pub; nonce = last[p].nonce; kind = "replay"; }
                else { pub = static_cast<std::uint32_t>(refs::modexp(5, identity_scalar(p, 0), kP)); nonce = solve(claimed[p], node.id(), pub, difficulty, 0); kind = "valid"; }
                break;
            }
            case 7: {
                Prng g(r.seed());
                pub = static_cast<std::uint32_t>(g.next());
                nonce = g.next();
                kind = "random";
                break;
            }
        }
        const bool key_ok = pub > 1 && pub < kP;
        const bool pow_ok = ref_pow_valid(claimed[p], node.id(), pub, nonce, difficulty);
        const bool expect = key_ok && pow_ok;
        c.note("|adv(%lld) hs(p%d,%s,pub=%u,%s)", static_cast<long long>(d.count()), p, kind, pub, expect ? "admissible" : "inadmissible");

        std::optional<std::array<std::uint8_t, 32>> before[3];
        for (int q = 0; q < 3; ++q) before[q] = node.session_key(claimed[q]);
        const int rep_before = node.reputation_score(claimed[p]);
        const std::size_t sessions_before = node.connected_peer_count();
        const bool inside_cooldown_after_accept = last[p].any && last[p].accepted && (std::chrono::steady_clock::now() - last[p].at) < cooldown;

        protocol::TransportHandshakePayload payload{};
        payload.public_identity = pub;
        payload.work_nonce = nonce;
        payload.requested_version = static_cast<std::uint8_t>(1 + r.a(5) % 5);
        // one case in four goes through a real inbound connection (identity + length-prefixed handshake frame on a
        // socketpair adopted by the session manager): the ACK is then read from the wire and decrypted by the harness
        const bool via_socket = (r.a(6) & 3) == 0;
        std::optional<network::SessionManager::HandshakeAcceptance> acc;
        bool accepted = false;
        if (!via_socket) {
            acc = vnode::Access::handle_transport_handshake(node, claimed[p], payload);
            accepted = acc.has_value() && acc->accepted;
        } else {
            c.label("via_inbound_socket");
            int sv[2];
            if (::socketpair(AF_UNIX, SOCK_STREAM, 0, sv) != 0) c.fail("C20:harness-error", "socketpair failed");
            protocol::Message hs{};
            hs.type = protocol::MessageType::TransportHandshake;
            hs.payload = payload;
            auto enc = protocol::encode(hs);
            std::vector<std::uint8_t> wire(claimed[p].begin(), claimed[p].end());
            std::uint32_t len = static_cast<std::uint32_t>(enc.size());
            for (int sh = 24; sh >= 0; sh -= 8) wire.push_back(static_cast<std::uint8_t>(len >> sh));
            wire.insert(wire.end(), enc.begin(), enc.end());
            (void)!::send(sv[0], wire.data(), wire.size(), MSG_NOSIGNAL);
            accepted = vnode::Access::sessions(node).adopt_inbound_socket(static_cast<network::SessionManager::SocketHandle>(sv[1]));
            ::fcntl(sv[0], F_SETFL, ::fcntl(sv[0], F_GETFL, 0) | O_NONBLOCK);
            std::vector<std::uint8_t> in;
            std::uint8_t buf[4096];
            for (;;) { ssize_t n = ::recv(sv[0], buf, sizeof buf, 0); if (n <= 0) break; in.insert(in.end(), buf, buf + n); }
            if (accepted) {
                if (!node.connected_peer_count()) c.fail("C20:accepted-without-session", "an acknowledged handshake did not register a session for the claimed peer");
                if (in.size() < 16) c.fail("C20:ack-malformed", "no ACK frame on the wire after an accepted handshake");
                std::uint32_t alen = (std::uint32_t(in[12]) << 24) | (std::uint32_t(in[13]) << 16) | (std::uint32_t(in[14]) << 8) | in[15];
                if (in.size() < 16 + alen) c.fail("C20:ack-malformed", "truncated ACK frame");
                auto want = ref_session_key(node_scalar, node_public, pub);
                network::SessionManager::HandshakeAcceptance a{};
                a.accepted = true;
                a.session_key = node.session_key(claimed[p]).value_or(std::array<std::uint8_t, 32>{});
                a.ack_payload = refs::chacha20(want.data(), in.data(), 0, in.data() + 16, alen);  // decrypt under the REFERENCE key
                acc = a;
                open_fds.push_back(sv[0]);
            } else {
                if (!in.empty()) c.fail("C20:bytes-sent-on-rejected-handshake", "the node wrote " + std::to_string(in.size()) + " bytes to a connection whose handshake it rejected");
                ::close(sv[0]);
            }
        }

        if (!expect) {
            if (inside_cooldown_after_accept) c.nt("rejected_after_accept_inside_cooldown");
            if (accepted) {
                c.fail(inside_cooldown_after_accept ? "C20:cooldown-accepts-any-handshake" : "C20:inadmissible-handshake-accepted",
                       std::string("handshake (") + kind + ", key " + (key_ok ? "valid" : "INVALID") + ", PoW " + (pow_ok ? "valid" : "INVALID") + ") was acknowledged");
            }
            for (int q = 0; q < 3; ++q)
                if (node.session_key(claimed[q]) != before[q]) c.fail("C20:rejected-handshake-changed-key", "a rejected handshake changed the session key of p" + std::to_string(q));
            if (node.connected_peer_count() != sessions_before) c.fail("C20:rejected-handshake-changed-sessions", "a rejected handshake changed the session table");
            const int rep_after = node.reputation_score(claimed[p]);
            if (!(rep_after < rep_before || rep_before <= -100))
                c.fail(key_ok ? "C20:rejected-handshake-no-penalty" : "C20:invalid-key-no-penalty",
                       std::string("rejected handshake (") + kind + ") left the claimed peer's reputation at " + std::to_string(rep_after) + " (was " + std::to_string(rep_before) + ")");
            c.label("rejected");
        } else {
            if (!accepted) c.fail("C20:admissible-handshake-rejected", std::string("handshake (") + kind + ") with a valid key and valid PoW was not acknowledged");
            auto want = ref_session_key(node_scalar, node_public, pub);
            if (acc->session_key != want) c.fail("C20:ack-under-wrong-key", "acceptance carries a session key different from the reference derivation for the offered key");
            auto reg = node.session_key(claimed[p]);
            if (!reg || *reg != want) c.fail("C20:registered-key-mismatch", "the key registered for the claimed peer is not the reference derivation for the offered key");
            // ACK = encode_signed(...): last 32 bytes must be the OpenSSL HMAC under the reference key
            auto& ack = acc->ack_payload;
            if (ack.size() < 32) c.fail("C20:ack-malformed", "ACK shorter than a MAC");
            auto mac = refs::hmac_sha256(want.data(), want.size(), ack.data(), ack.size() - 32);
            if (!std::equal(mac.begin(), mac.end(), ack.end() - 32)) c.fail("C20:ack-under-wrong-key", "ACK is not authenticated under the reference session key");
            for (int q = 0; q < 3; ++q)
                if (q != p && node.session_key(claimed[q]) != before[q]) c.fail("C20:handshake-changed-other-peer", "a handshake for p" + std::to_string(p) + " changed the key of p" + std::to_string(q));
            c.label("accepted");
        }
        last[p] = Last{true, pub, nonce, accepted, std::chrono::steady_clock::now()};
    }
}
}  // namespace verif
