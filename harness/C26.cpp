// C26 — the relay never crashes and releases everything once clients leave
// Same engine as C25 (relay_harness.hpp: real RelayServer + EventLoop stepped from the harness thread, loopback TCP
// clients) with the arbitrary-bytes actions enabled and the routing oracle off.  Oracle: no sanitizer report, no
// exception, no event-loop batch that spins, the server still answers a fresh client, and after every client has
// disconnected verif_session_count() == 0, verif_registration_count() == 0 and /proc/self/fd is what it was when
// the server was listening without clients.
#define VERIF_FUZZ_TARGET 1
#include "relay_harness.hpp"

namespace verif {
const PropertyInfo kInfo = {
    "C26", 8, 6, 48,
    "tape -> 1..6 initial loopback TCP clients of an in-process RelayServer (<= 6), one action per 6-byte record: arbitrary writes (random binary of 1..3000 or {1,31,32,33,4095,4096,4097,65536} "
    "bytes; 4 KiB..70 000-byte lines with or without terminator, with REGISTER/CONNECT prefixes; runs of LF / CRLF; several commands in one write; REGISTER/CONNECT with 64 non-hex, 100 000-char, "
    "5000-char, missing or doubled arguments; 1..40-byte identity fragments; NUL bytes and blanks), half-close, reset, close of any client, plus every protocol-aware action of C25 (register, "
    "connect, identity whole/split, data, junk, half-typed lines, targeted disconnects) so that registered / claimed / awaiting-identity / bridged sessions exist when the bytes arrive; "
    "(op&0xC0)==0xC0 batches an action with the next. The loop is stepped to quiescence after each un-batched action. At the end a fresh client must still get OK for a REGISTER, then all clients "
    "disconnect in a tape-chosen order (all at once / forward / reverse / half-close first; FIN or RST). Oracle: ASan/UBSan silent, no exception, no loop batch making > 200 000 allocations or allocating > 64 MiB (runaway loop; legitimate batches stay below 100 allocations / 2 MiB), and after the last "
    "disconnect session count 0, registration count 0, descriptor set identical to the idle server's. Non-trivial: >= 2 clients and >= 1 protocol state change (an OK or BEGIN was read). "
    "Distinct = hash of the rendered action list."};

namespace {
int count_state_lines(const std::string& rx) {
    int n = 0;
    std::size_t pos = 0;
    while (pos < rx.size()) {
        auto nl = rx.find('\n', pos);
        if (nl == std::string::npos) break;
        if (rx.compare(pos, nl - pos, "OK") == 0 || rx.compare(pos, 6, "BEGIN ") == 0) ++n;
        pos = nl + 1;
    }
    return n;
}
}  // namespace

void run_case(Ctx& c) {
    vrelay::Options o;
    o.pid = "C26";
    o.strict = false;
    o.wild = true;
    vrelay::Driver d(c, o);
    const Tape& t = c.tape;
    try {
        d.setup(1 + t.h(0) % 6);
        std::size_t n = std::min<std::size_t>(t.nrec(), 80);
        for (std::size_t i = 0; i < n; ++i) d.apply(t.r(i));
        d.settle();
        int states = d.state_changes;
        for (auto& k : d.cl)
            if (k.wild) states += count_state_lines(k.rx);
        std::size_t nclients = d.cl.size();

        // the server must still serve a newcomer
        {
            int i = d.add_client(vrelay::kMaxClients);
            if (i >= 0) {
                vrelay::Cl& k = d.cl[static_cast<std::size_t>(i)];
                std::uint8_t b[32];
                Prng g(d.seed ^ 0xF4E5);
                g.fill(b, sizeof b);
                b[0] = 0xEE;
                d.send(k, "REGISTER " + vrelay::to_hex(b, 32) + "\n");
                d.settle();
                for (int w = 0; w < 100 && k.rx.find('\n') == std::string::npos && !k.eof; ++w) {
                    pollfd p{k.fd, POLLIN, 0};
                    ::poll(&p, 1, 10);
                    d.quiesce();
                }
                if (k.rx.compare(0, 3, "OK\n") != 0)
                    d.fail("server-stopped-serving", "a fresh client sent REGISTER <new id> after the history and read '" + vrelay::show(k.rx) + "'" + (k.eof ? " then EOF" : "") + " instead of OK");
            }
        }

        // everybody leaves
        unsigned order = t.h(1);
        bool rst = (order & 4) != 0;
        c.note("end=%u%s", order & 3, rst ? "/rst" : "");
        auto close_one = [&](vrelay::Cl& k) {
            if (!k.fd_open) return;
            if (rst) {
                linger lg{1, 0};
                ::setsockopt(k.fd, SOL_SOCKET, SO_LINGER, &lg, sizeof lg);
            }
            ::close(k.fd);
            k.fd_open = false;
            k.closed = true;
            k.fd = -1;
        };
        switch (order & 3) {
            case 0: for (auto& k : d.cl) close_one(k); break;
            case 1: for (auto& k : d.cl) { close_one(k); d.quiesce(); } break;
            case 2: for (auto it = d.cl.rbegin(); it != d.cl.rend(); ++it) { close_one(*it); d.quiesce(); } break;
            default:
                for (auto& k : d.cl)
                    if (k.fd_open) { ::shutdown(k.fd, SHUT_WR); k.closed = true; }
                d.quiesce();
                for (auto& k : d.cl) close_one(k);
                break;
        }
        d.quiesce();
        for (int w = 0; w < 100 && (d.relay.sessions() != 0 || d.relay.registrations() != 0); ++w) {
            ::poll(nullptr, 0, 10);   // real-time grace: loopback FIN/RST delivery is normally synchronous
            d.quiesce();
        }
        if (d.relay.sessions() != 0)
            d.fail("sessions-leaked", std::to_string(d.relay.sessions()) + " client session(s) still held after all " + std::to_string(d.cl.size()) + " clients disconnected");
        if (d.relay.registrations() != 0)
            d.fail("registrations-leaked", std::to_string(d.relay.registrations()) + " registration(s) still held after all clients disconnected");
        auto now = vrelay::open_fds();
        if (now != d.relay.idle_fds) {
            std::string extra, missing;
            for (int fd : now) if (!d.relay.idle_fds.count(fd)) extra += std::to_string(fd) + " ";
            for (int fd : d.relay.idle_fds) if (!now.count(fd)) missing += std::to_string(fd) + " ";
            if (!extra.empty()) d.fail("descriptors-leaked", "descriptors still open after all clients disconnected: " + extra + "(idle server had " + vrelay::fdset_str(d.relay.idle_fds) + ")");
            d.fail("foreign-descriptor-closed", "descriptors of the idle server that are no longer open: " + missing);
        }

        if (nclients >= 2 && states >= 1) c.nt("two_clients_and_state_change");
        if (d.bridges) c.label("bridge");
        if (states >= 3) c.label("three_or_more_state_changes");
    } catch (const CaseFailure&) {
        d.close_everything(true);
        throw;
    } catch (const CaseExcluded&) {
        d.close_everything(true);
        throw;
    } catch (const std::exception& e) {
        d.close_everything(true);
        c.fail("C26:exception-escaped", std::string("exception out of the relay: ") + e.what());
    }
    d.close_everything(true);
    if (std::getenv("VERIF_RELAY_DEBUG")) std::fprintf(stderr, "MAXSTEP bytes=%zu calls=%zu\n", vrelay::g_max_step_alloc, vrelay::g_max_step_calls);
}

std::vector<std::vector<std::uint8_t>> seed_tapes() {
    auto mk = [](std::uint8_t h0, std::uint8_t h1, std::initializer_list<std::array<std::uint8_t, 6>> recs) {
        std::vector<std::uint8_t> t = {h0, h1, 3, 1, 4, 1, 5, 9};
        for (auto& r : recs) t.insert(t.end(), r.begin(), r.end());
        return t;
    };
    return {
        mk(1, 0, {{0, 0, 0, 0, 0, 0}, {0, 0, 0, 0, 0, 0}, {0, 0, 0, 0, 0, 0}, {16, 0, 0, 0x87, 0, 0}, {17, 1, 0, 1, 3, 1}, {23, 0, 0, 0, 0, 0}}),
        mk(2, 5, {{0, 0, 0, 0, 0, 0}, {0, 0, 0, 0, 0, 0}, {19, 2, 0, 4, 0, 0}, {20, 1, 0, 1, 0, 0}, {21, 0, 0, 30, 0, 0}, {24, 1, 0, 0, 0, 0}}),
        mk(3, 2, {{0, 0, 0, 0, 0, 0}, {0, 0, 0, 0, 0, 0}, {30, 0, 0x83, 0, 0, 0}, {29, 2, 3, 0, 0, 4}, {14, 0, 0, 0, 0, 0}, {7, 0, 0, 9, 0, 0}, {18, 0, 0, 9, 1, 0}}),
    };
}
}  // namespace verif
