// C34 — auto-advertise never publishes non-routable addresses unless allowed
#include "verif.hpp"
#include "vclock.hpp"
#include "node_access.hpp"

#include "ephemeralnet/network/AdvertiseDiscovery.hpp"

#include <arpa/inet.h>

namespace verif {
const PropertyInfo kInfo = {
    "C34", 24, 8, 0,
    "tape -> a STUN-reported address built as a BINARY address and rendered with inet_ntop (canonical text), drawn per class: IPv4 0/8, 10/8, 100.64/10, 127/8, 169.254/16, 172.16/12, "
    "192.168/16, 192.0.2/24, 198.51.100/24, 203.0.113/24, both halves of 198.18/15, 224/4, 240/4, block edges +-1, public; IPv6 ::, ::1, fc00::/7, fe80::/10, 2001:db8::/32, ff00::/8, "
    "IPv4-mapped ::ffff:a.b.c.d of every IPv4 class, global unicast; STUN success / failure; auto-advertise mode on / warn / off; allow-private on / off; manual advertised endpoint "
    "present / absent. Oracle: (pure) every candidate of build_transport_advertise_candidates with allow-private off is routable by a reference table over the binary address; "
    "(node, STUN result injected through NatTraversalManager::set_test_hooks, real start_transport) every non-manual advertised endpoint and every non-manual ('transport') discovery "
    "hint of a manifest stored afterwards is routable unless private advertising is allowed; mode off => no non-manual advertised endpoint and no transport hint at all; mode warn with "
    "conflicting candidates => none published. Manual entries are never judged. Non-trivial: address in a special block, or IPv6, or mode != on."};

namespace {
using namespace ephemeralnet;

struct Addr {
    bool v6 = false;
    std::uint8_t b[16]{};
    std::string text() const {
        char buf[INET6_ADDRSTRLEN];
        inet_ntop(v6 ? AF_INET6 : AF_INET, b, buf, sizeof buf);
        return buf;
    }
};
bool v4_nonroutable(const std::uint8_t* a) {
    if (a[0] == 0) return true;                                   // unspecified / "this network"
    if (a[0] == 10) return true;                                  // private
    if (a[0] == 100 && (a[1] & 0xC0) == 64) return true;          // shared CGNAT 100.64/10
    if (a[0] == 127) return true;                                 // loopback
    if (a[0] == 169 && a[1] == 254) return true;                  // link-local
    if (a[0] == 172 && (a[1] & 0xF0) == 16) return true;          // private 172.16/12
    if (a[0] == 192 && a[1] == 168) return true;                  // private
    if (a[0] == 192 && a[1] == 0 && a[2] == 2) return true;       // documentation
    if (a[0] == 198 && a[1] == 51 && a[2] == 100) return true;    // documentation
    if (a[0] == 203 && a[1] == 0 && a[2] == 113) return true;     // documentation
    if (a[0] == 198 && (a[1] & 0xFE) == 18) return true;          // benchmark 198.18/15
    if (a[0] >= 224) return true;                                 // multicast / reserved / broadcast
    return false;
}
bool nonroutable(const Addr& x) {
    if (!x.v6) return v4_nonroutable(x.b);
    bool all_zero = true;
    for (int i = 0; i < 16; ++i) if (x.b[i]) all_zero = false;
    if (all_zero) return true;                                    // ::
    bool loop = x.b[15] == 1;
    for (int i = 0; i < 15; ++i) if (x.b[i]) loop = false;
    if (loop) return true;                                        // ::1
    if ((x.b[0] & 0xFE) == 0xFC) return true;                     // fc00::/7
    if (x.b[0] == 0xFE && (x.b[1] & 0xC0) == 0x80) return true;   // fe80::/10
    if (x.b[0] == 0x20 && x.b[1] == 0x01 && x.b[2] == 0x0d && x.b[3] == 0xb8) return true;  // 2001:db8::/32
    if (x.b[0] == 0xFF) return true;                              // multicast
    bool mapped = x.b[10] == 0xFF && x.b[11] == 0xFF;
    for (int i = 0; i < 10; ++i) if (x.b[i]) mapped = false;
    if (mapped) return v4_nonroutable(x.b + 12);                  // ::ffff:a.b.c.d
    return false;
}
void gen_v4(unsigned cls, Prng& g, std::uint8_t* a, const char*& name) {
    a[0] = g.byte(); a[1] = g.byte(); a[2] = g.byte(); a[3] = g.byte();
    switch (cls % 20) {
        case 0: a[0] = 0; name = "0/8"; break;
        case 1: a[0] = 10; name = "10/8"; break;
        case 2: a[0] = 100; a[1] = static_cast<std::uint8_t>(64 + a[1] % 64); name = "100.64/10"; break;
        case 3: a[0] = 127; name = "127/8"; break;
        case 4: a[0] = 169; a[1] = 254; name = "169.254/16"; break;
        case 5: a[0] = 172; a[1] = static_cast<std::uint8_t>(16 + a[1] % 16); name = "172.16/12"; break;
        case 6: a[0] = 192; a[1] = 168; name = "192.168/16"; break;
        case 7: a[0] = 192; a[1] = 0; a[2] = 2; name = "192.0.2/24"; break;
        case 8: a[0] = 198; a[1] = 51; a[2] = 100; name = "198.51.100/24"; break;
        case 9: a[0] = 203; a[1] = 0; a[2] = 113; name = "203.0.113/24"; break;
        case 10: a[0] = 198; a[1] = 18; name = "198.18/16"; break;
        case 11: a[0] = 198; a[1] = 19; name = "198.19/16"; break;
        case 12: a[0] = static_cast<std::uint8_t>(224 + a[0] % 16); name = "224/4"; break;
        case 13: a[0] = static_cast<std::uint8_t>(240 + a[0] % 16); name = "240/4"; break;
        case 14: {  // block edges (just outside / inside)
            static const std::uint8_t edges[][4] = {{9, 255, 255, 255}, {11, 0, 0, 0}, {100, 63, 255, 255}, {100, 128, 0, 0}, {172, 15, 255, 255}, {172, 32, 0, 0},
                                                    {198, 17, 255, 255}, {198, 20, 0, 0}, {223, 255, 255, 255}, {169, 253, 255, 255}, {169, 255, 0, 0}, {192, 167, 255, 255},
                                                    {192, 169, 0, 0}, {126, 255, 255, 255}, {128, 0, 0, 0}, {1, 0, 0, 0}};
            std::memcpy(a, edges[a[3] % 16], 4);
            name = "edge";
            break;
        }
        default: {  // public: re-draw until routable
            while (v4_nonroutable(a)) { a[0] = g.byte(); a[1] = g.byte(); }
            name = "public-v4";
            break;
        }
    }
}
Addr gen_addr(unsigned cls, unsigned sub, Prng& g, std::string& cname) {
    Addr x;
    const char* name = "";
    if (cls % 3 != 2) {
        gen_v4(sub, g, x.b, name);
        cname = name;
        return x;
    }
    x.v6 = true;
    g.fill(x.b, 16);
    switch (sub % 10) {
        case 0: std::memset(x.b, 0, 16); cname = "::"; break;
        case 1: std::memset(x.b, 0, 16); x.b[15] = 1; cname = "::1"; break;
        case 2: x.b[0] = static_cast<std::uint8_t>(0xFC | (x.b[0] & 1)); cname = "fc00::/7"; break;
        case 3: x.b[0] = 0xFE; x.b[1] = static_cast<std::uint8_t>(0x80 | (x.b[1] & 0x3F)); cname = "fe80::/10"; break;
        case 4: x.b[0] = 0x20; x.b[1] = 0x01; x.b[2] = 0x0d; x.b[3] = 0xb8; cname = "2001:db8::/32"; break;
        case 5: x.b[0] = 0xFF; cname = "ff00::/8"; break;
        case 6: case 7: {
            std::memset(x.b, 0, 10);
            x.b[10] = x.b[11] = 0xFF;
            gen_v4(g.byte(), g, x.b + 12, name);
            cname = std::string("v4-mapped:") + name;
            break;
        }
        default: x.b[0] = static_cast<std::uint8_t>(0x20 | (x.b[0] & 0x1F)); if (x.b[1] == 0x01 && x.b[0] == 0x20) x.b[1] = 0x02; cname = "global-v6"; break;
    }
    return x;
}
std::optional<Addr> parse_text(const std::string& host) {
    Addr x;
    if (inet_pton(AF_INET, host.c_str(), x.b) == 1) return x;
    x.v6 = true;
    if (inet_pton(AF_INET6, host.c_str(), x.b) == 1) return x;
    return std::nullopt;
}
std::string host_of(const std::string& endpoint) {
    auto pos = endpoint.find_last_of(':');
    return pos == std::string::npos ? endpoint : endpoint.substr(0, pos);
}

std::optional<network::NatTraversalManager::StunQueryResult> g_stun;
}  // namespace

void run_case(Ctx& c) {
    vnode::silence_streams();
    const Tape& t = c.tape;
    Prng g(t.h32(0) ^ 0xC34);
    std::string cname;
    Addr addr = gen_addr(t.h(4), t.h(5), g, cname);
    const std::string text = addr.text();
    const bool stun_ok = (t.h(6) & 3) != 0;
    const unsigned mode = t.h(7) % 3;  // 0 on, 1 warn, 2 off
    const bool allow_private = (t.h(8) & 3) == 0;
    const bool manual_present = (t.h(9) & 1) != 0;
    const bool bad = nonroutable(addr);
    c.note("stun=%s(%s,%s) ok=%d mode=%s allow_private=%d manual=%d", text.c_str(), cname.c_str(), bad ? "non-routable" : "routable", stun_ok,
           mode == 0 ? "on" : mode == 1 ? "warn" : "off", allow_private, manual_present);
    if (bad) c.nt("address_in_special_block");
    if (addr.v6) c.nt("ipv6");
    if (mode != 0) c.nt("mode_not_on");

    Config cfg;
    cfg.nat_stun_enabled = true;
    cfg.relay_enabled = false;
    cfg.identity_seed = 34;
    cfg.announce_pow_difficulty = 0;
    cfg.handshake_pow_difficulty = 0;
    // the operator's control host: loopback (default), or a routable-looking address / name (then a local-fallback
    // candidate exists besides whatever STUN reports)
    static const char* kControlHosts[] = {"127.0.0.1", "127.0.0.1", "93.184.216.34", "node.example.org"};
    cfg.control_host = kControlHosts[t.h(12) % 4];
    if (t.h(12) % 4 >= 2) c.label("routable_looking_control_host");
    cfg.advertise_allow_private = allow_private;
    cfg.advertise_auto_mode = mode == 0 ? Config::AdvertiseAutoMode::On : mode == 1 ? Config::AdvertiseAutoMode::Warn : Config::AdvertiseAutoMode::Off;
    if (manual_present) cfg.advertised_endpoints.push_back(Config::AdvertisedEndpoint{"relay.example.net", 4100, true, "manual"});

    // ---- pure layer
    {
        network::NatTraversalResult tr;
        tr.external_address = text;
        tr.external_port = static_cast<std::uint16_t>(1024 + t.h16(10) % 60000);
        tr.stun_succeeded = stun_ok;
        auto res = network::build_transport_advertise_candidates(cfg, 45000, tr);
        if (!allow_private) {
            for (auto& cand : res.candidates) {
                auto parsed = parse_text(cand.host);
                if (parsed && nonroutable(*parsed))
                    c.fail(std::string("C34:non-routable-candidate:") + cname, "build_transport_advertise_candidates offered " + cand.host + " (via " + cand.via + ") with private advertising not allowed");
            }
        }
    }

    // ---- node layer
    network::NatTraversalManager::TestHooks hooks;
    hooks.stun_override = []() { return g_stun; };
    if (stun_ok) g_stun = network::NatTraversalManager::StunQueryResult{text, static_cast<std::uint16_t>(1024 + t.h16(10) % 60000), "stun.test:3478"};
    else g_stun = std::nullopt;
    network::NatTraversalManager::set_test_hooks(&hooks);
    struct Unhook { ~Unhook() { network::NatTraversalManager::set_test_hooks(nullptr); } } unhook;

    Node node(vnode::make_id(340, 0x34), cfg);
    struct Stop { Node& n; ~Stop() { n.stop_transport(); } } stop{node};
    node.start_transport(0);
    const bool conflict = node.config().auto_advertise_conflict;
    if (conflict) c.label("conflict");

    auto judge = [&](const std::string& host, const char* where) {
        auto parsed = parse_text(host);
        if (!parsed) return;  // names are not judged
        if (mode == 2) c.fail(std::string("C34:published-with-mode-off:") + where, std::string(where) + " " + host + " was auto-published although auto-advertise is off");
        if (mode == 1 && conflict) c.fail(std::string("C34:published-despite-warn-conflict:") + where, std::string(where) + " " + host + " was auto-published although mode is warn and candidates conflict");
        if (!allow_private && nonroutable(*parsed))
            c.fail(std::string("C34:non-routable-published:") + where + ":" + cname, std::string(where) + " publishes " + host + ", which is not routable, with private advertising not allowed");
    };
    for (auto& ep : node.config().advertised_endpoints) {
        if (ep.manual) continue;
        judge(ep.host, "advertised-endpoint");
        c.label("auto_endpoint_published");
    }
    auto manifest = node.store_chunk(ChunkId{1, 2, 3}, {1, 2, 3, 4}, std::chrono::seconds(60));
    for (auto& hint : manifest.discovery_hints) {
        if (hint.scheme != "transport") continue;
        judge(host_of(hint.endpoint), "manifest-hint");
        c.label("transport_hint_published");
    }
}
}  // namespace verif
