// Shared helpers for the control-plane harnesses C27 / C28 / C29 (in-process Node + daemon::ControlServer).
// Everything here is harness-side: reference encodings written from the property statements, state snapshots read
// through NodeTestAccess, deterministic string builders.  Nothing is taken from the code under test.
#pragma once
#include "verif.hpp"
#include "refs.hpp"
#include "vclock.hpp"
#include "node_access.hpp"
#include "control_harness.hpp"

#include "ephemeralnet/protocol/Manifest.hpp"

#include <algorithm>
#include <filesystem>
#include <fstream>
#include <map>
#include <set>
#include <string>
#include <vector>

namespace ctl {
using namespace ephemeralnet;
using verif::Prng;
using Bytes = std::vector<std::uint8_t>;

inline std::string hex_full(const std::uint8_t* p, std::size_t n) {
    static const char* d = "0123456789abcdef";
    std::string s;
    s.reserve(n * 2);
    for (std::size_t i = 0; i < n; ++i) { s.push_back(d[p[i] >> 4]); s.push_back(d[p[i] & 15]); }
    return s;
}
template <typename C>
inline std::string hex_full(const C& c) { return hex_full(reinterpret_cast<const std::uint8_t*>(c.data()), c.size()); }

// chunk id as the property states it: the SHA-256 of the payload (OpenSSL)
inline ChunkId payload_chunk_id(const Bytes& payload) {
    auto d = refs::sha256(payload);
    ChunkId id{};
    std::copy(d.begin(), d.end(), id.begin());
    return id;
}

// A Config that keeps the node quiet and cheap: no STUN, no relay, no persistent storage, no announce/handshake PoW.
inline Config quiet_config(std::uint32_t identity) {
    Config cfg;
    cfg.identity_seed = identity;
    cfg.nat_stun_enabled = false;
    cfg.relay_enabled = false;
    cfg.storage_persistent_enabled = false;
    cfg.announce_pow_difficulty = 0;
    cfg.handshake_pow_difficulty = 0;
    cfg.store_pow_difficulty = 0;
    return cfg;
}

// printable ASCII 0x21..0x7E (no space, so that no value starts or ends with blank)
inline std::string printable(Prng& g, std::size_t n) {
    std::string s;
    for (std::size_t i = 0; i < n; ++i) s.push_back(static_cast<char>(0x21 + g.below(0x7E - 0x21 + 1)));
    return s;
}

// Random upper/lower mix of a header name or command ("TOKEN" -> "tOkEn"); seed 0 keeps the canonical spelling.
inline std::string case_mix(const std::string& s, std::uint64_t seed) {
    if (seed == 0) return s;
    Prng g(seed);
    std::string o = s;
    for (auto& ch : o) {
        if (g.next() & 1) ch = static_cast<char>(std::tolower(static_cast<unsigned char>(ch)));
    }
    return o;
}

inline std::string shorten(const std::string& s, std::size_t n = 40) {
    std::string o;
    for (unsigned char ch : s.substr(0, n)) {
        if (ch == '\n') o += "\\n";
        else if (ch < 0x20 || ch >= 0x7F) { char b[8]; std::snprintf(b, sizeof b, "\\x%02x", ch); o += b; }
        else o.push_back(static_cast<char>(ch));
    }
    if (s.size() > n) o += "..(" + std::to_string(s.size()) + ")";
    return o;
}

// ---------------------------------------------------------------- store proof-of-work reference (C28)
// Written from the property statement ("valid for the payload hash, size and sanitised filename") and the documented
// field encoding: SHA-256( chunk id (32) || size (8, BE) || filename length (4, BE) || filename || nonce (8, BE) ),
// valid iff the digest has at least `difficulty` leading zero bits.  OpenSSL SHA-256, bit-loop zero count.
inline unsigned ref_store_pow_zero_bits(const ChunkId& id, std::uint64_t size, const std::string& name, std::uint64_t nonce) {
    Bytes m(id.begin(), id.end());
    refs::put_be64(m, size);
    refs::put_be32(m, static_cast<std::uint32_t>(name.size()));
    m.insert(m.end(), name.begin(), name.end());
    refs::put_be64(m, nonce);
    auto d = refs::sha256(m);
    return refs::leading_zero_bits(d.data(), d.size());
}

// Sanitised filename hint: the last path component; nothing for "", ".", ".." or a trailing separator; at most 255 bytes.
inline std::string ref_sanitise_filename(const std::string& raw) {
    auto slash = raw.rfind('/');
    std::string base = slash == std::string::npos ? raw : raw.substr(slash + 1);
    if (base.empty() || base == "." || base == "..") return "";
    if (base.size() > 255) base.resize(255);
    return base;
}

// First nonce >= start with (valid for `good`) and, if avoid != nullptr, NOT valid for `avoid`.
struct PowFields {
    ChunkId id{};
    std::uint64_t size = 0;
    std::string name;
};
inline std::uint64_t ref_find_nonce(const PowFields& good, unsigned difficulty, std::uint64_t start, const PowFields* avoid = nullptr, bool want_invalid = false) {
    for (std::uint64_t n = start;; ++n) {
        bool ok = ref_store_pow_zero_bits(good.id, good.size, good.name, n) >= difficulty;
        if (want_invalid) {
            if (!ok) return n;
            continue;
        }
        if (!ok) continue;
        if (avoid && ref_store_pow_zero_bits(avoid->id, avoid->size, avoid->name, n) >= difficulty) continue;
        return n;
    }
}

// a nonce that misses the target by exactly one bit (difficulty - 1 leading zero bits): the near miss a sloppy bit counter lets through
inline std::uint64_t ref_find_near_miss(const PowFields& f, unsigned difficulty, std::uint64_t start) {
    for (std::uint64_t n = start;; ++n)
        if (ref_store_pow_zero_bits(f.id, f.size, f.name, n) + 1 == difficulty) return n;
}

// ---------------------------------------------------------------- node state snapshot (C27)
struct Snapshot {
    std::map<std::string, std::pair<std::size_t, long long>> chunks;  // id -> (size, deadline ns)
    std::set<std::string> manifests;                                  // manifest cache keys
    std::set<std::string> plans;                                      // swarm plan keys
    std::set<std::string> shard_records;                              // tracked ids that have a shard record
    std::size_t pending_fetches = 0;
};

inline Snapshot take_snapshot(Node& node, std::mutex& m, const std::vector<ChunkId>& tracked) {
    std::scoped_lock lock(m);
    Snapshot s;
    for (auto& e : vnode::Access::chunk_store(node).snapshot())
        s.chunks[hex_full(e.id)] = {e.size, static_cast<long long>(e.expires_at.time_since_epoch().count())};
    for (auto& kv : vnode::Access::manifest_cache(node)) s.manifests.insert(kv.first);
    for (auto& kv : vnode::Access::swarm_plans(node)) s.plans.insert(kv.first);
    for (auto& id : tracked)
        if (vnode::Access::dht(node).shard_record(id).has_value()) s.shard_records.insert(hex_full(id));
    s.pending_fetches = vnode::Access::pending_fetches(node).size();
    return s;
}

inline std::string diff_snapshot(const Snapshot& a, const Snapshot& b) {
    std::string d;
    auto set_diff = [&](const char* what, const std::set<std::string>& x, const std::set<std::string>& y) {
        for (auto& k : y) if (!x.count(k)) d += std::string(what) + " +" + k.substr(0, 12) + "; ";
        for (auto& k : x) if (!y.count(k)) d += std::string(what) + " -" + k.substr(0, 12) + "; ";
    };
    for (auto& [k, v] : b.chunks) {
        auto it = a.chunks.find(k);
        if (it == a.chunks.end()) d += "chunk +" + k.substr(0, 12) + "; ";
        else if (it->second != v) d += "chunk ~" + k.substr(0, 12) + "; ";
    }
    for (auto& [k, v] : a.chunks) if (!b.chunks.count(k)) d += "chunk -" + k.substr(0, 12) + "; ";
    set_diff("manifest", a.manifests, b.manifests);
    set_diff("swarm-plan", a.plans, b.plans);
    set_diff("shard-record", a.shard_records, b.shard_records);
    if (a.pending_fetches != b.pending_fetches) d += "pending-fetches " + std::to_string(a.pending_fetches) + "->" + std::to_string(b.pending_fetches) + "; ";
    return d;
}

// ---------------------------------------------------------------- scratch directory (FETCH OUT)
inline std::string& scratch_root_storage() {
    static std::string root;
    return root;
}
inline std::string scratch_root(const char* id) {
    std::string& root = scratch_root_storage();
    if (root.empty()) {
        root = std::string("/tmp/verif_") + id + "_" + std::to_string(::getpid());
        std::error_code ec;
        std::filesystem::remove_all(root, ec);
        std::filesystem::create_directories(root, ec);
        std::atexit([] {
            std::error_code ec2;
            std::filesystem::remove_all(scratch_root_storage(), ec2);
        });
    }
    return root;
}
inline std::size_t count_entries(const std::string& dir) {
    std::error_code ec;
    std::size_t n = 0;
    for (auto it = std::filesystem::recursive_directory_iterator(dir, ec); !ec && it != std::filesystem::recursive_directory_iterator(); it.increment(ec)) ++n;
    return n;
}
inline void clear_dir(const std::string& dir) {
    std::error_code ec;
    for (auto& e : std::filesystem::directory_iterator(dir, ec)) std::filesystem::remove_all(e.path(), ec);
}
inline bool read_file(const std::string& path, Bytes& out) {
    std::ifstream in(path, std::ios::binary);
    if (!in) return false;
    out.assign(std::istreambuf_iterator<char>(in), std::istreambuf_iterator<char>());
    return true;
}

// TCP connect probe: is something listening on 127.0.0.1:port ?
inline bool port_listening(std::uint16_t port) {
    int fd = ::socket(AF_INET, SOCK_STREAM, 0);
    if (fd < 0) return false;
    sockaddr_in a{};
    a.sin_family = AF_INET;
    a.sin_addr.s_addr = htonl(INADDR_LOOPBACK);
    a.sin_port = htons(port);
    bool ok = ::connect(fd, reinterpret_cast<sockaddr*>(&a), sizeof a) == 0;
    ::close(fd);
    return ok;
}

inline bool is_auth_code(const std::string& code) { return code.find("AUTH") != std::string::npos; }
}  // namespace ctl
