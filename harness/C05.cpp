// C05 — a cleanup tick removes all expired state and reports each expiry once (Node, virtual time)
#define VERIF_FUZZ_TARGET 1
#include "verif.hpp"
#include "vclock.hpp"
#include "node_access.hpp"
#include "access.hpp"

#include <map>
#include <set>

VERIF_ACCESS_MEMBER(KadShardTable, ephemeralnet::KademliaTable, shard_table_, std::unordered_map<std::string, ephemeralnet::KademliaTable::KeyShardRecord>)

namespace verif {
const PropertyInfo kInfo = {
    "C05", 8, 8, 60,
    "tape -> Node (cleanup interval from {1,5,30}s, min TTL 2 s) with a fake peer and a separate publisher node that issues real foreign manifests. History of "
    "store_chunk (3 local ids, TTL 2..40 s), announce_chunk of a local id with its own TTL (2..80 s: the self-announcement may outlive the chunk), ingest_manifest / ANNOUNCE (with provider endpoint) / receive_chunk of 2 foreign chunks (TTL 2..40 s), lookups placed "
    "anywhere incl. between a deadline and the next tick (fetch_chunk, export_chunk_record, peer REQUEST), advance (to next deadline exactly / +-1ns / to the next "
    "cleanup instant / random), tick + drain_cleanup_notifications. Oracle after each tick whose cleanup branch ran at T: no chunk record, locator, holder contact, "
    "shard record, cached manifest or swarm plan belongs to something that expired by T; no self-announcement for an expired local chunk; audit_ttl() lists no expired "
    "entry; and the cumulative multiset of drained notifications equals the model's multiset of local chunk expiries (each expiry once, whoever noticed it first; once "
    "again if stored again and expired again; an expired record silently overwritten by a new store may be reported or not). "
    "Non-trivial: a lookup between deadline and tick, or a foreign manifest expiring, or two expiries of one id."};

namespace {
using namespace ephemeralnet;
using TP = std::chrono::steady_clock::time_point;
using WP = std::chrono::system_clock::time_point;
using std::chrono::seconds;
TP now() { return std::chrono::steady_clock::now(); }
WP wall() { return std::chrono::system_clock::now(); }

ChunkId cid(int i) { ChunkId c{}; Prng g(9100 + i); g.fill(c.data(), c.size()); c[0] = static_cast<std::uint8_t>(0xE0 + i); return c; }

struct MChunk {
    TP deadline;
    bool counted = false;        // this expiry has been added to `expected`
    bool dropped_by_lookup = false;
};
}  // namespace

void run_case(Ctx& c) {
    vclock::Frozen frozen(c.tape.header_seed());
    vnode::silence_streams();
    const Tape& t = c.tape;
    static const int kCleanup[] = {1, 5, 30, 5};
    Config cfg;
    cfg.min_manifest_ttl = seconds(2);
    cfg.max_manifest_ttl = seconds(3600);
    cfg.default_chunk_ttl = seconds(10);
    cfg.cleanup_interval = seconds(kCleanup[t.h(0) % 4]);
    cfg.announce_min_interval = seconds(1);
    cfg.announce_burst_limit = 1000;
    cfg.announce_burst_window = seconds(1);
    cfg.announce_pow_difficulty = 0;
    cfg.handshake_pow_difficulty = 0;
    cfg.upload_max_parallel_transfers = 0;
    cfg.upload_max_transfers_per_peer = 0;
    cfg.key_rotation_interval = seconds(3600);
    cfg.nat_stun_enabled = false;
    cfg.relay_enabled = false;
    cfg.identity_seed = 5;
    Config pcfg = cfg;
    pcfg.identity_seed = 6;
    Node node(vnode::make_id(11, 0xA5), cfg);
    Node publisher(vnode::make_id(12, 0xB5), pcfg);
    vnode::FakePeer peer;
    if (!peer.attach(node, vnode::make_id(13, 0xC5), 77)) c.fail("C05:harness-error", "could not attach fake peer");
    vnode::QuiesceGuard guard{node, {&peer}};
    c.note("cleanup=%ds", kCleanup[t.h(0) % 4]);

    // ids 0..2 local, 3..4 foreign
    std::map<int, MChunk> chunks;                 // records in the node's chunk store (local stores + replicas)
    std::map<int, WP> manifests;                  // manifests the node cached: id -> wall expiry
    std::map<int, std::string> foreign_uri;       // latest foreign manifest uri
    std::map<int, std::vector<std::uint8_t>> foreign_cipher;
    std::map<int, WP> foreign_expiry;
    std::map<std::string, int> expected, tolerance, notified;
    std::map<std::string, int> key_to_idx;
    for (int i = 0; i < 5; ++i) key_to_idx[chunk_id_to_string(cid(i))] = i;
    std::map<int, int> expiries_per_id;
    static const int kTtl[] = {2, 2, 3, 3, 5, 8, 13, 40};

    auto note_lookup = [&](int k) {
        auto it = chunks.find(k);
        if (it != chunks.end() && now() >= it->second.deadline && !it->second.counted) {
            c.nt("lookup_between_deadline_and_tick");
            it->second.dropped_by_lookup = true;
        }
    };
    auto put_model = [&](int k, TP deadline) {
        auto it = chunks.find(k);
        if (it != chunks.end() && now() >= it->second.deadline && !it->second.counted) {
            // expired record silently replaced: reporting it is optional
            tolerance[chunk_id_to_string(cid(k))]++;
            c.label("expired_record_overwritten");
        }
        chunks[k] = MChunk{deadline};
    };
    auto make_foreign = [&](int k, int ttl) {
        auto payload = Prng(1000 + k + ttl).bytes(24);
        auto m = publisher.store_chunk(cid(k), payload, seconds(ttl));
        foreign_uri[k] = protocol::encode_manifest(m);
        foreign_cipher[k] = publisher.export_chunk_record(cid(k))->data;
        foreign_expiry[k] = m.expires_at;
    };

    auto cleanup_checks = [&](TP T) {
        WP WT = wall();
        // model: which expiries must have been reported by now
        for (auto& [k, e] : chunks) {
            if (!e.counted && e.deadline <= T) {
                e.counted = true;
                expected[chunk_id_to_string(cid(k))]++;
                if (++expiries_per_id[k] >= 2) c.nt("two_expiries_of_one_id");
            }
        }
        for (auto& [k, w] : manifests) if (k >= 3 && w <= WT) c.nt("foreign_manifest_expired");
        // 1. chunk store
        for (auto& s : vnode::Access::chunk_store(node).snapshot())
            if (s.expires_at <= T) c.fail("C05:expired-chunk-record-kept", "chunk record " + s.key.substr(0, 8) + " expired but still held after the cleanup tick");
        // 2. locators / contacts
        for (auto& l : vnode::Access::dht(node).snapshot_locators()) {
            if (l.expires_at <= T) c.fail("C05:expired-locator-kept", "locator expired but still held after the cleanup tick");
            for (auto& h : l.holders) {
                if (h.expires_at <= T) c.fail("C05:expired-contact-kept", "provider contact expired but still held after the cleanup tick");
                if (h.id == node.id()) {
                    auto ki = key_to_idx.find(chunk_id_to_string(l.id));
                    if (ki != key_to_idx.end()) {
                        auto ci = chunks.find(ki->second);
                        if (ci == chunks.end() || ci->second.deadline <= T) c.fail("C05:self-announcement-not-withdrawn", "self announcement for an expired local chunk still present after the cleanup tick");
                    }
                }
            }
        }
        // 3. shard records
        for (auto& [key, rec] : verif_access(vnode::Access::dht(node), KadShardTable{}))
            if (rec.expires_at <= T) c.fail("C05:expired-shard-record-kept", "key-share record expired but still held after the cleanup tick");
        // 4. cached manifests
        for (auto& [key, m] : vnode::Access::manifest_cache(node))
            if (m.expires_at <= WT) c.fail("C05:manifest-cache-not-pruned", "cached manifest " + key.substr(0, 8) + " expired but still held after the cleanup tick");
        // 5. swarm plans
        for (auto& [key, plan] : vnode::Access::swarm_plans(node)) {
            auto ki = key_to_idx.find(key);
            if (ki == key_to_idx.end()) continue;
            auto mi = manifests.find(ki->second);
            if (mi == manifests.end() || mi->second <= WT) c.fail("C05:swarm-plan-not-pruned", "swarm plan for an expired manifest still held after the cleanup tick");
        }
        // 6. audit
        auto audit = node.audit_ttl();
        if (!audit.expired_local_chunks.empty() || !audit.expired_locator_chunks.empty() || !audit.expired_contacts.empty())
            c.fail("C05:audit-reports-expired", "audit_ttl() lists expired entries right after a cleanup tick");
        // 7. notifications
        for (auto& [key, idx] : key_to_idx) {
            int want = expected[key], tol = tolerance[key], got = notified[key];
            if (got < want) {
                bool by_lookup = chunks.count(idx) && chunks[idx].dropped_by_lookup;
                c.fail(by_lookup ? "C05:lookup-noticed-expiry-not-reported" : "C05:expiry-not-reported",
                       "chunk c" + std::to_string(idx) + " expired " + std::to_string(want) + " time(s) but was reported " + std::to_string(got) + " time(s)");
            }
            if (got > want + tol) c.fail("C05:expiry-reported-twice", "chunk c" + std::to_string(idx) + " expired " + std::to_string(want) + " time(s) but was reported " + std::to_string(got) + " time(s)");
        }
        for (auto& [key, n] : notified) if (!key_to_idx.count(key)) c.fail("C05:unknown-notification", "notification for an unknown chunk " + key);
    };

    for (std::size_t i = 0; i < t.nrec(); ++i) {
        Rec r = t.r(i);
        int k = r.a(0) % 3;
        int f = 3 + r.a(0) % 2;
        switch (r.op() % 13) {
            case 12: {
                // the public announce call with its own TTL: the node's announcement for a local chunk may outlive the chunk
                int ttl = kTtl[r.a(1) % 8] + static_cast<int>(r.a(2) % 40);
                // (callers announce chunks they hold: store_chunk and the replica path announce right after storing)
                if (!chunks.count(k) || chunks[k].deadline <= now()) break;
                c.note("|announce(c%d,ttl=%d)", k, ttl);
                node.announce_chunk(cid(k), seconds(ttl));
                c.label("announce_with_own_ttl");
                break;
            }
            case 0:
            case 10: {
                int ttl = kTtl[r.a(1) % 8];
                c.note("|store(c%d,ttl=%d)", k, ttl);
                auto m = node.store_chunk(cid(k), Prng(r.seed()).bytes(16), seconds(ttl));
                put_model(k, now() + seconds(ttl));
                manifests[k] = m.expires_at;
                break;
            }
            case 1: {
                int ttl = kTtl[r.a(1) % 8];
                c.note("|ingest(c%d,ttl=%d)", f, ttl);
                make_foreign(f, ttl);
                if (node.ingest_manifest(foreign_uri[f])) manifests[f] = foreign_expiry[f];
                break;
            }
            case 2: {
                int ttl = kTtl[r.a(1) % 8];
                c.note("|announce(c%d,ttl=%d)", f, ttl);
                make_foreign(f, ttl);
                auto before = vnode::Access::manifest_cache(node).count(chunk_id_to_string(cid(f)))
                                  ? vnode::Access::manifest_cache(node)[chunk_id_to_string(cid(f))].expires_at : WP{};
                protocol::Message m{};
                m.type = protocol::MessageType::Announce;
                protocol::AnnouncePayload a{};
                a.chunk_id = cid(f);
                a.peer_id = peer.id;
                a.endpoint = "127.0.0.1:9";
                a.ttl = seconds(kTtl[r.a(2) % 8]);
                a.manifest_uri = foreign_uri[f];
                m.payload = a;
                peer.deliver(m);
                auto& mc = vnode::Access::manifest_cache(node);
                auto it = mc.find(chunk_id_to_string(cid(f)));
                if (it != mc.end() && it->second.expires_at != before) manifests[f] = it->second.expires_at;
                peer.drain();
                break;
            }
            case 3: {
                if (!foreign_uri.count(f)) break;
                c.note("|receive(c%d)", f);
                auto got = node.receive_chunk(foreign_uri[f], foreign_cipher[f]);
                if (got.has_value()) {
                    auto rec = vnode::Access::chunk_store(node).snapshot();
                    for (auto& s : rec) if (s.id == cid(f)) put_model(f, s.expires_at);
                    manifests[f] = foreign_expiry[f];
                }
                break;
            }
            case 4: { int id = (r.a(1) & 1) ? f : k; c.note("|fetch(c%d)", id); note_lookup(id); node.fetch_chunk(cid(id)); break; }
            case 5: { int id = (r.a(1) & 1) ? f : k; c.note("|export(c%d)", id); note_lookup(id); node.export_chunk_record(cid(id)); break; }
            case 6: {
                int id = (r.a(1) & 1) ? f : k;
                c.note("|peer_request(c%d)", id);
                note_lookup(id);
                protocol::Message m{};
                m.type = protocol::MessageType::Request;
                m.payload = protocol::RequestPayload{cid(id), peer.id};
                peer.deliver(m);
                peer.drain();
                break;
            }
            case 7: {
                TP next = TP::max();
                for (auto& [kk, e] : chunks) if (e.deadline > now()) next = std::min(next, e.deadline);
                unsigned kind = r.a(1) % 6;
                if (next == TP::max() && kind < 3) kind = 4;
                vclock::ns d{0};
                switch (kind) {
                    case 0: d = next - now(); break;
                    case 1: d = next - now() - vclock::ns(1); break;
                    case 2: d = next - now() + vclock::ns(1); break;
                    case 3: d = vnode::Access::last_cleanup(node) + node.config().cleanup_interval - now(); break;
                    case 5: d = seconds(1 + r.a(2) % 6); break;
                    case 4: d = std::chrono::milliseconds(1 + r.a16(2) % 4000); break;
                }
                if (d.count() < 0) d = vclock::ns(0);
                c.note("|adv(%lld)", static_cast<long long>(d.count()));
                vclock::advance(d);
                break;
            }
            case 8:
            case 9:
            case 11: {
                TP before = vnode::Access::last_cleanup(node);
                node.tick();
                for (auto& n : node.drain_cleanup_notifications()) notified[n]++;
                peer.drain();
                bool ran = vnode::Access::last_cleanup(node) != before;
                c.note(ran ? "|tick(cleanup)" : "|tick");
                if (ran) cleanup_checks(now());
                break;
            }
        }
    }
}
}  // namespace verif
