// One runner, three ways to drive verif::run_case (DESIGN.md 2.1):
//   -DVERIF_ENGINE_RC   : rapidcheck generates + shrinks tapes; also --replay and --once-only
//   -DVERIF_ENGINE_FUZZ : the same case function is the libFuzzer target body
#include "verif.hpp"
#include "vclock.hpp"

#include <algorithm>
#include <chrono>
#include <csignal>
#include <cstdlib>
#include <fstream>
#include <iostream>
#include <unordered_set>
#include <fcntl.h>
#include <unistd.h>
#include <sys/stat.h>

#ifdef VERIF_ENGINE_RC
#include <rapidcheck.h>
#endif

extern "C" void __sanitizer_set_death_callback(void (*callback)(void));

namespace verif {
__attribute__((weak)) std::string run_once(Ctx&) { return ""; }
__attribute__((weak)) std::vector<std::vector<std::uint8_t>> seed_tapes() { return {}; }
}  // namespace verif

namespace {
using namespace verif;

struct Stats {
    std::uint64_t evaluations = 0;
    std::uint64_t nontrivial = 0;
    std::uint64_t excluded_cases = 0;
    std::unordered_set<std::uint64_t> distinct_nt;
    std::unordered_set<std::uint64_t> distinct_all;
    std::map<std::string, std::uint64_t> labels;
    std::map<std::string, std::uint64_t> excluded;
    std::map<std::string, std::uint64_t> counters;
    std::vector<std::string> samples;
    std::string once_note;
    bool failed = false;
    std::string fail_sig, fail_msg, fail_desc, fail_tape;
    std::chrono::steady_clock::time_point t0;
} g;

std::set<std::string> g_known;
std::string g_out, g_hashes, g_faildir = ".", g_corpus_dir;
std::size_t g_corpus_written = 0;
bool g_shrinking = false;

// current tape kept in static storage so a crash handler can dump it
std::uint8_t g_cur[1 << 20];
std::size_t g_cur_n = 0;
char g_crash_path[512];
long g_watchdog_s = 60;

std::string jesc(const std::string& s) {
    std::string o;
    for (unsigned char c : s) {
        switch (c) {
            case '"': o += "\\\""; break;
            case '\\': o += "\\\\"; break;
            case '\n': o += "\\n"; break;
            case '\t': o += "\\t"; break;
            case '\r': o += "\\r"; break;
            default:
                if (c < 0x20 || c >= 0x7F) { char b[8]; std::snprintf(b, sizeof b, "\\u%04x", c); o += b; }
                else o.push_back(static_cast<char>(c));
        }
    }
    return o;
}

void write_file(const std::string& path, const void* p, std::size_t n) {
    int fd = ::open(path.c_str(), O_WRONLY | O_CREAT | O_TRUNC, 0644);
    if (fd < 0) return;
    const char* c = static_cast<const char*>(p);
    while (n) { ssize_t w = ::write(fd, c, n); if (w <= 0) break; c += w; n -= static_cast<std::size_t>(w); }
    ::close(fd);
}

void dump_stats() {
    if (g_out.empty()) return;
    // the real clock for wall time
    bool was = vclock::frozen();
    if (was) vclock::unfreeze();
    double wall = std::chrono::duration<double>(std::chrono::steady_clock::now() - g.t0).count();
    std::ostringstream o;
    o << "{\"id\":\"" << kInfo.id << "\",\"evaluations\":" << g.evaluations << ",\"nontrivial\":" << g.nontrivial
      << ",\"distinct_nontrivial\":" << g.distinct_nt.size() << ",\"distinct_all\":" << g.distinct_all.size()
      << ",\"excluded_cases\":" << g.excluded_cases << ",\"wall_s\":" << wall << ",\"labels\":{";
    bool first = true;
    for (auto& [k, v] : g.labels) { o << (first ? "" : ",") << "\"" << jesc(k) << "\":" << v; first = false; }
    o << "},\"excluded\":{";
    first = true;
    for (auto& [k, v] : g.excluded) { o << (first ? "" : ",") << "\"" << jesc(k) << "\":" << v; first = false; }
    o << "},\"counters\":{";
    first = true;
    for (auto& [k, v] : g.counters) { o << (first ? "" : ",") << "\"" << jesc(k) << "\":" << v; first = false; }
    o << "},\"samples\":[";
    first = true;
    for (auto& s : g.samples) { o << (first ? "" : ",") << "\"" << jesc(s) << "\""; first = false; }
    o << "],\"once\":\"" << jesc(g.once_note) << "\",\"rule\":\"" << jesc(kInfo.rule) << "\"";
    o << ",\"failed\":" << (g.failed ? "true" : "false");
    if (g.failed) {
        o << ",\"signature\":\"" << jesc(g.fail_sig) << "\",\"message\":\"" << jesc(g.fail_msg) << "\",\"fail_desc\":\""
          << jesc(g.fail_desc) << "\",\"fail_tape\":\"" << jesc(g.fail_tape) << "\"";
    }
    o << "}\n";
    std::string s = o.str();
    write_file(g_out, s.data(), s.size());
    if (!g_hashes.empty()) {
        std::vector<std::uint64_t> v(g.distinct_nt.begin(), g.distinct_nt.end());
        write_file(g_hashes, v.data(), v.size() * sizeof(std::uint64_t));
    }
    if (was) vclock::freeze();
}

void crash_dump() {
    // async-signal-safe enough: open/write/close only
    int fd = ::open(g_crash_path, O_WRONLY | O_CREAT | O_TRUNC, 0644);
    if (fd >= 0) { (void)!::write(fd, g_cur, g_cur_n); ::close(fd); }
}
void on_signal(int sig) {
    crash_dump();
    const char* m = sig == SIGALRM ? "VERIF-HANG watchdog expired\n" : "VERIF-ABORT signal\n";
    (void)!::write(2, m, std::strlen(m));
    if (sig == SIGALRM) _exit(3);
    std::signal(sig, SIG_DFL);
    raise(sig);
}

void install_crash_handlers() {
    // The harness process hosts in-process Nodes / control servers the way `eph serve` and eph-relay-server host them:
    // with SIGPIPE ignored (both binaries do that in main()).  A peer or client of the harness that goes away while the
    // code under test still writes to it must produce a failed send(), not end the worker without a reproducer.  What
    // the real process does with SIGPIPE is judged by the black-box engines (C35_hyp.py, C26_hyp.py).
    std::signal(SIGPIPE, SIG_IGN);
    std::snprintf(g_crash_path, sizeof g_crash_path, "%s/crash.tape", g_faildir.c_str());
    __sanitizer_set_death_callback(crash_dump);
    std::signal(SIGABRT, on_signal);
    std::signal(SIGALRM, on_signal);
}

void load_env() {
    if (const char* k = std::getenv("VERIF_KNOWN")) {
        std::string s(k), cur;
        for (char ch : s) { if (ch == ',') { if (!cur.empty()) g_known.insert(cur); cur.clear(); } else cur.push_back(ch); }
        if (!cur.empty()) g_known.insert(cur);
    }
    if (const char* w = std::getenv("VERIF_WATCHDOG_S")) g_watchdog_s = std::atol(w);
}

void keep_sample(const Ctx& c) {
    // keep cases 1,2,3 then those whose ordinal is a power of two-ish, up to 8 samples
    auto n = g.nontrivial;
    bool keep = n <= 3 || (n & (n - 1)) == 0;
    if (!keep) return;
    std::string s = c.desc.substr(0, 700);
    if (g.samples.size() < 8) g.samples.push_back(s);
    else g.samples[3 + (g.samples.size() + n) % 5] = s;
}

enum class Res { Pass, Fail, Excluded };

Res execute(const std::vector<std::uint8_t>& bytes, Ctx& c, bool count) {
    c.tape.bytes = bytes;
    c.tape.header = kInfo.header;
    c.tape.rec = kInfo.rec;
    c.known = &g_known;
    c.excluded = &g.excluded;
    g_cur_n = std::min(bytes.size(), sizeof g_cur);
    if (g_cur_n) std::memcpy(g_cur, bytes.data(), g_cur_n);
    Res res = Res::Pass;
    if (g_watchdog_s > 0) alarm(static_cast<unsigned>(g_watchdog_s));
    try {
        run_case(c);
    } catch (const CaseExcluded&) {
        res = Res::Excluded;
    } catch (const CaseFailure& f) {
        res = Res::Fail;
        g.fail_sig = f.signature;
        g.fail_msg = f.message;
        g.fail_desc = c.desc.substr(0, 4000);
    }
    alarm(0);
    if (vclock::frozen()) vclock::unfreeze();
    vclock::rng_real();
    if (count) {
        g.evaluations++;
        if (res == Res::Excluded) g.excluded_cases++;
        for (auto* l : c.labels) g.labels[l]++;
        for (auto& [k, v] : c.counters) g.counters[k] += v;
        std::uint64_t h = fnv(c.desc);
        g.distinct_all.insert(h);
        if (c.nontrivial && res != Res::Excluded) {
            g.nontrivial++;
            if (g.distinct_nt.insert(h).second) {
                keep_sample(c);
                if (!g_corpus_dir.empty() && g_corpus_written < 64 && (g.distinct_nt.size() % 7) == 1) {
                    write_file(g_corpus_dir + "/rc_" + std::to_string(g_corpus_written++) + ".tape", bytes.data(), bytes.size());
                }
            }
        }
    }
    return res;
}

void save_failure(const std::vector<std::uint8_t>& bytes) {
    g.failed = true;
    g.fail_tape = g_faildir + "/fail.tape";
    write_file(g.fail_tape, bytes.data(), bytes.size());
}

std::vector<std::uint8_t> read_file(const std::string& path) {
    std::ifstream in(path, std::ios::binary);
    return std::vector<std::uint8_t>((std::istreambuf_iterator<char>(in)), std::istreambuf_iterator<char>());
}
}  // namespace

#ifdef VERIF_ENGINE_RC
int main(int argc, char** argv) {
    g.t0 = std::chrono::steady_clock::now();
    std::string replay;
    bool once_only = false, dump_seeds = false;
    std::string seeds_dir;
    for (int i = 1; i < argc; ++i) {
        std::string a = argv[i];
        auto next = [&]() -> std::string { return i + 1 < argc ? argv[++i] : ""; };
        if (a == "--replay") replay = next();
        else if (a == "--out") g_out = next();
        else if (a == "--hashes") g_hashes = next();
        else if (a == "--faildir") g_faildir = next();
        else if (a == "--corpus-out") g_corpus_dir = next();
        else if (a == "--once-only") once_only = true;
        else if (a == "--dump-seeds") { dump_seeds = true; seeds_dir = next(); }
    }
    load_env();
    ::mkdir(g_faildir.c_str(), 0755);
    install_crash_handlers();

    if (dump_seeds) {
        ::mkdir(seeds_dir.c_str(), 0755);
        int k = 0;
        for (auto& t : seed_tapes()) write_file(seeds_dir + "/seed_" + std::to_string(k++) + ".tape", t.data(), t.size());
        return 0;
    }

    if (!replay.empty()) {
        auto bytes = read_file(replay);
        Ctx c;
        Res r = execute(bytes, c, true);
        // (printf, not std::cout: harnesses may silence the C++ streams the repository logs to)
        std::printf("CASE %s\n", c.desc.substr(0, 4000).c_str());
        if (r == Res::Fail) {
            std::printf("RESULT fail signature=%s\nMESSAGE %s\n", g.fail_sig.c_str(), g.fail_msg.c_str());
            std::fflush(stdout);
            return 2;
        }
        if (r == Res::Excluded) { std::printf("RESULT excluded\n"); std::fflush(stdout); return 0; }
        std::printf("RESULT pass nontrivial=%d\n", c.nontrivial ? 1 : 0);
        std::fflush(stdout);
        return 0;
    }

    // once-per-process (exhaustive) part
    {
        Ctx c;
        c.known = &g_known;
        c.excluded = &g.excluded;
        try {
            g.once_note = run_once(c);
        } catch (const CaseFailure& f) {
            g.failed = true;
            g.fail_sig = f.signature;
            g.fail_msg = f.message;
            g.fail_desc = "run_once (exhaustive part): " + c.desc.substr(0, 2000);
            g.fail_tape = "";
            dump_stats();
            std::fprintf(stderr, "FAIL(once) %s: %s\n", f.signature.c_str(), f.message.c_str());
            return 2;
        } catch (const CaseExcluded&) {
        }
        if (vclock::frozen()) vclock::unfreeze();
        vclock::rng_real();
    }
    if (once_only) { dump_stats(); return 0; }

    const double scale = std::max(0.01, static_cast<double>(kInfo.max_recs) / 100.0);
    auto byteGen = rc::gen::resize(100, rc::gen::inRange<int>(0, 256));
    bool ok = rc::check(std::string(kInfo.id), [&]() {
        std::vector<std::uint8_t> bytes;
        {
            auto hdr = *rc::gen::container<std::vector<int>>(kInfo.header, byteGen);
            for (int v : hdr) bytes.push_back(static_cast<std::uint8_t>(v));
        }
        if (kInfo.max_recs > 0) {
            auto recGen = rc::gen::container<std::vector<int>>(kInfo.rec, byteGen);
            auto recs = *rc::gen::scale(scale, rc::gen::container<std::vector<std::vector<int>>>(recGen));
            for (auto& r : recs) for (int v : r) bytes.push_back(static_cast<std::uint8_t>(v));
        }
        Ctx c;
        Res r = execute(bytes, c, !g_shrinking);
        if (r == Res::Fail) {
            g_shrinking = true;
            save_failure(bytes);
            RC_FAIL(g.fail_sig + ": " + g.fail_msg);
        }
    });
    if (!ok && !g.failed) {
        // rapidcheck gave up or failed for another reason (e.g. an exception out of the case)
        g.failed = true;
        g.fail_sig = std::string(kInfo.id) + ":harness-error";
        g.fail_msg = "rapidcheck reported failure without a CaseFailure";
    }
    if (g.failed && !g.fail_tape.empty()) {
        // re-run the minimal tape once so signature/description belong to the shrunk case
        auto bytes = read_file(g.fail_tape);
        Ctx c;
        execute(bytes, c, false);
    }
    dump_stats();
    return g.failed ? 2 : 0;
}
#endif

#ifdef VERIF_ENGINE_FUZZ
extern "C" int LLVMFuzzerInitialize(int*, char***) {
    g.t0 = std::chrono::steady_clock::now();
    load_env();
    g_watchdog_s = 0;  // libFuzzer has its own -timeout
    if (const char* o = std::getenv("VERIF_OUT")) g_out = o;
    if (const char* o = std::getenv("VERIF_HASHES")) g_hashes = o;
    if (const char* o = std::getenv("VERIF_FAILDIR")) g_faildir = o;
    std::signal(SIGPIPE, SIG_IGN);   // see install_crash_handlers()
    std::atexit(dump_stats);
    return 0;
}

extern "C" int LLVMFuzzerTestOneInput(const std::uint8_t* data, std::size_t size) {
    std::vector<std::uint8_t> bytes(data, data + size);
    Ctx c;
    Res r = execute(bytes, c, true);
    if (r == Res::Fail) {
        save_failure(bytes);
        dump_stats();
        std::fprintf(stderr, "VERIF-FAIL %s: %s\n", g.fail_sig.c_str(), g.fail_msg.c_str());
        __builtin_trap();
    }
    return 0;
}
#endif
