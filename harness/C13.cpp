// C13 — signed messages are accepted only with the exact MAC over the exact bytes
// Oracle: OpenSSL HMAC-SHA256 over buf[:-32] + plain decode of buf[:-32]; field values from the
// harness's independent decoder (msg_gen.hpp).
#define VERIF_FUZZ_TARGET 1
#include "verif.hpp"
#include "refs.hpp"
#include "msg_gen.hpp"

#include "ephemeralnet/protocol/Message.hpp"

// ASan's default 256 MB free-quarantine makes every allocation touch fresh pages (measured 3x slower here);
// cases are short-lived, 16 MB still covers many whole cases.  ASAN_OPTIONS from the environment still apply on top.
extern "C" const char* __asan_default_options() { return "quarantine_size_mb=16"; }

namespace verif {
using namespace msggen;
namespace P = ephemeralnet::protocol;

const PropertyInfo kInfo = {
    "C13", 20, 6, 10,
    "header -> message from the C15 generator (16 bytes, string/data lengths capped at 300), session key length from {32,0,16,64,65,100,1,31,33,63} (all-zero / random / trailing-zero content), "
    "base buffer = independent encoding + OpenSSL MAC, or the repository's encode_signed output.  Each 6-byte record mutates the current buffer cumulatively and the "
    "acceptance predicate is re-checked after every step: bit flip (region: any / version+type / body / MAC first half / MAC second half), overwrite of 1..8 bytes, "
    "truncate by 1..40 or by exactly 32, extend by 1..40 (zeros / random / repeated tail), swap of two bytes / two 4-byte blocks / MAC with the preceding 32 bytes / rotation, "
    "re-sign with the session key, re-sign with another key (bit flipped, zero byte appended, last byte dropped, random, SHA-256 of the key, empty), splice the MAC (or body) of "
    "another generated message, decode under another key, replace by a fresh signed message, rewrite version/type byte and re-sign, cut 1..40 body bytes and re-sign, "
    "wrap (append a valid MAC over the whole signed buffer).  Oracle: decode_signed(buf,key) has a value iff len >= 32 and OpenSSL-HMAC(key, buf[:-32]) == buf[-32:] and "
    "decode(buf[:-32]) has a value; an accepted message equals the independent decoder's reading of buf[:-32]; encode_signed ends with the OpenSSL MAC of what precedes it.  "
    "Non-trivial: at least one mutation applied.  Distinct = hash of the rendered case."};

namespace {
constexpr std::size_t kCap = 300;  // string / data length cap (keeps the 255..257 boundaries)
struct Verdict { bool mac_ok, accepted; };

Bytes alt_key(const Bytes& key, unsigned variant, Prng& prng, std::string& how) {
    Bytes k = key;
    switch (variant % 6) {
        case 0:
            if (k.empty()) { k.push_back(1); how = "key:=01"; }
            else { std::size_t i = prng.below(k.size() * 8); k[i / 8] ^= std::uint8_t(1u << (i % 8)); how = "key^bit" + std::to_string(i); }
            break;
        case 1: k.push_back(0); how = "key+00"; break;
        case 2: if (!k.empty()) k.pop_back(); else k.push_back(0xFF); how = "key-last"; break;
        case 3: k = prng.bytes(key.size() ? key.size() : 32); how = "key:=random"; break;
        case 4: { auto d = refs::sha256(key); k.assign(d.begin(), d.end()); how = "key:=sha256(key)"; break; }
        case 5: if (k.empty()) k = prng.bytes(32); else k.clear(); how = "key:=empty/other"; break;
    }
    return k;
}

Verdict check(Ctx& c, const Bytes& buf, const Bytes& key, const char* step) {
    bool mac_ok = false;
    std::optional<RMsg> rd;
    DecInfo di;
    bool plain_ok = false;
    if (buf.size() >= 32) {
        const std::size_t body = buf.size() - 32;
        auto mac = refs::hmac_sha256(key.data(), key.size(), buf.data(), body);
        mac_ok = std::equal(mac.begin(), mac.end(), buf.begin() + static_cast<std::ptrdiff_t>(body));
        if (mac_ok) {
            rd = ref_decode(buf.data(), body, di);
            ExactBuf pb(buf.data(), body);
            plain_ok = P::decode(pb.span()).has_value();
        }
    }
    const bool expect = mac_ok && plain_ok;
    ExactBuf eb(buf);
    ExactBuf ek(key);
    auto got = P::decode_signed(eb.span(), ek.span());
    const std::string ctx = std::string(" [after ") + step + ", len " + std::to_string(buf.size()) + ", key len " + std::to_string(key.size()) + "]";
    if (got.has_value() && !expect) {
        if (buf.size() < 32) c.fail("C13:accepts-buffer-shorter-than-mac", "decode_signed accepted a buffer shorter than a MAC" + ctx);
        if (!mac_ok) c.fail("C13:accepts-wrong-mac", "decode_signed accepted although the last 32 bytes are not HMAC-SHA256(key, preceding bytes)" + ctx);
        c.fail("C13:accepts-undecodable-body", "decode_signed accepted although decode() of the preceding bytes has no value" + ctx);
    }
    if (!got.has_value() && expect)
        c.fail("C13:rejects-correctly-signed-message", "decode_signed rejected a buffer whose last 32 bytes are the exact MAC of a decodable message" + ctx);
    if (got.has_value() && rd.has_value()) {
        if (auto d = diff(*got, *rd); !d.empty()) c.fail("C13:signed-decode-differs-from-signed-bytes", "accepted message differs from the signed bytes: " + d + ctx);
    }
    if (mac_ok && plain_ok != rd.has_value()) c.label("plain_decode_disagrees_with_reference");
    if (expect) c.label("step_accepted");
    else if (mac_ok) c.label("step_mac_ok_body_undecodable");
    else c.label("step_rejected_mac");
    return {mac_ok, expect};
}

void resign(Bytes& buf, const Bytes& key) {
    if (buf.size() >= 32) buf.resize(buf.size() - 32);
    buf = ref_sign(buf, key);
}
}  // namespace

void run_case(Ctx& c) {
    const Tape& t = c.tape;
    const RMsg m = gen_message(cfg_at(t, 0), kCap);
    const Bytes key = gen_key(t.h(16), t.h(17));
    const bool base_repo = t.h(18) & 1;
    c.note(describe(m));
    c.note("key=%zu:%s base=%s", key.size(), hex(key, 4).c_str(), base_repo ? "encode_signed" : "reference");
    c.label(key.size() > 64 ? "key_gt_block" : (key.empty() ? "key_empty" : "key_le_block"));

    // encode_signed: last 32 bytes are the OpenSSL MAC of everything before them
    Bytes repo_signed;
    {
        ExactBuf ek(key);
        repo_signed = P::encode_signed(to_repo(m), ek.span());
    }
    if (repo_signed.size() < 32) c.fail("C13:encode-signed-too-short", "encode_signed returned " + std::to_string(repo_signed.size()) + " bytes");
    {
        auto mac = refs::hmac_sha256(key.data(), key.size(), repo_signed.data(), repo_signed.size() - 32);
        if (!std::equal(mac.begin(), mac.end(), repo_signed.end() - 32))
            c.fail("C13:encode-signed-wrong-mac", "encode_signed's last 32 bytes " + hex(repo_signed.data() + repo_signed.size() - 32, 32, 32) +
                                                      " are not OpenSSL HMAC-SHA256(key, preceding bytes) " + hex(mac, 32));
    }

    Bytes buf = base_repo ? repo_signed : ref_sign(ref_encode(m), key);
    check(c, buf, key, "no mutation");

    const std::size_t n = std::min<std::size_t>(t.nrec(), 24);
    for (std::size_t i = 0; i < n; ++i) {
        Rec r = t.r(i);
        Prng prng(r.seed() ^ (i * 0x9E37ull));
        const std::size_t len = buf.size();
        const unsigned op = r.op() % 13;
        std::string what;
        Bytes probe_key;  // non-empty use => this step decodes under another key
        bool probe = false;
        switch (op) {
            case 0: {  // single-bit flip in a chosen region
                if (!len) { what = "flip(empty)"; break; }
                std::size_t lo = 0, hi = len;
                const std::size_t macs = len >= 32 ? len - 32 : 0;
                switch (r.a(0) % 5) {
                    case 1: hi = std::min<std::size_t>(2, len); break;
                    case 2: if (macs > 2) { lo = 2; hi = macs; } break;
                    case 3: if (len >= 32) { lo = macs; hi = macs + 16; } break;
                    case 4: if (len >= 32) { lo = macs + 16; hi = len; } break;
                }
                const std::size_t pos = lo + r.a16(1) % (hi - lo);
                buf[pos] ^= std::uint8_t(1u << (r.a(3) % 8));
                if (pos >= macs && len >= 32 && (r.a(4) & 3) == 0) {  // the same bit in a second MAC byte: the two differences cancel in an aggregating comparison
                    std::size_t other = macs + (pos - macs + 1 + r.a(4) / 4 % 31) % 32;
                    buf[other] ^= std::uint8_t(1u << (r.a(3) % 8));
                    c.label("flip_same_bit_in_two_mac_bytes");
                }
                what = "flip@" + std::to_string(pos) + (pos >= macs && len >= 32 ? "(mac+" + std::to_string(pos - macs) + ")" : pos < 2 ? "(hdr)" : "(body)");
                c.label(pos >= macs && len >= 32 ? (pos - macs >= 16 ? "flip_mac_second_half" : "flip_mac_first_half") : (pos < 2 ? "flip_header" : "flip_body"));
                break;
            }
            case 1: {  // overwrite a run of bytes (each really changes)
                if (!len) { what = "overwrite(empty)"; break; }
                const std::size_t pos = r.a16(1) % len, k = std::min<std::size_t>(1 + r.a(0) % 8, len - pos);
                for (std::size_t j = 0; j < k; ++j) buf[pos + j] ^= std::uint8_t(1 + prng.below(255));
                what = "overwrite@" + std::to_string(pos) + "x" + std::to_string(k);
                c.label("overwrite_multi_byte");
                break;
            }
            case 2: {  // truncate
                std::size_t k = (r.a(1) & 0x80) ? 32 : 1 + r.a(0) % 40;
                k = std::min(k, len);
                buf.resize(len - k);
                what = "truncate-" + std::to_string(k);
                c.label("truncate");
                break;
            }
            case 3: {  // extend
                const std::size_t k = 1 + r.a(0) % 40;
                for (std::size_t j = 0; j < k; ++j) {
                    switch (r.a(1) % 3) {
                        case 0: buf.push_back(0); break;
                        case 1: buf.push_back(prng.byte()); break;
                        case 2: buf.push_back(len ? buf[buf.size() - std::min(k, len)] : 0); break;
                    }
                }
                what = "extend+" + std::to_string(k) + "/" + std::to_string(r.a(1) % 3);
                c.label("extend");
                break;
            }
            case 4: {  // reorder
                if (len < 2) { what = "reorder(short)"; break; }
                switch (r.a(0) % 4) {
                    case 0: { std::size_t p = r.a16(1) % len, q = r.a16(3) % len; std::swap(buf[p], buf[q]); what = "swap " + std::to_string(p) + "," + std::to_string(q); break; }
                    case 1:
                        if (len >= 8) {
                            std::size_t p = r.a16(1) % (len - 3), q = r.a16(3) % (len - 3);
                            if (p + 4 <= q || q + 4 <= p) std::swap_ranges(buf.begin() + p, buf.begin() + p + 4, buf.begin() + q);
                            what = "swap4 " + std::to_string(p) + "," + std::to_string(q);
                        } else what = "swap4(short)";
                        break;
                    case 2:
                        if (len >= 64) { std::swap_ranges(buf.end() - 32, buf.end(), buf.end() - 64); what = "swap mac<->preceding32"; }
                        else what = "swapmac(short)";
                        break;
                    case 3: { std::size_t k = 1 + r.a16(1) % (len - 1); std::rotate(buf.begin(), buf.begin() + k, buf.end()); what = "rotate " + std::to_string(k); break; }
                }
                c.label("reorder");
                break;
            }
            case 5: resign(buf, key); what = "re-sign(session key)"; c.label("resign_same_key"); break;
            case 6: {  // MAC under a different key
                std::string how;
                Bytes k2 = alt_key(key, r.a(0), prng, how);
                resign(buf, k2);
                what = "re-sign(" + how + ")";
                c.label("resign_other_key");
                break;
            }
            case 7: {  // splice with another message signed under the same key
                RMsg other = gen_message(cfg_from(r.p + 1, r.n > 1 ? r.n - 1 : 0), kCap);
                other.chunk[0] ^= 0x5A;  // never the same message
                Bytes os = ref_sign(ref_encode(other), key);
                if (len >= 32) {
                    if (r.a(4) & 1) { Bytes nb(os.begin(), os.end() - 32); nb.insert(nb.end(), buf.end() - 32, buf.end()); buf = nb; what = "body of " + describe(other) + " + this MAC"; }
                    else { std::copy(os.end() - 32, os.end(), buf.end() - 32); what = "MAC of " + describe(other); }
                } else { buf = os; what = "replace by " + describe(other); }
                c.label("splice");
                break;
            }
            case 8: {  // decode the current buffer under another key
                std::string how;
                probe_key = alt_key(key, r.a(0), prng, how);
                probe = true;
                what = "decode under " + how;
                break;
            }
            case 9: {  // start again from a fresh valid buffer
                RMsg other = gen_message(cfg_from(r.p + 1, r.n > 1 ? r.n - 1 : 0), kCap);
                buf = ref_sign(ref_encode(other), key);
                what = "fresh " + describe(other);
                c.label("fresh_signed");
                break;
            }
            case 10: {  // rewrite version or type byte, then sign correctly
                if (len >= 34) {
                    if (r.a(1) & 1) buf[1] = static_cast<std::uint8_t>(r.a(0) % 9);
                    else buf[0] = (r.a(0) & 0x80) ? r.a(2) : static_cast<std::uint8_t>(r.a(0) % 7);
                    what = (r.a(1) & 1) ? "type:=" + std::to_string(buf[1]) : "version:=" + std::to_string(buf[0]);
                } else what = "hdr-rewrite(short)";
                resign(buf, key);
                what += " + re-sign";
                c.label("header_rewrite_resigned");
                break;
            }
            case 11: {  // cut bytes off the body, then sign correctly
                if (len >= 32) {
                    const std::size_t body = len - 32, k = std::min<std::size_t>(1 + r.a(0) % 40, body);
                    buf.erase(buf.begin() + static_cast<std::ptrdiff_t>(body - k), buf.begin() + static_cast<std::ptrdiff_t>(body));
                    what = "cut body-" + std::to_string(k);
                } else what = "cut(short)";
                resign(buf, key);
                what += " + re-sign";
                c.label("body_cut_resigned");
                break;
            }
            case 12: buf = ref_sign(buf, key); what = "wrap (MAC over the whole signed buffer appended)"; c.label("wrap"); break;
        }
        c.note("| %s", what.c_str());
        c.nt("mutated");
        if (probe) {
            Verdict v = check(c, buf, probe_key, what.c_str());
            if (v.accepted && probe_key != key) c.label("equivalent_key_accepted");
            else c.label("other_key_rejected");
        } else {
            check(c, buf, key, what.c_str());
        }
    }
}

std::string run_once(Ctx& c) {
    auto s = refs::self_check();
    if (!s.empty()) c.fail("C13:harness-error", "reference self-check failed: " + s);
    return "reference self-checks (FIPS 180-4, RFC 4231) passed";
}
}  // namespace verif
