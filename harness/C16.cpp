// C16 — protocol decoding is total and memory-safe (tape-fuzz primary; ASan+UBSan, exact-size heap inputs)
// Oracle: sanitizers + no exception + accepted => re-encoding is a prefix of the (boolean-canonicalised)
// input and every field equals what the harness's independent decoder (msg_gen.hpp) reads from the
// same bytes; signed acceptance => OpenSSL MAC predicate of C13.
#define VERIF_FUZZ_TARGET 1
#include "verif.hpp"
#include "refs.hpp"
#include "msg_gen.hpp"

#include "ephemeralnet/protocol/Message.hpp"

#include <exception>
#include <typeinfo>

// ASan's default 256 MB free-quarantine makes every allocation touch fresh pages (measured 3x slower here);
// cases are short-lived, 16 MB still covers many whole cases.  ASAN_OPTIONS from the environment still apply on top.
extern "C" const char* __asan_default_options() { return "quarantine_size_mb=16"; }

namespace verif {
using namespace msggen;
namespace P = ephemeralnet::protocol;

namespace {
constexpr std::size_t kH = 20;     // mode, key selector, key seed, flags, 16 message-configuration bytes
constexpr std::size_t kRec = 4;
constexpr std::size_t kMaxRecs = 48;
}

const PropertyInfo kInfo = {
    "C16", kH, kRec, kMaxRecs,
    "tape = 20 header bytes + body.  mode (header[0] % 4): 0 = the body bytes are the decoder input verbatim (libFuzzer's mode; seeded with encodings of every type x version, "
    "one-short truncations and 2^32-sized length fields; dictionary of be32 lengths near 2^31/2^32 and version/type pairs); 1 = body verbatim but version forced into 1..4, type into 1..6 "
    "and (flag) the three high bytes of each length field cleared, so random bodies reach the field parsers; 2,3 = independent encoding of a C15-generator message (lengths <= 300) then 0..4 "
    "4-byte mutation records: set a length field to {2^32-1, 2^32-2, 2^31, 2^31-1, 2^32-16, 256, cur+1, cur-1, bytes left, bytes left+1, 0, 65536}, 32-bit wrap pair (endpoint_len += 2^32-d, "
    "manifest_len += d), truncate by 1..40 / to one byte short, extend by 1..40, bit flip, byte set, version / type rewrite, length field +-1..2, boolean byte rewrite.  "
    "flag bit 0: also present input||OpenSSL-HMAC(key,input) to decode_signed.  Key length from {32,0,16,64,65,100,...}.  Inputs are handed over in exact-size heap buffers.  "
    "Oracle: no sanitizer report, no exception; decode accepts => encode(decoded) is a prefix of the input with the ACK/HandshakeAck boolean byte canonicalised, the input is not shorter than "
    "the fields it declares, and every decoded field equals the slice the independent decoder extracts; decode_signed accepts => len >= 32, last 32 bytes are the OpenSSL MAC of the rest, "
    "decode of the rest accepts, same fields.  Non-trivial: input accepted by decode, or rejected after >= 1 length field was read.  Distinct = hash of the input bytes + key."};

namespace {
const char* rej_name(Rej r) {
    switch (r) {
        case Rej::None: return "none";
        case Rej::TooShortHeader: return "reject_lt_2_bytes";
        case Rej::BadVersion: return "reject_version";
        case Rej::BadType: return "reject_type";
        case Rej::ShortFixed: return "reject_short_fixed_part";
        case Rej::ShortVariable: return "reject_after_length_fields";
    }
    return "?";
}

std::string exc_text() {
    try { throw; }
    catch (const CaseFailure&) { throw; }
    catch (const CaseExcluded&) { throw; }
    catch (const std::exception& e) { return std::string(typeid(e).name()) + ": " + e.what(); }
    catch (...) { return "non-std exception"; }
}

// accepted => verbatim.  `in` is what decode() saw.
void judge_accepted(Ctx& c, const P::Message& d, const Bytes& in, const char* path) {
    DecInfo di;
    auto rd = ref_decode(in, di);
    const std::string ctx = std::string(" [") + path + ", input " + std::to_string(in.size()) + " B: " + hex(in, 24) + "]";
    if (!rd.has_value() && (di.why == Rej::TooShortHeader || di.why == Rej::ShortFixed || di.why == Rej::ShortVariable))
        c.fail("C16:accepts-input-shorter-than-its-fields", std::string("decode accepted an input that is shorter than the fields it declares (") + rej_name(di.why) + ")" + ctx);
    Bytes re;
    try { re = P::encode(d); }
    catch (...) { c.fail("C16:exception", "encode(decoded) threw " + exc_text() + ctx); }
    Bytes canon = in;
    if (canon.size() > 2 && (canon[1] == T_ACK || canon[1] == T_HSACK)) {
        if (canon[2] > 1) c.label("bool_byte_noncanonical");
        canon[2] = canon[2] ? 1 : 0;
    }
    if (re.size() > canon.size() || !std::equal(re.begin(), re.end(), canon.begin())) {
        std::size_t i = 0;
        while (i < re.size() && i < canon.size() && re[i] == canon[i]) ++i;
        c.fail("C16:reencode-not-prefix-of-input", "encode(decode(input)) (" + std::to_string(re.size()) + " B) is not a prefix of the input; first difference at offset " +
                                                       std::to_string(i) + ctx);
    }
    if (rd.has_value()) {
        if (auto df = diff(d, *rd); !df.empty()) c.fail("C16:decoded-field-not-verbatim", "decoded field differs from the input slice: " + df + ctx);
        if (di.consumed < in.size()) c.label("accepted_with_trailing_bytes");
    }
}

void judge(Ctx& c, const Bytes& in, const Bytes& key, bool sign) {
    DecInfo di;
    auto rd = ref_decode(in, di);

    // --- plain decode
    std::optional<P::Message> d;
    try {
        ExactBuf eb(in);
        d = P::decode(eb.span());
    } catch (...) {
        c.fail("C16:exception", "decode threw " + exc_text() + " on " + std::to_string(in.size()) + " B: " + hex(in, 24));
    }
    if (d.has_value()) {
        judge_accepted(c, *d, in, "decode");
        c.nt("accepted");
        static const char* kAcc[] = {"accepted_type?", "accepted_announce", "accepted_request", "accepted_chunk", "accepted_ack", "accepted_handshake", "accepted_hsack"};
        c.label(kAcc[in[1] <= 6 ? in[1] : 0]);
    } else {
        c.label(rej_name(di.why));
        if (rd.has_value()) c.label("rejected_but_reference_accepts");
        if (di.length_fields_read > 0 && di.why == Rej::ShortVariable) c.nt("rejected_after_length_fields");
    }
    if (di.near_2_32) c.label("length_field_ge_2^31");

    // --- signed decode: the input as it is, and (flag) the input followed by its exact MAC
    for (int pass = 0; pass < (sign ? 2 : 1); ++pass) {
        const Bytes s = pass == 0 ? in : ref_sign(in, key);
        std::optional<P::Message> ds;
        try {
            ExactBuf eb(s);
            ExactBuf ek(key);
            ds = P::decode_signed(eb.span(), ek.span());
        } catch (...) {
            c.fail("C16:exception", "decode_signed threw " + exc_text() + " on " + std::to_string(s.size()) + " B: " + hex(s, 24));
        }
        if (!ds.has_value()) continue;
        const std::string ctx = " [decode_signed, input " + std::to_string(s.size()) + " B, key " + std::to_string(key.size()) + " B]";
        if (s.size() < 32) c.fail("C16:signed-accepts-outside-predicate", "decode_signed accepted fewer than 32 bytes" + ctx);
        const Bytes body(s.begin(), s.end() - 32);
        auto mac = refs::hmac_sha256(key.data(), key.size(), body.data(), body.size());
        if (!std::equal(mac.begin(), mac.end(), s.end() - 32))
            c.fail("C16:signed-accepts-outside-predicate", "decode_signed accepted although the last 32 bytes are not the HMAC of the rest" + ctx);
        bool plain = false;
        try {
            ExactBuf pb(body);
            plain = P::decode(pb.span()).has_value();
        } catch (...) {
            c.fail("C16:exception", "decode threw " + exc_text());
        }
        if (!plain) c.fail("C16:signed-accepts-outside-predicate", "decode_signed accepted although decode of the signed bytes has no value" + ctx);
        judge_accepted(c, *ds, body, "decode_signed");
        c.label("signed_accepted");
    }
}

const std::uint32_t kLenTable[] = {0xFFFFFFFFu, 0xFFFFFFFEu, 0x80000000u, 0x7FFFFFFFu, 0xFFFFFFF0u, 0x100u};

void wr32(Bytes& b, std::size_t off, std::uint32_t v) {
    if (off + 4 > b.size()) return;
    b[off] = std::uint8_t(v >> 24); b[off + 1] = std::uint8_t(v >> 16); b[off + 2] = std::uint8_t(v >> 8); b[off + 3] = std::uint8_t(v);
}
std::uint32_t rd32(const Bytes& b, std::size_t off) { return off + 4 <= b.size() ? be32(b.data() + off) : 0; }

// offset of length/ttl field `which` for the type byte currently in the buffer
std::size_t field_off(const Bytes& b, unsigned which) {
    if (b.size() > 1 && b[1] == T_CHUNK) return 2 + 4 * (which % 2);
    return 2 + 4 * (which % 4);
}

void mutate(Ctx& c, Bytes& b, Rec r, Prng& prng) {
    const std::size_t len = b.size();
    std::string what;
    switch (r.op() % 10) {
        case 0: {
            const std::size_t off = field_off(b, r.a(0));
            const std::uint32_t cur = rd32(b, off);
            const std::uint64_t left = len > off + 4 ? len - off - 4 : 0;
            std::uint32_t v;
            switch (r.a(1) % 12) {
                case 6: v = cur + 1; break;
                case 7: v = cur - 1; break;
                case 8: v = static_cast<std::uint32_t>(left); break;
                case 9: v = static_cast<std::uint32_t>(left + 1); break;
                case 10: v = 0; break;
                case 11: v = 0x10000u; break;
                default: v = kLenTable[r.a(1) % 12]; break;
            }
            wr32(b, off, v);
            what = "len@" + std::to_string(off) + ":=" + std::to_string(v);
            c.label("mut_length_field");
            break;
        }
        case 1: {
            if (len > 1 && b[1] == T_ANNOUNCE && len >= 18) {
                const std::uint32_t d = 1 + r.a16(0);
                wr32(b, 6, rd32(b, 6) - d);   // + (2^32 - d)
                wr32(b, 10, rd32(b, 10) + d);
                what = "wrap-pair d=" + std::to_string(d);
                c.label("mut_wrap_pair");
            } else if (len > 1 && b[1] == T_CHUNK && len >= 10) {
                wr32(b, 6, rd32(b, 6) + 0x80000000u);
                what = "chunk len+2^31";
            } else what = "wrap(n/a)";
            break;
        }
        case 2: {
            std::size_t k = std::min<std::size_t>((r.a(1) & 0x80) ? 1 : 1 + r.a(0) % 40, len);
            b.resize(len - k);
            what = "truncate-" + std::to_string(k);
            c.label("mut_truncate");
            break;
        }
        case 3: {
            const std::size_t k = 1 + r.a(0) % 40;
            for (std::size_t j = 0; j < k; ++j) b.push_back((r.a(1) & 1) ? prng.byte() : 0);
            what = "extend+" + std::to_string(k);
            c.label("mut_extend");
            break;
        }
        case 4:
            if (len) { const std::size_t bit = r.a16(0) % (len * 8); b[bit / 8] ^= std::uint8_t(1u << (bit % 8)); what = "flip bit " + std::to_string(bit); }
            break;
        case 5:
            if (len) { const std::size_t p = r.a16(0) % len; b[p] = r.a(2); what = "byte@" + std::to_string(p) + ":=" + std::to_string(r.a(2)); }
            break;
        case 6:
            if (len) { b[0] = (r.a(0) & 0x80) ? r.a(1) : static_cast<std::uint8_t>(r.a(0) % 7); what = "version:=" + std::to_string(b[0]); }
            c.label("mut_version");
            break;
        case 7:
            if (len > 1) { b[1] = static_cast<std::uint8_t>(r.a(0) % 9); what = "type:=" + std::to_string(b[1]); }
            c.label("mut_type");
            break;
        case 8: {
            const std::size_t off = field_off(b, r.a(0));
            const std::int32_t delta = static_cast<std::int32_t>(r.a(1) % 5) - 2;
            wr32(b, off, rd32(b, off) + static_cast<std::uint32_t>(delta));
            what = "len@" + std::to_string(off) + (delta >= 0 ? "+" : "") + std::to_string(delta);
            c.label("mut_length_plus_minus");
            break;
        }
        case 9:
            if (len > 2) { b[2] = r.a(0); what = "byte2:=" + std::to_string(b[2]); }
            break;
    }
    c.note("| %s", what.c_str());
}

Bytes tape_for_raw(const Bytes& input, bool sign, std::uint8_t keysel) {
    Bytes t(kH, 0);
    t[0] = 0;
    t[1] = keysel;
    t[2] = 7;
    t[3] = sign ? 1 : 0;
    t.insert(t.end(), input.begin(), input.end());
    return t;
}
}  // namespace

void run_case(Ctx& c) {
    const Tape& t = c.tape;
    const unsigned mode = t.h(0) % 4;
    const Bytes key = gen_key(t.h(1), t.h(2));
    const bool sign = t.h(3) & 1;
    Bytes in;
    if (mode <= 1) {
        if (t.bytes.size() > kH) in.assign(t.bytes.begin() + kH, t.bytes.end());
        if (mode == 1) {
            if (in.size() > 0) in[0] = static_cast<std::uint8_t>(1 + in[0] % 4);
            if (in.size() > 1) in[1] = static_cast<std::uint8_t>(1 + in[1] % 6);
            if ((t.h(3) & 2) && in.size() > 1) {
                const std::size_t first = in[1] == T_ANNOUNCE ? 6 : (in[1] == T_CHUNK ? 6 : 0), count = in[1] == T_ANNOUNCE ? 3 : (in[1] == T_CHUNK ? 1 : 0);
                for (std::size_t f = 0; f < count; ++f)
                    for (std::size_t j = 0; j < 3; ++j)
                        if (first + 4 * f + j < in.size()) in[first + 4 * f + j] = 0;
            }
        }
        c.label(mode == 0 ? "mode_raw" : "mode_raw_patched");
    } else {
        const RMsg m = gen_message(cfg_at(t, 4), 300);
        in = ref_encode(m);
        c.note(describe(m));
        const std::size_t ops = std::min<std::size_t>(t.nrec(), (t.h(0) >> 2) % 5);
        for (std::size_t i = 0; i < ops; ++i) {
            Rec r = t.r(i);
            Prng prng(r.seed() + i);
            mutate(c, in, r, prng);
        }
        c.label(ops ? "mode_encoded_mutated" : "mode_encoded_intact");
    }
    c.note("in=%zu:%s key=%zu:%s sign=%d", in.size(), hex(in, 40).c_str(), key.size(), hex(key, 4).c_str(), sign ? 1 : 0);
    // distinct counting is by the input bytes, not by the rendering prefix
    c.note("h=%016llx", static_cast<unsigned long long>(fnv(std::string(in.begin(), in.end()))));
    judge(c, in, key, sign);
}

std::vector<std::vector<std::uint8_t>> seed_tapes() {
    std::vector<std::vector<std::uint8_t>> out;
    unsigned k = 0;
    for (std::uint8_t type = 0; type < 6; ++type) {
        for (std::uint8_t version : {1, 2, 3, 4}) {
            Cfg g{};
            static const std::uint8_t pick[6] = {1, 0, 2, 3, 4, 5};   // indices into the generator's type table
            g[0] = pick[type];
            g[1] = version;
            g[3] = static_cast<std::uint8_t>(17 + k);
            g[7] = 0x85; g[9] = 0x04; g[10] = 9; g[11] = 0x84;        // short strings / 3 shards
            g[13] = 0x84; g[14] = 0x8A; g[15] = static_cast<std::uint8_t>(1 | (version << 3));
            RMsg m = gen_message(g, 64);
            Bytes e = ref_encode(m);
            out.push_back(tape_for_raw(e, (k & 1) != 0, static_cast<std::uint8_t>(k)));
            if ((type == 0 || type == 2) && e.size() > 3) {
                Bytes shorter(e.begin(), e.end() - 1);
                out.push_back(tape_for_raw(shorter, false, 0));
                Bytes huge = e;
                wr32(huge, 6, 0xFFFFFFFFu);
                out.push_back(tape_for_raw(huge, false, 0));
                Bytes longer = e;
                longer.push_back(0xEE);
                out.push_back(tape_for_raw(longer, true, 0));
            }
            ++k;
        }
    }
    // structured-mode seeds
    for (std::uint8_t s = 0; s < 8; ++s) {
        Bytes t(kH + 8, 0);
        t[0] = static_cast<std::uint8_t>(2 + 4 * (s % 3));
        t[3] = s & 1;
        t[4] = s; t[5] = static_cast<std::uint8_t>(1 + s % 4); t[7] = s;
        t[kH] = s; t[kH + 1] = 1; t[kH + 2] = s;
        out.push_back(t);
    }
    return out;
}

std::string run_once(Ctx& c) {
    auto s = refs::self_check();
    if (!s.empty()) c.fail("C16:harness-error", "reference self-check failed: " + s);
    // every seed that is an intact encoding must be accepted by the independent decoder
    std::size_t n = 0;
    for (auto& t : seed_tapes()) {
        if (t[0] != 0 || t.size() <= kH) continue;
        DecInfo di;
        Bytes in(t.begin() + kH, t.end());
        if (ref_decode(in, di).has_value()) ++n;
    }
    if (n < 24) c.fail("C16:harness-error", "seed encodings not accepted by the independent decoder: " + std::to_string(n));
    return "reference self-checks passed; " + std::to_string(n) + " seed encodings (6 types x versions 1..4 and variants) accepted by the independent decoder";
}
}  // namespace verif
