// C19 — proof-of-work checks accept exactly the nonces that meet the target.
// Oracle: OpenSSL SHA-256 over a reference field encoding written here (not taken from the code under test)
// + a bit-loop leading-zero count; expected verdict = (zeros >= effective difficulty).
#define VERIF_FUZZ_TARGET 1
#include "verif.hpp"
#include "refs.hpp"
#include "shim_main.hpp"
#include "shim_pow.hpp"

#include "ephemeralnet/bootstrap/TokenChallenge.hpp"
#include "ephemeralnet/crypto/Sha256.hpp"
#include "ephemeralnet/protocol/Manifest.hpp"
#include "ephemeralnet/security/StoreProof.hpp"

#include <algorithm>
#include <optional>
#include <span>

namespace verif {
const PropertyInfo kInfo = {
    "C19", 21, 8, 6,
    "tape -> one surface per case (handshake: node + CLI validators and both solvers / announce / store / bootstrap token); field values "
    "expanded from a seed: 32-byte ids (random, all-0, all-FF, equal), public key from {0,1,2,2^31-1,2^31,2^32-2,2^32-1} or random, "
    "endpoint/URI/filename strings with length from {0,1,2,47,55,56,63,64,119,120,255,256,1024} or <=300 (printable, arbitrary bytes incl. NUL, "
    "or typical text; at most 24 bytes when the solver difficulty is >= 9), shard lists of {0,1,2,255,256,300} or <=40 bytes, TTL from {0,1,-1,3600,86400,2^32,2^63-1,-2^63} or random, size from "
    "{0,1,2^32-1,2^32,2^63,2^64-1} or random; solver difficulty 0..8 (90%), 9..12 (9%), 13..15 (1.1%), 16..18 (0.05%); solver attempt budget from "
    "{default,1,2,100,4096,500000}. One implicit probe (solver nonce at the solver difficulty) + one probe per record: nonce in {solver's, "
    "solver+1, solver-1, random 64-bit, small, 0, 2^64-1, the other handshake solver's}; optional single-field metamorphic mutation after "
    "solving, 3/4 of them probing the solver's nonce (bit flip in an id / key / TTL / size, swap two ids, append / drop / flip a string byte, move one byte across a field boundary); "
    "difficulty in {solver's, 23..25, L, L+1, 255, 0, 1, raw 0..255} and always also {0, L-1, L, L+1, 24, 25, 255} where L = reference zero "
    "count of that probe's digest.  Oracle: validator(fields, nonce, d) == (d == 0 or L >= d), with d capped at 24 for store_pow_valid; for "
    "the handshake/announce helpers, which Node caps in its Config rather than in the helper, d > 24 is asserted only where the capped and "
    "uncapped readings agree.  Every nonce a solver returns must have L >= its effective difficulty (CLI solver judged by the node validator too). "
    "Counters: each case also compares the four leading-zero counters on a structured digest (k zero bits, a one bit, tail random/0/1) and a random one. "
    "Non-trivial: a probe with L >= 1 (accept at d = L and reject at d = L + 1 are both asserted: the last required bit decides), a solver "
    "nonce whose L equals the target, or a metamorphic mutation that changed the encoding.  Distinct = hash of the decoded case."};

namespace {
using Id = std::array<std::uint8_t, 32>;
using refs::Bytes;

enum Surface { kHandshake = 0, kAnnounce = 1, kStore = 2, kToken = 3 };
const char* kSurfaceName[] = {"handshake", "announce", "store", "token"};

struct Fields {
    Id a{};                // handshake: initiator   announce: chunk id   store: chunk id   token: chunk id
    Id b{};                // handshake: responder   announce: peer id                      token: chunk hash
    std::uint32_t pub = 0;  // handshake: initiator public key
    std::string s1;        // announce: endpoint   store: filename   token: hint endpoint
    std::string s2;        // announce: manifest URI
    Bytes shards;          // announce: assigned shard indices
    std::int64_t ttl = 0;  // announce: TTL seconds
    std::uint64_t size = 0;  // store: payload size
};

// ---- reference encodings (one per surface) -----------------------------------------------------------
void put_lp64(Bytes& out, const std::uint8_t* p, std::size_t n) {  // 8-byte big-endian length, then the bytes
    refs::put_be64(out, static_cast<std::uint64_t>(n));
    out.insert(out.end(), p, p + n);
}
void put_lp64(Bytes& out, const std::string& s) { put_lp64(out, reinterpret_cast<const std::uint8_t*>(s.data()), s.size()); }

Bytes ref_encoding(Surface s, const Fields& f, std::uint64_t nonce) {
    Bytes m;
    switch (s) {
        case kHandshake:  // peer ids and public key
            put_lp64(m, f.a.data(), 32);
            put_lp64(m, f.b.data(), 32);
            refs::put_be64(m, f.pub);
            break;
        case kAnnounce:  // chunk id, peer, endpoint, manifest, shard list, TTL
            put_lp64(m, f.a.data(), 32);
            put_lp64(m, f.b.data(), 32);
            put_lp64(m, f.s1);
            put_lp64(m, f.s2);
            put_lp64(m, f.shards.data(), f.shards.size());
            refs::put_be64(m, static_cast<std::uint64_t>(f.ttl));
            break;
        case kStore:  // chunk id, size, filename (4-byte length)
            m.insert(m.end(), f.a.begin(), f.a.end());
            refs::put_be64(m, f.size);
            refs::put_be32(m, static_cast<std::uint32_t>(f.s1.size()));
            m.insert(m.end(), f.s1.begin(), f.s1.end());
            break;
        case kToken:  // chunk id, hash, endpoint (raw concatenation)
            m.insert(m.end(), f.a.begin(), f.a.end());
            m.insert(m.end(), f.b.begin(), f.b.end());
            m.insert(m.end(), f.s1.begin(), f.s1.end());
            break;
    }
    refs::put_be64(m, nonce);
    return m;
}

unsigned ref_zeros(Surface s, const Fields& f, std::uint64_t nonce, refs::Digest* out = nullptr) {
    auto d = refs::sha256(ref_encoding(s, f, nonce));
    if (out) *out = d;
    return refs::leading_zero_bits(d.data(), d.size());
}

// 1 = must accept, 0 = must reject, -1 = the stated property does not decide (capped vs uncapped helper)
int expected_verdict(Surface s, unsigned L, unsigned d) {
    if (d == 0) return 1;
    switch (s) {
        case kStore: return L >= std::min(d, 24u) ? 1 : 0;
        case kToken: return L >= d ? 1 : 0;
        default:
            if (d <= 24) return L >= d ? 1 : 0;
            if (L < 24) return 0;
            if (L >= d) return 1;
            return -1;
    }
}

// ---- the code under test, per surface ------------------------------------------------------------------
shim_pow::AnnounceFields to_announce(const Fields& f) {
    shim_pow::AnnounceFields a;
    a.chunk_id = f.a;
    a.peer_id = f.b;
    a.endpoint = f.s1;
    a.manifest_uri = f.s2;
    a.shards = f.shards;
    a.ttl_seconds = f.ttl;
    return a;
}
ephemeralnet::security::StoreWorkInput to_store(const Fields& f) {
    ephemeralnet::security::StoreWorkInput in;
    in.chunk_id = f.a;
    in.payload_size = f.size;
    in.filename_hint = std::string_view(f.s1);
    return in;
}

struct Verdict {
    const char* who;
    bool accepted;
};
// every validator of the surface
std::vector<Verdict> validators(Surface s, const Fields& f, std::uint64_t nonce, std::uint8_t d) {
    switch (s) {
        case kHandshake:
            return {{"Node.cpp handshake_pow_valid", shim_pow::node_handshake_pow_valid(f.a, f.b, f.pub, nonce, d)},
                    {"main.cpp transport_pow_valid", shim_main::cli_transport_pow_valid(f.a, f.b, f.pub, nonce, d)}};
        case kAnnounce:
            return {{"Node.cpp announce_pow_valid", shim_pow::node_announce_pow_valid(to_announce(f), nonce, d)}};
        case kStore:
            return {{"store_pow_valid", ephemeralnet::security::store_pow_valid(to_store(f), nonce, d)}};
        case kToken: {
            // there is no separate token validator in the tree: acceptance is digest_meets_difficulty over the
            // SHA-256 of the token material (what solve_token_challenge tests)
            Bytes m = ref_encoding(kToken, f, nonce);
            auto dg = ephemeralnet::crypto::Sha256::digest(std::span<const std::uint8_t>(m.data(), m.size()));
            return {{"digest_meets_difficulty", ephemeralnet::bootstrap::digest_meets_difficulty(dg, d)}};
        }
    }
    return {};
}

std::string impl_digest_hex(Surface s, const Fields& f, std::uint64_t nonce) {  // diagnostics only
    switch (s) {
        case kHandshake: return "node " + hex(shim_pow::node_handshake_digest(f.a, f.b, f.pub, nonce), 32) + " cli " +
                                hex(shim_main::cli_transport_handshake_digest(f.a, f.b, f.pub, nonce), 32);
        case kAnnounce: return hex(shim_pow::node_announce_digest(to_announce(f), nonce), 32);
        case kStore: return hex(shim_pow::store_pow_digest(f.a, f.size, f.s1, nonce), 32);
        default: return "-";
    }
}

// ---- generators -----------------------------------------------------------------------------------------
const std::int64_t kStrLen[] = {0, 1, 2, 47, 55, 56, 63, 64, 119, 120, 255, 256, 1024};
const std::int64_t kShardLen[] = {0, 1, 2, 255, 256, 300};
const char* kTypical[] = {"203.0.113.7:45000", "control://198.51.100.20:47777", "eph://AAECAwQFBgcICQoLDA0ODw", "report-2026.pdf",
                          "[2001:db8::1]:45000", "a"};

std::string gen_string(std::uint8_t sel, std::uint32_t v, Prng& g, std::size_t cap) {
    std::size_t len = std::min(cap, static_cast<std::size_t>(boundary_int(sel, v, kStrLen, 0, 300)));
    unsigned mode = static_cast<unsigned>(g.below(3));
    if (sel == 0) return {};
    std::string s;
    if (mode == 2) {
        s = kTypical[g.below(6)];
        if (!(sel & 0x80)) { if (s.size() > cap) s.resize(cap); return s; }
    }
    while (s.size() < len) s.push_back(mode == 1 ? static_cast<char>(g.byte()) : static_cast<char>(0x20 + g.below(95)));
    s.resize(len);
    return s;
}

Id gen_id(unsigned shape, Prng& g) {
    Id id{};
    switch (shape) {
        case 1: break;                      // all zero
        case 2: id.fill(0xFF); break;
        default: g.fill(id.data(), 32);
    }
    return id;
}

std::string show(const std::string& s) {
    return "\"" + hex(s, 12) + "\"/" + std::to_string(s.size());
}

struct Mutation {
    const char* name;
    bool (*apply)(Fields&, unsigned arg);  // false = not applicable (left unchanged)
};
bool flip_id(Id& id, unsigned arg) { id[(arg / 8) % 32] ^= static_cast<std::uint8_t>(1u << (arg % 8)); return true; }
bool str_append(std::string& s, unsigned arg) { s.push_back(static_cast<char>(arg)); return true; }
bool str_drop(std::string& s, unsigned) { if (s.empty()) return false; s.pop_back(); return true; }
bool str_flip(std::string& s, unsigned arg) { if (s.empty()) return false; s[(arg / 8) % s.size()] ^= static_cast<char>(1u << (arg % 8)); return true; }

const Mutation kMutHandshake[] = {
    {"flip-initiator-bit", [](Fields& f, unsigned a) { return flip_id(f.a, a); }},
    {"flip-responder-bit", [](Fields& f, unsigned a) { return flip_id(f.b, a); }},
    {"flip-public-key-bit", [](Fields& f, unsigned a) { f.pub ^= 1u << (a % 32); return true; }},
    {"swap-initiator-responder", [](Fields& f, unsigned) { std::swap(f.a, f.b); return true; }},
};
const Mutation kMutAnnounce[] = {
    {"flip-chunk-id-bit", [](Fields& f, unsigned a) { return flip_id(f.a, a); }},
    {"flip-peer-id-bit", [](Fields& f, unsigned a) { return flip_id(f.b, a); }},
    {"swap-chunk-peer", [](Fields& f, unsigned) { std::swap(f.a, f.b); return true; }},
    {"endpoint-append", [](Fields& f, unsigned a) { return str_append(f.s1, a); }},
    {"endpoint-drop-last", [](Fields& f, unsigned a) { return str_drop(f.s1, a); }},
    {"endpoint-flip-bit", [](Fields& f, unsigned a) { return str_flip(f.s1, a); }},
    {"uri-append", [](Fields& f, unsigned a) { return str_append(f.s2, a); }},
    {"uri-drop-last", [](Fields& f, unsigned a) { return str_drop(f.s2, a); }},
    {"uri-flip-bit", [](Fields& f, unsigned a) { return str_flip(f.s2, a); }},
    {"move-byte-endpoint-to-uri", [](Fields& f, unsigned) {
         if (f.s1.empty()) return false;
         f.s2.insert(f.s2.begin(), f.s1.back()); f.s1.pop_back(); return true; }},
    {"move-byte-uri-to-endpoint", [](Fields& f, unsigned) {
         if (f.s2.empty()) return false;
         f.s1.push_back(f.s2.front()); f.s2.erase(f.s2.begin()); return true; }},
    {"move-byte-uri-to-shards", [](Fields& f, unsigned) {
         if (f.s2.empty()) return false;
         f.shards.insert(f.shards.begin(), static_cast<std::uint8_t>(f.s2.back())); f.s2.pop_back(); return true; }},
    {"swap-endpoint-uri", [](Fields& f, unsigned) { std::swap(f.s1, f.s2); return true; }},
    {"shards-append", [](Fields& f, unsigned a) { f.shards.push_back(static_cast<std::uint8_t>(a)); return true; }},
    {"shards-drop-last", [](Fields& f, unsigned) { if (f.shards.empty()) return false; f.shards.pop_back(); return true; }},
    {"shards-flip-bit", [](Fields& f, unsigned a) {
         if (f.shards.empty()) return false;
         f.shards[(a / 8) % f.shards.size()] ^= static_cast<std::uint8_t>(1u << (a % 8)); return true; }},
    {"ttl-flip-bit", [](Fields& f, unsigned a) { f.ttl = static_cast<std::int64_t>(static_cast<std::uint64_t>(f.ttl) ^ (1ull << (a % 64))); return true; }},
    {"ttl-plus-one", [](Fields& f, unsigned) { f.ttl = static_cast<std::int64_t>(static_cast<std::uint64_t>(f.ttl) + 1); return true; }},
};
const Mutation kMutStore[] = {
    {"flip-chunk-id-bit", [](Fields& f, unsigned a) { return flip_id(f.a, a); }},
    {"size-flip-bit", [](Fields& f, unsigned a) { f.size ^= 1ull << (a % 64); return true; }},
    {"size-plus-one", [](Fields& f, unsigned) { f.size += 1; return true; }},
    {"filename-append", [](Fields& f, unsigned a) { return str_append(f.s1, a); }},
    {"filename-drop-last", [](Fields& f, unsigned a) { return str_drop(f.s1, a); }},
    {"filename-flip-bit", [](Fields& f, unsigned a) { return str_flip(f.s1, a); }},
    {"filename-clear", [](Fields& f, unsigned) { if (f.s1.empty()) return false; f.s1.clear(); return true; }},
};
const Mutation kMutToken[] = {
    {"flip-chunk-id-bit", [](Fields& f, unsigned a) { return flip_id(f.a, a); }},
    {"flip-chunk-hash-bit", [](Fields& f, unsigned a) { return flip_id(f.b, a); }},
    {"swap-id-hash", [](Fields& f, unsigned) { std::swap(f.a, f.b); return true; }},
    {"endpoint-append", [](Fields& f, unsigned a) { return str_append(f.s1, a); }},
    {"endpoint-drop-last", [](Fields& f, unsigned a) { return str_drop(f.s1, a); }},
    {"endpoint-flip-bit", [](Fields& f, unsigned a) { return str_flip(f.s1, a); }},
};

template <std::size_t N>
const Mutation& pick(const Mutation (&t)[N], unsigned k) { return t[k % N]; }
const Mutation& pick_mutation(Surface s, unsigned k) {
    switch (s) {
        case kHandshake: return pick(kMutHandshake, k);
        case kAnnounce: return pick(kMutAnnounce, k);
        case kStore: return pick(kMutStore, k);
        default: return pick(kMutToken, k);
    }
}

// ---- leading-zero counters ------------------------------------------------------------------------------
Id structured_digest(unsigned k, unsigned tail_mode, Prng& g) {  // exactly k leading zero bits (k <= 256)
    Id d{};
    if (tail_mode == 0) g.fill(d.data(), 32);
    else if (tail_mode == 2) d.fill(0xFF);
    for (unsigned bit = 0; bit < k && bit < 256; ++bit) d[bit / 8] &= static_cast<std::uint8_t>(~(0x80u >> (bit % 8)));
    if (k < 256) d[k / 8] |= static_cast<std::uint8_t>(0x80u >> (k % 8));
    return d;
}

// compares the four counters of the tree with `want` (and the reference bit loop) on one digest
void check_counters(Ctx& c, const Id& d, unsigned want, const unsigned* difficulties, std::size_t nd) {
    unsigned ref = refs::leading_zero_bits(d.data(), 32);
    if (ref != want) c.fail("C19:harness-error", "reference zero count " + std::to_string(ref) + " != constructed " + std::to_string(want));
    std::size_t n = shim_pow::node_leading_zero_bits(d);
    std::size_t s = shim_pow::store_leading_zero_bits(d.data(), 32);
    std::size_t m = shim_main::cli_leading_zero_bits(d.data(), 32);
    if (n != want || s != want || m != want)
        c.fail("C19:leading-zero-counters-disagree",
               "digest " + hex(d, 32) + " has " + std::to_string(want) + " leading zero bits; Node.cpp counts " + std::to_string(n) +
                   ", StoreProof.cpp " + std::to_string(s) + ", main.cpp " + std::to_string(m));
    for (std::size_t i = 0; i < nd; ++i) {
        unsigned dd = difficulties[i];
        bool got = ephemeralnet::bootstrap::digest_meets_difficulty(d, static_cast<std::uint8_t>(dd));
        if (got != (want >= dd))
            c.fail("C19:digest-meets-difficulty-disagrees",
                   "digest " + hex(d, 32) + " (" + std::to_string(want) + " leading zero bits), difficulty " + std::to_string(dd) +
                       ": digest_meets_difficulty returned " + std::to_string(got));
    }
}

struct StoreVector {  // found offline with OpenSSL: >= 25 leading zero bits (verified against the reference below)
    std::uint8_t id_byte;
    std::uint64_t size;
    const char* filename;
    std::uint64_t nonce;
};
const StoreVector kStoreVectors[] = {{1, 1000, "", 6582327ull}, {2, 2000, "v2.bin", 52692362ull}, {3, 3000, "v3.bin", 26262567ull}};
}  // namespace

void run_case(Ctx& c) {
    const Tape& t = c.tape;
    const Surface s = static_cast<Surface>((t.h(0) % 8) / 2);
    c.label(kSurfaceName[s]);

    // ---- solver difficulty
    // (solving costs 2^ds hashes; the zero counters are covered exhaustively elsewhere, so high ds is kept rare)
    unsigned ds;
    if (t.h(1) < 230) ds = t.h(1) % 9;                       // 0..8   90 %
    else if (t.h(1) < 253) ds = 9 + (t.h(1) - 230) % 4;      // 9..12  9 %
    else if (t.h(1) < 255 || t.h(20) >= 32) ds = 13 + (t.h(1) + t.h(20)) % 3;  // 13..15  1.1 %
    else ds = 16 + t.h(20) % 3;                              // 16..18  0.05 %

    // ---- fields
    Prng g(t.h32(2) ^ 0xC19000ull);
    Fields f;
    unsigned idshape = t.h(6) % 8;  // 0,4..7 random/random; 1 a=0; 2 a=FF; 3 a==b
    f.a = gen_id(idshape == 1 ? 1 : idshape == 2 ? 2 : 0, g);
    f.b = idshape == 3 ? f.a : gen_id((t.h(6) >> 3) % 8 == 1 ? 1 : (t.h(6) >> 3) % 8 == 2 ? 2 : 0, g);
    static const std::int64_t kPub[] = {0, 1, 2, 0x7FFFFFFF, 0x80000000ll, 0xFFFFFFFEll, 0xFFFFFFFFll};
    f.pub = static_cast<std::uint32_t>(boundary_int(t.h(7), g.next(), kPub, 0, 0xFFFFFFFFll));
    // an expensive solve (ds >= 9) keeps the hashed message within two SHA-256 blocks
    const std::size_t cap = ds >= 9 ? 24 : 4096;
    f.s1 = gen_string(t.h(8), t.h16(16), g, cap);
    f.s2 = gen_string(t.h(9), t.h16(18), g, cap);
    {
        std::size_t n = std::min(cap / 4, static_cast<std::size_t>(boundary_int(t.h(10), t.h16(18), kShardLen, 0, 40)));
        f.shards = g.bytes(n);
    }
    static const std::int64_t kTtl[] = {0, 1, -1, 3600, 86400, 4294967296ll, INT64_MAX, INT64_MIN};
    f.ttl = (t.h(11) & 0x80) ? kTtl[(t.h(11) & 0x7F) % 8] : static_cast<std::int64_t>(g.next() >> (t.h(11) % 64));
    static const std::uint64_t kSize[] = {0, 1, 0xFFFFFFFFull, 0x100000000ull, 0x8000000000000000ull, 0xFFFFFFFFFFFFFFFFull};
    f.size = (t.h(12) & 0x80) ? kSize[(t.h(12) & 0x7F) % 6] : (g.next() >> (t.h(12) % 64));
    static const std::uint64_t kAttempts[] = {500000, 0, 1, 2, 100, 4096};
    std::uint64_t attempts = kAttempts[t.h(13) < 192 ? 0 : t.h(13) % 6];

    switch (s) {
        case kHandshake: c.note("handshake init=%s resp=%s pub=%u", hex(f.a, 4).c_str(), hex(f.b, 4).c_str(), f.pub); break;
        case kAnnounce:
            c.note("announce chunk=%s peer=%s ep=%s uri=%s shards=%zu ttl=%lld", hex(f.a, 4).c_str(), hex(f.b, 4).c_str(), show(f.s1).c_str(),
                   show(f.s2).c_str(), f.shards.size(), static_cast<long long>(f.ttl));
            break;
        case kStore: c.note("store chunk=%s size=%llu name=%s attempts=%llu", hex(f.a, 4).c_str(), static_cast<unsigned long long>(f.size),
                            show(f.s1).c_str(), static_cast<unsigned long long>(attempts));
            break;
        case kToken: c.note("token chunk=%s hash=%s ep=%s attempts=%llu", hex(f.a, 4).c_str(), hex(f.b, 4).c_str(), show(f.s1).c_str(),
                            static_cast<unsigned long long>(attempts));
            break;
    }
    c.note("ds=%u", ds);

    // ---- solvers
    std::optional<std::uint64_t> solved, solved2;  // solved2: the CLI handshake solver
    const char* solver_name = "";
    switch (s) {
        case kHandshake: {
            std::uint64_t n = 0;
            solver_name = "compute_handshake_pow";
            if (shim_pow::node_compute_handshake_pow(f.a, f.b, f.pub, static_cast<std::uint8_t>(ds), n)) solved = n;
            solved2 = shim_main::cli_compute_transport_pow(f.a, f.b, f.pub, static_cast<std::uint8_t>(ds));
            break;
        }
        case kAnnounce: {
            std::uint64_t n = 0;
            solver_name = "compute_announce_pow";
            if (shim_pow::node_compute_announce_pow(to_announce(f), static_cast<std::uint8_t>(ds), n)) solved = n;
            break;
        }
        case kStore:
            solver_name = "compute_store_pow";
            solved = ephemeralnet::security::compute_store_pow(to_store(f), static_cast<std::uint8_t>(ds), attempts);
            break;
        case kToken: {
            solver_name = "solve_token_challenge";
            ephemeralnet::protocol::Manifest m;
            m.chunk_id = f.a;
            m.chunk_hash = f.b;
            ephemeralnet::protocol::DiscoveryHint h;
            h.scheme = "control";
            h.transport = "control";
            h.endpoint = f.s1;
            solved = ephemeralnet::bootstrap::solve_token_challenge(m, h, static_cast<std::uint8_t>(ds), attempts);
            break;
        }
    }
    auto judge_solver = [&](const char* name, const std::optional<std::uint64_t>& n) {
        if (!n) { c.label("solver_gave_up"); return; }
        refs::Digest dg;
        unsigned L = ref_zeros(s, f, *n, &dg);
        c.note("%s->%llu(L=%u)", name, static_cast<unsigned long long>(*n), L);
        if (expected_verdict(s, L, ds) != 1)
            c.fail(std::string("C19:") + kSurfaceName[s] + "-solver-nonce-below-target",
                   std::string(name) + " returned nonce " + std::to_string(*n) + " for difficulty " + std::to_string(ds) +
                       " but the reference digest " + hex(dg, 32) + " has only " + std::to_string(L) + " leading zero bits; code digest " +
                       impl_digest_hex(s, f, *n));
        if (ds >= 1 && L == ds) c.nt("solver_nonce_exactly_on_target");
        if (ds >= 8) c.label("solver_difficulty_ge_8");
        if (ds >= 13) c.label("solver_difficulty_ge_13");
    };
    judge_solver(solver_name, solved);
    if (s == kHandshake) judge_solver("compute_transport_pow", solved2);

    // ---- probes
    auto probe = [&](unsigned nk, std::uint32_t narg, unsigned dk, unsigned mk, unsigned marg) {
        std::uint64_t nonce = 0;
        Prng ng(narg ^ 0x5EEDull);
        const char* nkn = "";
        std::uint64_t base = solved ? *solved : ng.next();
        // a mutation is most telling on the nonce that was solved for the unmutated fields
        const unsigned kind = (mk >= 128 && (nk >> 3) % 4 != 0) ? 0 : nk % 8;
        switch (kind) {
            case 0: nonce = base; nkn = solved ? "solver" : "random"; break;
            case 1: nonce = base + 1; nkn = "solver+1"; if (solved) c.label("solver_pm1"); break;
            case 2: nonce = base - 1; nkn = "solver-1"; if (solved) c.label("solver_pm1"); break;
            case 3: nonce = ng.next(); nkn = "random"; break;
            case 4: nonce = narg & 0xFFFF; nkn = "small"; break;
            case 5: nonce = 0; nkn = "zero"; break;
            case 6: nonce = ~0ull; nkn = "max"; break;
            case 7: nonce = solved2 ? *solved2 : ng.next(); nkn = solved2 ? "cli-solver" : "random"; break;
        }
        Fields pf = f;
        const char* mutname = "none";
        bool mutated = false;
        if (mk >= 128) {
            const Mutation& m = pick_mutation(s, mk & 0x7F);
            if (m.apply(pf, marg)) {
                mutname = m.name;
                mutated = ref_encoding(s, pf, nonce) != ref_encoding(s, f, nonce);
            }
        }
        refs::Digest dg;
        const unsigned L = ref_zeros(s, pf, nonce, &dg);
        unsigned chosen;
        if (dk < 64) chosen = ds;
        else if (dk < 96) chosen = 23 + dk % 3;
        else if (dk < 128) chosen = L;
        else if (dk < 160) chosen = L + 1;
        else if (dk < 176) chosen = 255;
        else if (dk < 192) chosen = dk % 2;
        else chosen = marg;
        chosen = std::min(chosen, 255u);
        c.note("[n=%s:%llx mut=%s L=%u d=%u]", nkn, static_cast<unsigned long long>(nonce), mutname, L, chosen);

        const unsigned sweep[] = {chosen, 0, L ? L - 1 : 0, L, std::min(L + 1, 255u), 24, 25, 255};
        for (unsigned d : sweep) {
            int want = expected_verdict(s, L, d);
            if (want < 0) { c.label("cap_reading_undecided"); continue; }
            for (const auto& v : validators(s, pf, nonce, static_cast<std::uint8_t>(d))) {
                if (v.accepted == (want == 1)) continue;
                std::string sig = std::string("C19:") + kSurfaceName[s] + (want ? "-rejects-nonce-meeting-target" : "-accepts-nonce-below-target");
                c.fail(sig, std::string(v.who) + " returned " + (v.accepted ? "accept" : "reject") + " at difficulty " + std::to_string(d) +
                                " for nonce " + std::to_string(nonce) + " (mutation " + mutname + "); reference digest " + hex(dg, 32) + " has " +
                                std::to_string(L) + " leading zero bits; code digest " + impl_digest_hex(s, pf, nonce));
            }
        }
        if (L >= 1) c.nt("last_required_bit_decides");
        if (L >= 8) c.label("probe_zero_bits_ge_8");
        if (mutated) {
            c.nt("metamorphic_mutation");
            if (solved && nonce == *solved && ds >= 1 && expected_verdict(s, L, ds) == 0) c.label("mutation_turns_solver_nonce_invalid");
            if (solved && nonce == *solved && ds >= 1 && expected_verdict(s, L, ds) == 1) c.label("mutation_keeps_solver_nonce_valid");
        }
        if (chosen > 24) c.label("difficulty_gt_24");
    };
    probe(0, 0, 0, 0, 0);  // the solver's nonce at the solver's difficulty, unmutated
    for (std::size_t i = 0; i < t.nrec() && i < 16; ++i) {
        Rec r = t.r(i);
        probe(r.op(), r.a32(0), r.a(4), r.a(5), r.a(6));
    }

    // ---- counters on a structured and on a random digest
    {
        Prng cg(t.header_seed() ^ 0xC0047ull);
        unsigned k = t.h(14) + ((t.h(15) & 0x80) && t.h(14) == 255 ? 1 : 0);  // 0..256
        unsigned tail = t.h(15) % 3;
        Id d = structured_digest(k, tail, cg);
        const unsigned diffs[] = {0, k ? k - 1 : 0, std::min(k, 255u), std::min(k + 1, 255u), 255, static_cast<unsigned>(cg.below(256))};
        check_counters(c, d, k, diffs, 6);
        Id rd;
        cg.fill(rd.data(), 32);
        unsigned rk = refs::leading_zero_bits(rd.data(), 32);
        const unsigned rdiffs[] = {rk, std::min(rk + 1, 255u), static_cast<unsigned>(cg.below(256))};
        check_counters(c, rd, rk, rdiffs, 3);
        c.note("ctr k=%u tail=%u", k, tail);
        if (k >= 8 && k % 8 == 0) c.label("counter_byte_boundary");
    }
}

std::string run_once(Ctx& c) {
    auto sc = refs::self_check();
    if (!sc.empty()) c.fail("C19:harness-error", "reference self-check failed: " + sc);

    // the documented caps
    if (shim_pow::node_max_announce_difficulty() != 24 || shim_pow::node_max_handshake_difficulty() != 24 ||
        shim_pow::node_max_store_difficulty() != 24 || ephemeralnet::security::kMaxStorePowDifficulty != 24)
        c.fail("C19:difficulty-cap-not-24", "a proof-of-work difficulty cap differs from 24");

    // counters: k = 0..256 leading zero bits x 3 tails x every difficulty 0..255
    Prng g(0xC19);
    std::uint64_t combos = 0;
    unsigned all[256];
    for (unsigned i = 0; i < 256; ++i) all[i] = i;
    for (unsigned k = 0; k <= 256; ++k)
        for (unsigned tail = 0; tail < 3; ++tail) {
            Id d = structured_digest(k, tail, g);
            check_counters(c, d, k, all, 256);
            combos += 256;
        }

    // store vectors with >= 25 zero bits: the cap of 24 is observable (every difficulty 25..255 must accept)
    std::uint64_t vec_checks = 0;
    for (const auto& v : kStoreVectors) {
        Fields f;
        f.a.fill(v.id_byte);
        f.size = v.size;
        f.s1 = v.filename;
        for (std::uint64_t nonce : {v.nonce, v.nonce + 1}) {
            unsigned L = ref_zeros(kStore, f, nonce);
            if (nonce == v.nonce && L < 25) c.fail("C19:harness-error", "store vector has only " + std::to_string(L) + " zero bits");
            for (unsigned d = 0; d < 256; ++d) {
                bool got = ephemeralnet::security::store_pow_valid(to_store(f), nonce, static_cast<std::uint8_t>(d));
                bool want = expected_verdict(kStore, L, d) == 1;
                ++vec_checks;
                if (got != want)
                    c.fail(want ? "C19:store-rejects-nonce-meeting-target" : "C19:store-accepts-nonce-below-target",
                           "store_pow_valid returned " + std::to_string(got) + " at difficulty " + std::to_string(d) + " (effective " +
                               std::to_string(std::min(d, 24u)) + ") for the vector chunk=" + std::to_string(v.id_byte) + "x32 size=" +
                               std::to_string(v.size) + " name='" + v.filename + "' nonce=" + std::to_string(nonce) + " whose reference digest has " +
                               std::to_string(L) + " leading zero bits");
            }
        }
    }
    return "exhaustive: " + std::to_string(combos) + " (digest with k=0..256 leading zero bits x 3 tails) x (difficulty 0..255) combinations on the four "
           "leading-zero counters; " + std::to_string(vec_checks) + " store_pow_valid verdicts on 3 vectors with >= 25 zero bits (cap 24 observable) and "
           "their nonce+1 neighbours over every difficulty 0..255; caps are 24";
}

std::vector<std::vector<std::uint8_t>> seed_tapes() {
    std::vector<std::vector<std::uint8_t>> out;
    for (unsigned surface = 0; surface < 4; ++surface) {
        std::vector<std::uint8_t> t(21 + 8 * 3, 0);
        t[0] = static_cast<std::uint8_t>(surface * 2);
        t[1] = 8;
        t[2] = static_cast<std::uint8_t>(surface + 1);
        t[8] = 0x85;
        t[9] = 3;
        t[10] = 2;
        // solver+1 at L+1, mutated solver nonce at ds, random nonce at 24
        t[21] = 1; t[26] = 130;
        t[29] = 0; t[34] = 0; t[35] = 0x80 + static_cast<std::uint8_t>(surface);
        t[37] = 3; t[38] = 7; t[42] = 70;
        out.push_back(t);
    }
    return out;
}
}  // namespace verif
