// Internals shim for src/crypto/Shamir.cpp: exports the anonymous-namespace GF(256) helpers as plain functions.
// No test-library headers here; the shim TU #includes the repository .cpp itself (so it also provides
// Shamir::split / Shamir::combine and the archive member is not pulled).
#pragma once
#include <cstdint>
#include <vector>

namespace shim_shamir {
std::uint8_t gf_add(std::uint8_t a, std::uint8_t b);
std::uint8_t gf_mul(std::uint8_t a, std::uint8_t b);
// passes the repository behaviour through unchanged (throws std::invalid_argument on b == 0 in the pinned tree)
std::uint8_t gf_div(std::uint8_t a, std::uint8_t b);
// constant + sum coefficients[k] * x^(k+1)
std::uint8_t eval_poly(std::uint8_t x, std::uint8_t constant, const std::vector<std::uint8_t>& coefficients);
}  // namespace shim_shamir
