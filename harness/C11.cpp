// C11 — stored content round-trips; tampered replicas are never accepted
#define VERIF_FUZZ_TARGET 1
#include "verif.hpp"
#include "vclock.hpp"
#include "node_access.hpp"
#include "shim_main.hpp"

#include <set>

namespace verif {
const PropertyInfo kInfo = {
    "C11", 16, 8, 0,
    "tape -> payload size from {0,1,63,64,65,127,128,4096,65536} or uniform <= 700; chunk id random or with an 0xFFFFFFFF / 0xFEFFFFFF prefix (ChaCha20 counter near wrap); "
    "shard threshold/total over 1..255 with boundary bias (1/1, t=n, 254, 255); TTL 30..3600 s. A publisher node stores the payload (in a third of the cases the id already holds other content from an earlier store); a fresh second node imports the replica. "
    "One corruption per case: none, replica bit flip at a generated offset / truncate / extend / swap with another chunk's ciphertext / empty, manifest hash / nonce / chunk id "
    "bit flip, one shard value flipped (inside or beyond the first t), shard index moved to an unused index, threshold +-1, two shards swapped. Oracle: fetch_chunk on the "
    "publisher == payload; stored bytes == reference ChaCha20(payload) under key = reference GF(256) interpolation of the manifest shares, manifest nonce, counter LE32(id[0..3]); "
    "the CLI decrypt helper returns the payload; receive_chunk on the second node and the CLI's decrypt helper (given the possibly corrupted replica + manifest) returns a value iff the independent acceptance predicate holds (sha256(reference decrypt) == "
    "manifest hash and admissible shares), and then returns exactly the payload, fetch_chunk agrees and the node announces itself; otherwise it returns nothing and the second "
    "node's chunk store and locators stay empty. Non-trivial: payload >= 2 blocks, or a corruption that keeps the length."};

namespace {
using namespace ephemeralnet;
using std::chrono::seconds;
const std::int64_t kSizes[] = {0, 1, 63, 64, 65, 127, 128, 4096, 65536};

std::optional<std::array<std::uint8_t, 32>> ref_combine(const protocol::Manifest& m) {
    std::size_t t = m.threshold;
    if (t == 0 || m.shards.size() < t) return std::nullopt;
    std::vector<std::uint8_t> xs;
    std::set<std::uint8_t> seen;
    for (std::size_t i = 0; i < t; ++i) {
        if (m.shards[i].index == 0 || !seen.insert(m.shards[i].index).second) return std::nullopt;
        xs.push_back(m.shards[i].index);
    }
    // Lagrange weights at x = 0 depend on the indices only: w_i = prod_{j != i} x_j / (x_i xor x_j)
    std::vector<std::uint8_t> w(t);
    for (std::size_t i = 0; i < t; ++i) {
        std::uint8_t num = 1, den = 1;
        for (std::size_t j = 0; j < t; ++j) {
            if (i == j) continue;
            num = refs::gf_mul(num, xs[j]);
            den = refs::gf_mul(den, static_cast<std::uint8_t>(xs[i] ^ xs[j]));
        }
        w[i] = refs::gf_div(num, den);
    }
    std::array<std::uint8_t, 32> key{};
    for (int b = 0; b < 32; ++b) {
        std::uint8_t acc = 0;
        for (std::size_t i = 0; i < t; ++i) acc ^= refs::gf_mul(m.shards[i].value[b], w[i]);
        key[b] = acc;
    }
    return key;
}
std::uint32_t counter_of(const ChunkId& id) { return id[0] | (id[1] << 8) | (id[2] << 16) | (std::uint32_t(id[3]) << 24); }
}  // namespace

void run_case(Ctx& c) {
    vclock::Frozen frozen(c.tape.header_seed());
    vnode::silence_streams();
    const Tape& t = c.tape;
    std::size_t size = static_cast<std::size_t>(boundary_int(t.h(0), t.h16(1), kSizes, 0, 700));
    if ((t.h(0) & 0x80) && kSizes[(t.h(0) & 0x7F) % 9] > 700) size = static_cast<std::size_t>(kSizes[(t.h(0) & 0x7F) % 9]);
    unsigned total, thr;
    switch (t.h(3) % 8) {
        case 0: total = 1; thr = 1; break;
        case 1: total = 255; thr = 1 + t.h(4) % 255; break;
        case 2: total = 254; thr = 254; break;
        case 3: total = 255; thr = 255; break;
        case 4: total = 5; thr = 3; break;
        default: total = 1 + t.h(4) % 40; thr = 1 + t.h(5) % total; break;
    }
    Prng g(t.h32(8) ^ 0xC11);
    auto payload = g.bytes(size);
    ChunkId id{};
    g.fill(id.data(), id.size());
    if ((t.h(6) & 3) == 1) { id[0] = id[1] = id[2] = id[3] = 0xFF; }
    if ((t.h(6) & 3) == 2) { id[0] = 0xFE; id[1] = id[2] = id[3] = 0xFF; }
    const unsigned corr = t.h(7) % 16;
    c.note("size=%zu shards=%u/%u idprefix=%02x%02x%02x%02x corruption=%u arg=%u", size, thr, total, id[0], id[1], id[2], id[3], corr, t.h16(12));

    Config pc;
    pc.shard_threshold = static_cast<std::uint8_t>(thr);
    pc.shard_total = static_cast<std::uint8_t>(total);
    pc.identity_seed = 110;
    pc.nat_stun_enabled = false;
    pc.relay_enabled = false;
    pc.announce_pow_difficulty = 0;
    Config sc = pc;
    sc.identity_seed = 111;
    Node pub(vnode::make_id(201, 0x11), pc);
    // a third of the cases: the same chunk id already holds other content (stored earlier with a longer or shorter lifetime);
    // the second store re-encrypts under a fresh key and must fully replace what the first one published
    if (t.h(9) % 3 == 0) {
        auto earlier = Prng(t.h32(4) ^ 0xE1).bytes(1 + t.h(9) % 90);
        pub.store_chunk(id, earlier, seconds((t.h(9) & 0x40) ? 3600 : 30));
        c.nt("same_id_stored_before_with_other_content");
    }
    auto manifest = pub.store_chunk(id, payload, seconds(30 + t.h16(10) % 3571));

    // (1) local lookup
    auto local = pub.fetch_chunk(id);
    if (!local || *local != payload) c.fail("C11:local-fetch-mismatch", "fetch_chunk on the publisher does not return the stored payload");
    // (2) stored bytes are the reference ciphertext
    auto rec = pub.export_chunk_record(id);
    if (!rec) c.fail("C11:no-record", "no chunk record after store");
    auto key = ref_combine(manifest);
    if (!key) c.fail("C11:manifest-shares-inadmissible", "the manifest issued by store_chunk does not carry threshold distinct non-zero shares");
    auto want_ct = refs::chacha20(key->data(), manifest.nonce.bytes.data(), counter_of(id), payload.data(), payload.size());
    if (rec->data != want_ct) c.fail("C11:stored-bytes-not-reference-ciphertext", "stored bytes differ from ChaCha20(payload) under the key reconstructed from the manifest shares");
    if (refs::sha256(payload) != manifest.chunk_hash) c.fail("C11:manifest-hash-wrong", "manifest content hash is not SHA-256 of the payload");
    if (manifest.shards.size() != total || manifest.threshold != thr) c.fail("C11:manifest-shard-config-wrong", "manifest does not carry the configured threshold/total");
    // (4) CLI decrypt helper
    {
        shim_main::ManifestKeyFields f;
        f.chunk_id = manifest.chunk_id;
        f.chunk_hash = manifest.chunk_hash;
        f.nonce = manifest.nonce.bytes;
        f.threshold = manifest.threshold;
        f.total_shares = manifest.total_shares;
        for (auto& s : manifest.shards) f.shards.push_back({s.index, s.value});
        auto cli = shim_main::cli_decrypt_chunk_with_manifest(f, rec->data);
        if (!cli || *cli != payload) c.fail("C11:cli-decrypt-mismatch", "the CLI's decrypt_chunk_with_manifest does not recover the payload from the stored bytes");
    }

    // corrupt
    protocol::Manifest m2 = manifest;
    std::vector<std::uint8_t> data = rec->data;
    const unsigned arg = t.h16(12);
    bool same_length = true;
    const char* what = "none";
    switch (corr) {
        case 0: case 1: break;
        case 2: if (!data.empty()) { data[arg % data.size()] ^= static_cast<std::uint8_t>(1u << (t.h(14) % 8)); what = "replica-bitflip"; } break;
        case 3: if (!data.empty()) { data.resize(arg % data.size()); same_length = false; what = "replica-truncated"; } break;
        case 4: { std::size_t extra = 1 + arg % 64; for (std::size_t i = 0; i < extra; ++i) data.push_back(g.byte()); same_length = false; what = "replica-extended"; break; }
        case 5: { auto other = g.bytes(data.size()); data = other; what = "replica-swapped"; break; }
        case 6: same_length = data.empty(); data.clear(); what = "replica-empty"; break;
        case 7: m2.chunk_hash[arg % 32] ^= static_cast<std::uint8_t>(1u << (t.h(14) % 8)); what = "manifest-hash-flip"; break;
        case 8: m2.nonce.bytes[arg % 12] ^= static_cast<std::uint8_t>(1u << (t.h(14) % 8)); what = "manifest-nonce-flip"; break;
        case 9: m2.chunk_id[arg % 32] ^= static_cast<std::uint8_t>(1u << (t.h(14) % 8)); what = "manifest-chunkid-flip"; break;
        case 10: m2.shards[arg % thr].value[t.h(14) % 32] ^= static_cast<std::uint8_t>(1u << (t.h(15) % 8)); what = "shard-value-flip-inside-t"; break;
        case 11: if (m2.shards.size() > thr) { m2.shards[thr + arg % (m2.shards.size() - thr)].value[t.h(14) % 32] ^= 0x10; what = "shard-value-flip-beyond-t"; } break;
        case 12: {
            std::set<std::uint8_t> used;
            for (auto& s : m2.shards) used.insert(s.index);
            for (unsigned cand = 255; cand >= 1; --cand) if (!used.count(static_cast<std::uint8_t>(cand))) { m2.shards[arg % thr].index = static_cast<std::uint8_t>(cand); what = "shard-index-moved"; break; }
            break;
        }
        case 13: if (thr > 1) { m2.threshold = static_cast<std::uint8_t>(thr - 1); what = "threshold-minus-1"; } break;
        case 14: if (thr < m2.shards.size()) { m2.threshold = static_cast<std::uint8_t>(thr + 1); what = "threshold-plus-1"; } break;
        case 15: if (thr >= 2) { std::swap(m2.shards[0], m2.shards[arg % thr]); what = "shards-swapped"; } break;
    }
    c.note("(%s)", what);
    const std::string uri = protocol::encode_manifest(m2);

    // independent acceptance predicate
    bool predicate = false;
    std::vector<std::uint8_t> ref_plain;
    if (auto k2 = ref_combine(m2)) {
        ref_plain = refs::chacha20(k2->data(), m2.nonce.bytes.data(), counter_of(m2.chunk_id), data.data(), data.size());
        predicate = refs::sha256(ref_plain) == m2.chunk_hash;
    }

    // the fetching side of the CLI applies the same acceptance rule to what a peer sent it
    {
        std::optional<std::vector<std::uint8_t>> cli;
        bool cli_threw = false;
        try {
            cli = shim_main::cli_decrypt_chunk_with_manifest_uri(uri, data);
        } catch (const std::exception&) {
            cli_threw = true;   // judged under C35 / C18; here: not accepted
        }
        if (predicate) {
            if (cli_threw || !cli.has_value()) c.fail("C11:cli-rejects-genuine-replica", std::string("the CLI's decrypt_chunk_with_manifest refused a replica that decrypts to the manifest's content hash (") + what + ")");
            if (*cli != ref_plain) c.fail("C11:cli-decrypt-mismatch", "the CLI's decrypt_chunk_with_manifest returned bytes different from the reference decryption");
        } else if (cli.has_value()) {
            c.fail("C11:cli-accepts-tampered-replica", std::string("the CLI's decrypt_chunk_with_manifest returned a value for a replica/manifest pair that does not hash to the manifest's content hash (") + what + ")");
        }
    }

    Node second(vnode::make_id(202, 0x12), sc);
    std::optional<ChunkData> got;
    bool threw = false;
    try {
        got = second.receive_chunk(uri, data);
    } catch (const std::exception&) {
        threw = true;  // judged under C35; here it counts as "not accepted"
        c.label("receive_chunk_threw");
    }
    const bool stored = !second.stored_chunks().empty();
    bool announced = false;
    for (auto& l : vnode::Access::dht(second).snapshot_locators())
        for (auto& h : l.holders) if (h.id == second.id()) announced = true;

    if (predicate) {
        if (threw || !got.has_value()) c.fail("C11:genuine-replica-rejected", std::string("receive_chunk refused a replica that decrypts to the manifest's content hash (") + what + ")");
        if (*got != ref_plain) c.fail("C11:replica-plaintext-mismatch", "receive_chunk returned bytes different from the reference decryption");
        if (std::string(what) == "none" || std::string(what) == "shards-swapped" || std::string(what) == "shard-value-flip-beyond-t")
            if (*got != payload) c.fail("C11:replica-plaintext-mismatch", "receive_chunk did not return the stored payload");
        auto again = second.fetch_chunk(m2.chunk_id);
        if (!again || *again != *got) c.fail("C11:replica-fetch-mismatch", "fetch_chunk on the importing node does not return the imported payload");
        if (!announced) c.fail("C11:replica-not-announced", "the importing node did not announce itself as a provider");
        c.label("accepted");
    } else {
        if (got.has_value()) c.fail("C11:tampered-replica-accepted", std::string("receive_chunk returned a value for a replica/manifest pair that does not hash to the manifest's content hash (") + what + ")");
        if (stored) c.fail("C11:tampered-replica-stored", std::string("a rejected replica was stored (") + what + ")");
        if (announced) c.fail("C11:tampered-replica-announced", std::string("a rejected replica was announced (") + what + ")");
        c.label("rejected");
    }
    if (size >= 128) c.nt("payload_ge_2_blocks");
    if (std::string(what) != "none" && same_length) c.nt("length_preserving_corruption");
    if (total >= 254) c.label("shards_ge_254");
}
}  // namespace verif
