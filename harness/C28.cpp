// C28 — STORE admission enforces size, TTL, PoW and an unforgeable rate limit
// In-process Node + daemon::ControlServer (no control token configured), raw TCP client, frozen virtual clock (the
// server reads steady_clock only in its rate limiter).  Oracles: arithmetic on the declared length / TTL, a reference
// store-PoW validator (OpenSSL SHA-256 over the stated field encoding, reference filename sanitiser) and a
// sliding-window count over the observed acceptances.
#define VERIF_FUZZ_TARGET 1
#include "ctl_common.hpp"

#include <deque>

namespace verif {
const PropertyInfo kInfo = {
    "C28", 12, 8, 40,
    "tape -> daemon without control token (4/5; 1/5 with a token that every request carries exactly: admission rules only); control_stream_max_bytes (cap) from {1,2,16,64,255,256,1024,4096,65536} or uniform 1..2048; TTL window from "
    "{30s..6h, 1s..1h, 60s..24h, 10..100s, 1..1s, 1h..2h}; store PoW difficulty 0 (half) or 1..10; history of up to 40 requests from the one loopback "
    "address: plain valid STORE (3/8), STORE with one varied admission field, streamed FETCH of a local chunk, clock advance. Varied fields: PAYLOAD-LENGTH in "
    "{cap-1, cap, cap+1 without body, cap+1 with body, 2^63, 2^64-1, 2^64, non-numeric, negative} (no body byte is sent when over the cap); TTL in {absent, min, max, "
    "min-1, max+1, mid, 0, 2^63, 2^64-1, abc, 12x, -5, empty}; STORE-POW nonce in {valid, valid for the raw / another filename only, valid for size+1 only, valid for "
    "another payload only, missing, malformed, random, invalid by construction, one bit short of the target} with PATH in {absent, plain, nested dirs, absolute, trailing slash, '.', '..', 300-byte "
    "name, blanks and colon}; every request carries a different unauthenticated TOKEN, a shared one, an empty one or none, FETCHes in a burst also toggle the BOOTSTRAP / DISCOVERY-* / FALLBACK headers; advances in {to the oldest accepted "
    "STORE/FETCH + 30 s exactly, -1 ns, +1 ns, 30 s, 30 s + 1 ns, ms, 1..29 s}. Oracle: a STORE is accepted only if declared length <= cap and TTL in [min,max] and "
    "(difficulty 0 or the reference digest sha256(sha256(payload) || size || len(name) || name || nonce) has >= difficulty leading zero bits for the sanitised name); an "
    "over-cap length is answered with an error while no body byte has been sent; a refused STORE leaves the chunk store unchanged; a fully valid STORE must be "
    "accepted when fewer than 6 STOREs were sent in the preceding 30 s; at every acceptance the number of accepted STOREs in the closed 30 s window ending there "
    "is <= 6 (streamed FETCH: <= 12), whatever TOKEN headers were sent. Non-trivial: >= 7 valid STOREs (or >= 13 FETCHes) sent inside one 30 s window, or a PoW nonce valid for "
    "different fields. Distinct = hash of the decoded case."};

namespace {
using namespace ephemeralnet;
using ctl::Bytes;
using std::chrono::seconds;
using ns = std::chrono::nanoseconds;
const std::int64_t kCapTable[] = {1, 2, 16, 64, 255, 256, 1024, 4096, 65536};
const long long kWindows[][2] = {{30, 21600}, {1, 3600}, {60, 86400}, {10, 100}, {1, 1}, {3600, 7200}};
constexpr long long kWin = 30'000'000'000LL;
const char* kRateSig = "C28:rate-bucket-from-unauthenticated-token";

long long now_ns() { return vclock::now_offset().count(); }

struct Sent {
    long long t;
    bool token_header;
};
}  // namespace

void run_case(Ctx& c) {
    vclock::Frozen frozen(c.tape.header_seed());
    vnode::silence_streams();
    const Tape& t = c.tape;

    // ---- configuration
    const std::size_t cap = static_cast<std::size_t>(boundary_int(t.h(0), t.h16(1), kCapTable, 1, 2048));
    const auto& win = kWindows[t.h(3) % 6];
    const long long mn = win[0], mx = win[1];
    const unsigned difficulty = t.h(4) < 128 ? 0 : 1 + t.h(4) % 10;
    const std::uint32_t case_seed = t.h32(8);
    Config cfg = ctl::quiet_config(28);
    cfg.control_stream_max_bytes = cap;
    cfg.min_manifest_ttl = seconds(mn);
    cfg.max_manifest_ttl = seconds(mx);
    cfg.default_chunk_ttl = seconds(mn + (mx - mn) / 2);
    cfg.store_pow_difficulty = static_cast<std::uint8_t>(difficulty);
    cfg.shard_threshold = 1;  // short manifests: the FETCH request line is read byte by byte
    cfg.shard_total = 1;
    // one case in five: the daemon has a control token and every request carries it exactly; the admission rules (size,
    // TTL, PoW) are asserted as before, the rate sentence (stated for daemons without a token) is not
    const bool with_token = t.h(6) >= 205;
    const std::string daemon_token = "tok-" + std::to_string(case_seed);
    if (with_token) { cfg.control_token = daemon_token; c.label("daemon_with_control_token"); }
    c.note("cap=%zu ttl=[%lld,%lld] pow=%u%s", cap, mn, mx, difficulty, with_token ? " token-configured" : "");

    Node node(vnode::make_id(7, 0x28), cfg);
    {
        const Config& sc = node.config();
        if (sc.min_manifest_ttl.count() != mn || sc.max_manifest_ttl.count() != mx || sc.store_pow_difficulty != difficulty || sc.control_stream_max_bytes != cap || sc.control_token.has_value() != with_token)
            c.fail("C28:harness-error", "configuration changed by sanitisation");
    }
    // the chunk that FETCH streams (stored directly, not through the control plane)
    Bytes fetch_plain = Prng(case_seed ^ 0xFE7C).bytes(std::min<std::size_t>(cap, 1 + t.h(5) % 40));
    const ChunkId fetch_id = ctl::payload_chunk_id(fetch_plain);
    const std::string fetch_uri = protocol::encode_manifest(node.store_chunk(fetch_id, fetch_plain, seconds(mx)));

    vctl::Server server(node);
    if (!server.ok()) c.fail("C28:harness-error", "control server did not start");
    if (daemon::max_control_stream_bytes() != cap) c.fail("C28:harness-error", "stream cap not applied");

    const bool avoid_token = c.is_known(kRateSig);
    std::deque<Sent> store_sent, fetch_sent;          // every STORE / FETCH request sent
    std::deque<Sent> store_ok, fetch_ok;              // accepted ones
    std::deque<Sent> valid_sent;                      // fully valid STOREs sent
    auto in_window = [&](const std::deque<Sent>& d, long long now) {
        std::size_t n = 0;
        for (auto& s : d) if (now - s.t <= kWin) ++n;
        return n;
    };
    auto any_token = [&](const std::deque<Sent>& d, long long now) {
        for (auto& s : d) if (now - s.t <= kWin && s.token_header) return true;
        return false;
    };
    auto chunk_set = [&]() {
        std::scoped_lock lock(server.node_mutex());
        std::map<std::string, std::size_t> m;
        for (auto& e : vnode::Access::chunk_store(node).snapshot()) m[ctl::hex_full(e.id)] = e.size;
        return m;
    };
    auto token_header = [&](vctl::Request& q, unsigned sel, std::size_t i) -> bool {
        // 0: none, 1: different on every request, 2: shared, 3: empty
        unsigned kind = sel < 64 ? 0 : sel < 176 ? 1 : sel < 224 ? 2 : 3;
        if (with_token) { q.headers.push_back({"TOKEN", daemon_token}); return false; }
        if (kind == 0) return false;
        if (avoid_token) { c.count_excluded(kRateSig); return false; }
        std::string v = kind == 1 ? "t" + std::to_string(i) + "-" + std::to_string(sel) : kind == 2 ? "shared-secret" : "";
        q.headers.push_back({"TOKEN", v});
        return true;
    };

    for (std::size_t i = 0; i < t.nrec(); ++i) {
        Rec r = t.r(i);
        const unsigned op = r.op() % 8;
        const long long now = now_ns();

        if (op == 7) {  // ---- advance
            auto oldest = [&](const std::deque<Sent>& d) -> long long {
                for (auto& s : d) if (now - s.t <= kWin) return s.t;
                return now;
            };
            long long d = 0;
            switch (r.a(0) % 10) {
                case 0: d = oldest(store_ok) + kWin - now; c.label("advance_to_oldest_store_plus_30s"); break;
                case 1: d = oldest(store_ok) + kWin - 1 - now; c.label("advance_to_oldest_store_plus_30s_minus_1ns"); break;
                case 2: d = oldest(store_ok) + kWin + 1 - now; c.label("advance_to_oldest_store_plus_30s_plus_1ns"); break;
                case 3: d = oldest(fetch_ok) + kWin - now; break;
                case 4: d = oldest(fetch_ok) + kWin - 1 - now; break;
                case 5: d = oldest(fetch_ok) + kWin + 1 - now; break;
                case 6: d = kWin; break;
                case 7: d = kWin + 1; break;
                case 8: d = 1'000'000LL * (1 + r.a(1)); break;
                case 9: d = 1'000'000'000LL * (1 + r.a(1) % 29); break;
            }
            if (d < 0) d = 0;
            c.note("|adv(%lldns)", d);
            vclock::advance(ns(d));
            continue;
        }

        if (op == 5 || op == 6) {  // ---- streamed FETCH (op 6: a burst of 1..14 at the same instant)
            const unsigned burst = op == 6 ? 1 + r.a(1) % 14 : 1;
            bool any_tok = false;
            for (unsigned b = 0; b < burst; ++b) {
                vctl::Request q;
                q.command = "FETCH";
                q.with_payload_length = false;
                q.headers.push_back({"MANIFEST", fetch_uri});
                q.headers.push_back({"STREAM", "client"});
                bool tok = token_header(q, (r.a(0) + 37 * b) & 0xFF, i * 16 + b);
                // other unauthenticated headers a client may toggle (what a hint-following `eph fetch` adds)
                if (((r.a(2) >> (b % 8)) & 1) != 0) {
                    q.headers.push_back({"BOOTSTRAP", "1"});
                    q.headers.push_back({"DISCOVERY-ENDPOINT", "127.0.0.1:47777"});
                    if (b & 1) { q.headers.push_back({"FALLBACK", "1"}); q.headers.push_back({"DISCOVERY-RESOLVED", "127.0.0.1:47777"}); }
                    tok = true;   // (counts as "varying unauthenticated headers" for the signature)
                    c.label("fetch_with_bootstrap_headers");
                }
                any_tok = any_tok || tok;
                fetch_sent.push_back({now, tok});
                if (in_window(fetch_sent, now) >= 13) c.nt("thirteen_fetches_in_window");
                auto resp = server.roundtrip(q);
                if (!resp.ok && server.timed_out()) { c.label("control_timeout_inconclusive"); server.stop(); return; }
                if (!resp.ok) c.fail("C28:harness-error", "no response to FETCH");
                const std::string code = resp.field("CODE");
                if (resp.field("STATUS") == "OK") {
                    fetch_ok.push_back({now, tok});
                    std::size_t n = in_window(fetch_ok, now);
                    if (n > 12 && !with_token) {
                        const char* sig = any_token(fetch_ok, now) ? kRateSig : "C28:fetch-rate-limit-exceeded";
                        c.fail(sig, std::to_string(n) + " streamed FETCHes accepted from one address inside a 30 s window (limit 12)");
                    }
                } else if (code.find("RATE") != std::string::npos) {
                    c.label("fetch_rate_limited");
                } else {
                    c.label("fetch_refused_other");
                }
            }
            c.note("|FETCHx%u(%s)", burst, any_tok ? "token" : "-");
            continue;
        }

        // ---- STORE
        unsigned dim = 0, var = 0;  // varied dimension: 0 none, 1 length, 2 TTL, 3 PoW (+PATH)
        if (op == 3 || op == 4) { dim = 1 + r.a(1) % 3; var = r.a(2); }
        Prng pg((r.seed() * 1000003ull + i) ^ case_seed);
        std::size_t size = std::min<std::size_t>(cap, 1 + r.a(5) % 32);
        vctl::Request q;
        q.command = "STORE";
        bool len_ok = true, ttl_ok = true, pow_ok = true, assert_refusal = true;
        std::string len_text, ttl_text = "(absent)", pow_text = "-", path_text;
        bool over_cap_no_body = false, reset_possible = false;

        // length
        if (dim == 1) {
            switch (var % 10) {
                case 0: size = cap > 1 ? cap - 1 : 0; c.label("length_cap_minus_1"); break;
                case 1: size = cap; c.label("length_at_cap"); break;
                case 2: size = 0; q.payload_length_override = std::to_string(cap + 1); q.send_body = false; len_ok = false; over_cap_no_body = true; c.label("length_cap_plus_1_no_body"); break;
                case 3: size = cap + 1; len_ok = false; reset_possible = true; c.label("length_cap_plus_1_with_body"); break;
                case 4: size = 0; q.payload_length_override = "9223372036854775808"; q.send_body = false; len_ok = false; over_cap_no_body = true; break;
                case 5: size = 0; q.payload_length_override = "18446744073709551615"; q.send_body = false; len_ok = false; over_cap_no_body = true; break;
                case 6: size = 0; q.payload_length_override = "18446744073709551616"; q.send_body = false; len_ok = false; q.half_close_after_send = true; break;
                case 7: { static const char* bad[] = {"abc", "12x", "0x10", "1e3", "ten"}; size = 0; q.payload_length_override = bad[(var / 10) % 5]; q.send_body = false; len_ok = false; q.half_close_after_send = true; break; }
                case 8: size = 0; q.payload_length_override = "-1"; q.send_body = false; len_ok = false; q.half_close_after_send = true; break;
                case 9: size = cap >= 2 ? cap / 2 : 1; break;
            }
        }
        q.payload = pg.bytes(size);
        len_text = q.payload_length_override.empty() ? std::to_string(size) : q.payload_length_override;

        // TTL
        if (dim == 2) {
            auto num = [&](unsigned long long v, bool ok) { ttl_text = std::to_string(v); ttl_ok = ok; };
            switch (var % 13) {
                case 0: break;
                case 1: num(mn, true); c.label("ttl_at_min"); break;
                case 2: num(mx, true); c.label("ttl_at_max"); break;
                case 3: num(mn - 1, false); c.label("ttl_min_minus_1"); break;
                case 4: num(mx + 1, false); c.label("ttl_max_plus_1"); break;
                case 5: num(mn + (mx - mn) / 2, true); break;
                case 6: num(0, false); break;
                case 7: ttl_text = "9223372036854775808"; ttl_ok = false; break;
                case 8: ttl_text = "18446744073709551615"; ttl_ok = false; break;
                case 9: ttl_text = "abc"; ttl_ok = false; break;
                case 10: ttl_text = "12x"; ttl_ok = false; break;
                case 11: ttl_text = "-5"; ttl_ok = false; break;
                case 12: ttl_text = ""; ttl_ok = false; assert_refusal = false; break;  // an empty value may be read as "absent"
            }
            if (ttl_text != "(absent)") q.headers.push_back({"TTL", ttl_text});
        }

        // PATH + PoW
        bool path_sent = false;
        if (dim == 3) {
            switch (r.a(3) % 10) {
                case 0: break;
                case 1: path_text = "file.txt"; break;
                case 2: path_text = "dir/sub/file-" + std::to_string(var) + ".bin"; break;
                case 3: path_text = "/abs/path/name"; break;
                case 4: path_text = "trailing/"; break;
                case 5: path_text = "."; break;
                case 6: path_text = "a/.."; break;
                case 7: path_text = "d/" + std::string(300, 'n'); break;
                case 8: path_text = "my dir/my file:1.txt"; break;
                case 9: path_text = "x/" + ctl::printable(pg, 1 + var % 20); for (auto& ch : path_text) if (ch == '\\') ch = '_'; break;
            }
            path_sent = r.a(3) % 10 != 0;
            if (path_sent) q.headers.push_back({"PATH", path_text});
        }
        ctl::PowFields real{ctl::payload_chunk_id(q.payload), q.payload.size(), path_sent ? ctl::ref_sanitise_filename(path_text) : std::string()};
        {
            bool send = difficulty != 0 || dim == 3;  // no STORE-POW header on plain requests when PoW is off
            std::uint64_t nonce = 0;
            static const unsigned kPv[] = {0, 0, 1, 2, 3, 4, 5, 6, 7, 8};
            unsigned pv = dim == 3 ? kPv[var % 10] : 0;
            const std::uint64_t start = pg.next() >> 8;
            switch (pv) {
                case 0: nonce = send ? ctl::ref_find_nonce(real, difficulty, start) : 0; break;
                case 1: {  // valid for another filename only (the unsanitised path when there is one)
                    ctl::PowFields other = real;
                    other.name = (path_sent && path_text != real.name) ? path_text : real.name + "x";
                    nonce = difficulty ? ctl::ref_find_nonce(other, difficulty, start, &real) : 0;
                    if (difficulty) c.nt("pow_nonce_for_other_fields");
                    break;
                }
                case 2: {
                    ctl::PowFields other = real;
                    other.size += 1;
                    nonce = difficulty ? ctl::ref_find_nonce(other, difficulty, start, &real) : 0;
                    if (difficulty) c.nt("pow_nonce_for_other_fields");
                    break;
                }
                case 3: {
                    ctl::PowFields other = real;
                    other.id[0] ^= 1;
                    nonce = difficulty ? ctl::ref_find_nonce(other, difficulty, start, &real) : 0;
                    if (difficulty) c.nt("pow_nonce_for_other_fields");
                    break;
                }
                case 4: send = false; pow_text = "(missing)"; pow_ok = difficulty == 0; break;
                case 5: { static const char* bad[] = {"abc", "", "-1", "12x", "18446744073709551616"}; pow_text = bad[r.a(4) % 5]; pow_ok = difficulty == 0; q.headers.push_back({"STORE-POW", pow_text}); send = false; break; }
                case 6: nonce = pg.next(); break;
                case 7: nonce = difficulty ? ctl::ref_find_nonce(real, difficulty, start, nullptr, true) : pg.next(); break;
                case 8: nonce = difficulty ? ctl::ref_find_near_miss(real, difficulty, start) : pg.next(); if (difficulty) c.nt("pow_nonce_one_bit_short"); break;
            }
            if (send) {
                pow_ok = difficulty == 0 || ctl::ref_store_pow_zero_bits(real.id, real.size, real.name, nonce) >= difficulty;
                pow_text = std::to_string(nonce);
                q.headers.push_back({"STORE-POW", pow_text});
            }
        }
        if (difficulty && dim == 3) c.label(pow_ok ? "pow_valid" : "pow_invalid");
        const bool tok = token_header(q, r.a(0), i);
        const bool valid = len_ok && ttl_ok && pow_ok;
        c.note("|STORE(len=%s ttl=%s pow=%s%s%s%s)", len_text.c_str(), ttl_text.c_str(), pow_text.c_str(), path_sent ? (" path='" + ctl::shorten(path_text, 24) + "'").c_str() : "",
               tok ? " token" : "", valid ? "" : " INVALID");

        store_sent.push_back({now, tok});
        if (valid) {
            valid_sent.push_back({now, tok});
            if (in_window(valid_sent, now) >= 7) c.nt("seven_valid_stores_in_window");
        }
        const auto before = chunk_set();
        auto resp = server.roundtrip(q);
        const auto after = chunk_set();
        if (!resp.ok) {
            if (over_cap_no_body) c.fail("C28:over-cap-length-not-refused-before-body", "PAYLOAD-LENGTH " + len_text + " with cap " + std::to_string(cap) + ": no answer while the body is withheld");
            // (a refusal that leaves the unread body behind may reset the connection before the answer is read)
            if (!reset_possible && server.timed_out() && !over_cap_no_body) { c.label("control_timeout_inconclusive"); server.stop(); return; }
            if (!reset_possible) c.fail("C28:harness-error", "no response to STORE");
        }
        const std::string status = resp.field("STATUS"), code = resp.field("CODE");
        const bool accepted = status == "OK";
        const std::string id_hex = ctl::hex_full(real.id);
        const std::string what = "STORE len=" + len_text + " (cap " + std::to_string(cap) + ") ttl=" + ttl_text + " (window " + std::to_string(mn) + ".." + std::to_string(mx) + ") pow=" + pow_text +
                                 " (difficulty " + std::to_string(difficulty) + ", name '" + ctl::shorten(real.name, 24) + "') -> " + status + "/" + code;
        if (!accepted && after != before) c.fail("C28:refused-store-changed-state", what);
        if (!valid) {
            if (accepted && (assert_refusal || !len_ok || !pow_ok)) {
                c.fail(!len_ok ? "C28:store-over-cap-accepted" : !ttl_ok ? "C28:store-ttl-outside-window-accepted" : "C28:store-invalid-pow-accepted", what);
            }
            if (accepted) {  // tolerated reading (empty TTL value): keep the books right
                store_ok.push_back({now, tok});
            }
            continue;
        }
        if (accepted) {
            if (!after.count(id_hex) || after.at(id_hex) != q.payload.size()) c.fail("C28:accepted-store-not-stored", what);
            store_ok.push_back({now, tok});
            std::size_t n = in_window(store_ok, now);
            if (n > 6 && !with_token) {
                const char* sig = any_token(store_ok, now) ? kRateSig : "C28:store-rate-limit-exceeded";
                c.fail(sig, std::to_string(n) + " STOREs accepted from one address inside a 30 s window (limit 6); last: " + what);
            }
        } else {
            if (in_window(store_sent, now) <= 6 && !with_token) c.fail("C28:valid-store-refused", what + " although only " + std::to_string(in_window(store_sent, now)) + " STORE(s) were sent in the last 30 s");
            if (code.find("RATE") != std::string::npos) c.label("store_rate_limited");
        }
    }
    server.stop();
}

std::vector<std::vector<std::uint8_t>> seed_tapes() {
    std::vector<std::vector<std::uint8_t>> v;
    for (std::uint8_t pow : {0, 200}) {
        std::vector<std::uint8_t> t = {0x82, 0, 0, 0, pow, 9, 0, 0, 1, 2, 3, 4};
        for (int i = 0; i < 7; ++i) t.insert(t.end(), {0, static_cast<std::uint8_t>(70 + i), 0, 0, 0, 0, static_cast<std::uint8_t>(i), 0});
        t.insert(t.end(), {7, 0, 0, 0, 0, 0, 0, 0});
        t.insert(t.end(), {0, 0, 0, 0, 0, 0, 9, 0});
        t.insert(t.end(), {6, 0, 13, 0, 0, 0, 0, 0});
        for (std::uint8_t dim = 0; dim < 3; ++dim)
            for (std::uint8_t var : {0, 1, 2, 3, 4}) t.insert(t.end(), {4, 0, dim, var, 2, 0, 5, 0});
        v.push_back(t);
    }
    return v;
}
}  // namespace verif
