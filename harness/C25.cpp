// C25 — relay bridges deliver bytes only to the bridged partner
// Real relay::RelayServer on a real relay::EventLoop, stepped from the harness thread (relay_harness.hpp); clients are
// loopback TCP sockets.  Oracle: a grammar over what each client reads + tagged probe bytes, written from the property
// statement and the client side of the relay protocol only (no reply wording beyond OK / ERROR / BEGIN, no tie-breaks).
#define VERIF_FUZZ_TARGET 1
#include "relay_harness.hpp"

namespace verif {
const PropertyInfo kInfo = {
    "C25", 8, 6, 40,
    "tape -> 2..5 initial loopback TCP clients of an in-process RelayServer (<= 6 in total), then one action per 6-byte record, resolved against the client-side view: "
    "progress towards a bridge (REGISTER an unused id / CONNECT an idle client to a registered unclaimed one / send the 32 identity bytes / open a client / send data), "
    "REGISTER (4 ids; canonical, upper-case, bad hex, short, CRLF; duplicate ids, re-register, re-register while claimed), CONNECT (valid, claimed peer, unknown id, self, own id, "
    "upper-case target, from a registered session; extra blanks, CRLF; optimistic = line+identity(+data) in one write), identity whole / split / with trailing data, "
    "data writes of tagged probe bytes (0x80|sender<<4|position; sizes 1..600 or {1,2,31,32,33,4095,4096,4097,8192,12289}) or protocol-looking text, junk/PONG/blank lines, "
    "back-pressure (a bridged client stops reading — half of the cases use 4 KiB receive buffers —, its partner writes 64 KiB..6 MiB probes (beyond the 4 MiB a loopback socket buffers), the reader resumes later; all readers resume before the final check), "
    "half-typed lines finished later, close / reset / half-close of any client at any stage; (op&0xC0)==0xC0 batches the action with the next one (no loop step in between). "
    "After every (un-batched) action the loop is stepped to quiescence and the invariants are evaluated: (I1) bridge bytes are an in-order prefix of what the partner wrote after its "
    "bridge point, (I2) a client without a bridge reads only relay text lines and BEGIN only as a registered target of an accepted connector that wrote its identity and asked for an id "
    "this client registered, (I3) nothing is lost while both ends stay connected and the relay never drops a live bridge, (I4) one BEGIN per connector/target, probes both ways, "
    "(I5) when one end disconnects the other reads EOF, (I6) an idle client's CONNECT to an id registered by exactly one live, never-claimed client is accepted and its identity "
    "produces the bridge; a loop batch that makes > 200 000 allocations or allocates > 64 MiB (runaway loop; legitimate batches stay below 100 allocations / 2 MiB) is abandoned and reported. Non-trivial: a live bridge with >= 1 other live client, or a re-register, duplicate id or mid-handshake disconnect. "
    "Distinct = hash of the rendered action list."};

void run_case(Ctx& c) {
    vrelay::Options o;
    o.pid = "C25";
    o.strict = true;
    o.wild = false;
    vrelay::Driver d(c, o);
    const Tape& t = c.tape;
    d.setup(2 + t.h(0) % 4);
    std::size_t n = std::min<std::size_t>(t.nrec(), 64);
    for (std::size_t i = 0; i < n; ++i) d.apply(t.r(i));
    d.resume_all();
    d.settle();
    if (d.had_bystander_bridge) c.nt("bridge_with_bystander");
    if (d.bridges) c.label("bridge");
    if (d.bridges >= 2) c.label("two_or_more_bridges");
    d.close_everything(true);
}

std::vector<std::vector<std::uint8_t>> seed_tapes() {
    auto mk = [](std::initializer_list<std::array<std::uint8_t, 6>> recs) {
        std::vector<std::uint8_t> t = {1, 0, 7, 7, 7, 7, 0, 0};
        for (auto& r : recs) t.insert(t.end(), r.begin(), r.end());
        return t;
    };
    return {
        mk({{0, 0, 0, 0, 0, 0}, {0, 0, 0, 0, 0, 0}, {0, 0, 0, 0, 0, 0}, {3, 0, 0, 0, 9, 0}, {4, 1, 0, 0x85, 0, 0}, {10, 0, 0, 0, 0, 0}}),
        mk({{0, 0, 0, 0, 0, 0}, {0, 0, 0, 0, 0, 0}, {15, 0, 0x81, 0, 0, 0}, {6, 0, 3, 0, 0, 4}, {0, 0, 0, 0, 0, 0}, {0, 0, 0, 0, 0, 0}, {3, 1, 0, 0, 5, 0}}),
        mk({{5, 0, 0, 0, 0, 0}, {13, 1, 0, 0, 7, 5}, {12, 0, 0, 0, 30, 0}, {14, 0, 1, 0, 0, 0}}),
        mk({{0, 0, 0, 0, 0, 0}, {0xC6, 1, 0, 0, 0, 4}, {0xC6, 2, 0, 0, 0, 4}, {0, 0, 0, 0, 0, 0}, {7, 0, 0, 9, 0, 0}, {9, 0, 0, 0, 3, 0}, {9, 0, 0, 0, 0, 0}}),
    };
}
}  // namespace verif
