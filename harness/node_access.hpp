// Harness-side definition of ephemeralnet::test::NodeTestAccess (Node.hpp already befriends it) and a fake
// peer attached through a socketpair (DESIGN.md section 3).  No source hook needed.
#pragma once
#include "ephemeralnet/core/Node.hpp"
#include "refs.hpp"
#include "verif.hpp"

#include <cerrno>
#include <fcntl.h>
#include <iostream>
#include <streambuf>
#include <sys/socket.h>
#include <thread>
#include <unistd.h>

namespace ephemeralnet::test {
class NodeTestAccess {
public:
    static ChunkStore& chunk_store(Node& n) { return n.chunk_store_; }
    static KademliaTable& dht(Node& n) { return n.dht_; }
    static auto& manifest_cache(Node& n) { return n.manifest_cache_; }
    static auto& swarm_plans(Node& n) { return n.swarm_plans_; }
    static auto& pending_fetches(Node& n) { return n.pending_chunk_fetches_; }
    static auto& active_peer_requests(Node& n) { return n.active_peer_requests_; }
    static auto& pending_uploads(Node& n) { return n.pending_uploads_; }
    static auto& active_uploads(Node& n) { return n.active_uploads_; }
    static auto& active_uploads_per_peer(Node& n) { return n.active_uploads_per_peer_; }
    static network::SessionManager& sessions(Node& n) { return n.sessions_; }
    static network::KeyManager& key_manager(Node& n) { return n.key_manager_; }
    static auto& handshake_state(Node& n) { return n.handshake_state_; }
    static auto& announce_history(Node& n) { return n.peer_announce_history_; }
    static auto& announce_failures(Node& n) { return n.peer_announce_failure_history_; }
    static auto& announce_lockouts(Node& n) { return n.peer_announce_lockouts_; }
    static auto& last_cleanup(Node& n) { return n.last_cleanup_; }
    static auto& nat_status(Node& n) { return n.nat_status_; }
    static std::uint32_t identity_scalar(Node& n) { return n.identity_scalar_; }

    static void handle_transport_message(Node& n, const network::TransportMessage& m) { n.handle_transport_message(m); }
    static auto handle_transport_handshake(Node& n, const PeerId& p, const protocol::TransportHandshakePayload& pl) {
        return n.handle_transport_handshake(p, pl);
    }
    static void handle_request(Node& n, const protocol::RequestPayload& p, const PeerId& s) { n.handle_request(p, s); }
    static void handle_chunk(Node& n, const protocol::ChunkPayload& p, const PeerId& s) { n.handle_chunk(p, s); }
    static void handle_acknowledge(Node& n, const protocol::AcknowledgePayload& p, const PeerId& s) { n.handle_acknowledge(p, s); }
    static void handle_announce(Node& n, const protocol::AnnouncePayload& p, const PeerId& s, std::uint8_t v) { n.handle_announce(p, s, v); }
    static bool apply_announce_pow(Node& n, protocol::AnnouncePayload& p) { return n.apply_announce_pow(p); }
    static void refresh_advertised_endpoints(Node& n) { n.refresh_advertised_endpoints(); }
    static std::string self_endpoint(Node& n) { return n.self_endpoint(); }
    static void process_pending_fetches(Node& n) { n.process_pending_fetches(); }
    static auto& swarm_roles(Node& n) { return n.swarm_roles_; }
    static auto& peer_message_versions(Node& n) { return n.peer_message_versions_; }
};
}  // namespace ephemeralnet::test

namespace vnode {
using namespace ephemeralnet;
using Access = ephemeralnet::test::NodeTestAccess;

// The repository logs every session state change to std::cerr / std::clog; sanitizers write to fd 2 directly,
// so the C++ streams can be silenced without losing reports.
struct NullBuf : std::streambuf {
    int overflow(int c) override { return c; }
};
inline void silence_streams() {
    static NullBuf nb;
    static bool done = false;
    if (done) return;
    done = true;
    std::cerr.rdbuf(&nb);
    std::clog.rdbuf(&nb);
    std::cout.rdbuf(&nb);
}

inline PeerId make_id(std::uint64_t seed, std::uint8_t tag) {
    PeerId p{};
    verif::Prng g(seed);
    g.fill(p.data(), p.size());
    p[31] = tag;
    return p;
}

// A peer that exists only in the harness: the node holds an outbound session to it over a socketpair; the
// harness reads and decrypts whatever the node sends, and delivers signed messages straight to the node's
// transport handler (single-threaded, deterministic).
struct FakePeer {
    PeerId id{};
    int fd = -1;
    Node* node = nullptr;
    std::array<std::uint8_t, 32> last_key{};
    std::vector<std::uint8_t> inbuf;
    std::vector<std::array<std::uint8_t, 12>> nonces_seen;

    bool attach(Node& n, const PeerId& pid, std::uint64_t secret_seed, bool with_session = true) {
        node = &n;
        id = pid;
        crypto::Key secret{};
        verif::Prng g(secret_seed ^ 0xFA4Eull);
        g.fill(secret.bytes.data(), secret.bytes.size());
        n.register_shared_secret(id, secret);
        last_key = *n.session_key(id);
        if (!with_session) return true;
        int sv[2];
        if (::socketpair(AF_UNIX, SOCK_STREAM, 0, sv) != 0) return false;
        fd = sv[0];
        int fl = ::fcntl(fd, F_GETFL, 0);
        ::fcntl(fd, F_SETFL, fl | O_NONBLOCK);
        int big = 4 << 20;
        ::setsockopt(sv[1], SOL_SOCKET, SO_SNDBUF, &big, sizeof big);
        ::setsockopt(fd, SOL_SOCKET, SO_RCVBUF, &big, sizeof big);
        return Access::sessions(n).adopt_outbound_socket(id, static_cast<network::SessionManager::SocketHandle>(sv[1]), true);
    }

    std::array<std::uint8_t, 32> key() const { return node->session_key(id).value_or(last_key); }

    void deliver(const protocol::Message& m) {
        auto k = key();
        auto bytes = protocol::encode_signed(m, std::span<const std::uint8_t>(k.data(), k.size()));
        network::TransportMessage tm{};
        tm.peer_id = id;
        tm.payload = std::move(bytes);
        tm.endpoint = "fake";
        Access::handle_transport_message(*node, tm);
    }

    // Everything the node has written to this peer so far, decrypted and decoded.
    std::vector<protocol::Message> drain() {
        std::vector<protocol::Message> out;
        if (fd < 0) return out;
        std::uint8_t buf[65536];
        for (;;) {
            ssize_t r = ::recv(fd, buf, sizeof buf, 0);
            if (r > 0) { inbuf.insert(inbuf.end(), buf, buf + r); continue; }
            break;
        }
        std::size_t pos = 0;
        auto cur = key();
        while (inbuf.size() - pos >= 16) {
            std::uint32_t len = (std::uint32_t(inbuf[pos + 12]) << 24) | (std::uint32_t(inbuf[pos + 13]) << 16) | (std::uint32_t(inbuf[pos + 14]) << 8) | inbuf[pos + 15];
            if (inbuf.size() - pos - 16 < len) break;
            std::array<std::uint8_t, 12> nonce{};
            std::copy(inbuf.begin() + pos, inbuf.begin() + pos + 12, nonce.begin());
            nonces_seen.push_back(nonce);
            const std::uint8_t* ct = inbuf.data() + pos + 16;
            bool ok = false;
            for (const auto& k : {cur, last_key}) {
                auto pt = refs::chacha20(k.data(), nonce.data(), 0, ct, len);
                auto msg = protocol::decode_signed(pt, std::span<const std::uint8_t>(k.data(), k.size()));
                if (msg.has_value()) { out.push_back(*msg); ok = true; break; }
            }
            (void)ok;
            pos += 16 + len;
        }
        inbuf.erase(inbuf.begin(), inbuf.begin() + static_cast<std::ptrdiff_t>(pos));
        last_key = cur;
        return out;
    }

    void close() {
        if (fd >= 0) { ::close(fd); fd = -1; }
    }
    ~FakePeer() { close(); }
};

// Close the harness ends, let the reader threads leave by themselves, so Node's destructor does not sit in its
// 10 ms polling loops.
inline void quiesce(Node& n, std::vector<FakePeer*> peers) {
    for (auto* p : peers) p->close();
    for (int i = 0; i < 2000 && n.connected_peer_count() > 0; ++i) std::this_thread::sleep_for(std::chrono::microseconds(200));
}

// RAII form: declare AFTER the node and its fake peers so it runs first on every exit path (including a
// CaseFailure unwinding).  Needed because SessionManager::stop() tears sessions down only when start() was
// called; a node that merely adopted sockets would otherwise be destroyed under its live reader threads.
struct QuiesceGuard {
    Node& node;
    std::vector<FakePeer*> peers;
    ~QuiesceGuard() { quiesce(node, peers); }
};
}  // namespace vnode
