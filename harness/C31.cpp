// C31 (in-process part) — fetch output stays inside the chosen directory; the node only issues sanitised names.
//   (a) security::sanitize_filename_hint(name)
//   (b) Node::store_chunk(..., original_name = name)           -> "filename" metadata of the issued manifest
//   (c) control-plane STORE with PATH:<name>                   -> MANIFEST / FILENAME of the response
//   (d) the whole CLI (`eph fetch <manifest whose filename metadata is name> --out <dir>`), run in-process through
//       shim_main::cli_main against an in-process ControlServer: the directory tree is diffed afterwards.
// The oracle is the predicate written from the property statement (name_ok) plus a filesystem diff; manifests are
// read back with the independent decoder of manifest_gen.hpp, never with the repository's.
#define VERIF_FUZZ_TARGET 1
#include "verif.hpp"
#include "vclock.hpp"
#include "node_access.hpp"
#include "control_harness.hpp"
#include "manifest_gen.hpp"
#include "shim_main.hpp"

#include "ephemeralnet/security/StoreProof.hpp"

#include <filesystem>
#include <fstream>

namespace verif {
const PropertyInfo kInfo = {
    "C31", 8, 4, 10,
    "tape -> filename metadata string = prefix {none, '/', 'C:\\\\', '//', '/abs/dir/', './', '../'} + up to 10 pieces {safe token, '..', '.', '/', '\\\\', control byte 0..31/127, "
    "reserved :*?\"<>|, byte >= 0x80 (non-UTF-8), 200..399 x 'A', '../'*k, '..\\\\'*k, empty, space/trailing dot, NUL/LF/CR, '.'+control+'.' , '..'+control} + suffix {none, '/', '/.', '/..', "
    "'\\\\', control byte}. Checked: (a) sanitize_filename_hint(name); (b) Node::store_chunk(original_name=name): the filename metadata of the returned manifest and of its "
    "encoding read back by the independent decoder; (c) control STORE with PATH:name (names without LF): MANIFEST and FILENAME of the response; (d) eph fetch (whole CLI, "
    "in-process) of a manifest whose filename metadata is the raw string, into an existing directory or a new directory named with a trailing slash: the sentinel tree is "
    "diffed. Oracle: a recorded / created name is non-empty, not '.' or '..', <= 255 bytes, has no / \\\\ : * ? \" < > | and no byte < 0x20 or 0x7F (the hint: no '/', not '.', '..', "
    "<= 255); the fetch creates exactly one new regular file, a direct child of the chosen directory, holding the payload, and nothing else changes. "
    "Non-trivial: the string contains a separator, a dot segment or a control byte. Distinct = hash of the decoded case."};

namespace {
using namespace ephemeralnet;
namespace fs = std::filesystem;

bool name_ok(const std::string& s) {
    if (s.empty() || s == "." || s == ".." || s.size() > 255) return false;
    for (unsigned char ch : s) {
        if (ch < 0x20 || ch == 0x7F) return false;
        switch (ch) {
            case '/': case '\\': case ':': case '*': case '?': case '"': case '<': case '>': case '|': return false;
            default: break;
        }
    }
    return true;
}

std::string show(const std::string& s, std::size_t max = 80) {
    std::string o;
    char b[8];
    for (std::size_t i = 0; i < s.size() && i < max; ++i) {
        unsigned char ch = static_cast<unsigned char>(s[i]);
        if (ch >= 0x20 && ch < 0x7F && ch != '\\') o.push_back(static_cast<char>(ch));
        else { std::snprintf(b, sizeof b, "\\x%02x", ch); o += b; }
    }
    if (s.size() > max) o += "..(" + std::to_string(s.size()) + "B)";
    return o;
}

const char* kSafe[] = {"a", "file", "name.txt", "x y", "report.tar.gz", "\xE6\x97\xA5\xE6\x9C\xAC", "UPPER", "-rf", "~", "$HOME", "%00", "con"};
const char* kPrefix[] = {"", "/", "C:\\", "//", "/abs/dir/", "./", "../"};
const char* kReserved = ":*?\"<>|";

std::string build_name(Ctx& c) {
    const Tape& t = c.tape;
    std::string name = (t.h(1) % 14) < 7 ? kPrefix[t.h(1) % 14] : "";
    for (std::size_t i = 0; i < t.nrec() && i < 10; ++i) {
        Rec r = t.r(i);
        unsigned a = r.a(0), b = r.a(1);
        unsigned op = r.op() % 24;
        if (op >= 16) op = 0;
        switch (op) {
            case 0: name += kSafe[a % 12]; break;
            case 1: name += ".."; break;
            case 2: name += "."; break;
            case 3: name += "/"; break;
            case 4: name += "\\"; break;
            case 5: name.push_back(static_cast<char>(a % 33 == 32 ? 0x7F : a % 33)); break;
            case 6: name.push_back(kReserved[a % 7]); break;
            case 7: name.push_back(static_cast<char>(0x80 | (a & 0x7F))); break;
            case 8: name.append(200 + (a | (b << 8)) % 200, 'A'); break;
            case 9: for (unsigned k = 0; k <= a % 4; ++k) name += "../"; break;
            case 10: for (unsigned k = 0; k <= a % 4; ++k) name += "..\\"; break;
            case 11: break;
            case 12: name += (a & 1) ? " " : ". "; break;
            case 13: name.push_back("\0\n\r"[a % 3]); break;
            case 14: name += "."; name.push_back(static_cast<char>(b % 33 == 32 ? 0x7F : b % 33)); name += "."; break;
            case 15: name += ".."; name.push_back(static_cast<char>(b % 33 == 32 ? 0x7F : b % 33)); break;
        }
    }
    switch ((t.h(2) % 12) < 6 ? t.h(2) % 12 : 0) {
        case 0: break;
        case 1: name += "/"; break;
        case 2: name += "/."; break;
        case 3: name += "/.."; break;
        case 4: name += "\\"; break;
        case 5: name.push_back(static_cast<char>(1 + t.h(3) % 31)); break;
    }
    return name;
}

// every path below root, relative, with a type tag ("d", "f:<size>", "l")
std::map<std::string, std::string> snapshot(const fs::path& root) {
    std::map<std::string, std::string> out;
    std::error_code ec;
    for (fs::recursive_directory_iterator it(root, fs::directory_options::none, ec), end; !ec && it != end; it.increment(ec)) {
        const auto rel = it->path().lexically_relative(root).string();
        if (it->is_symlink(ec)) out[rel] = "l";
        else if (it->is_directory(ec)) out[rel] = "d";
        else out[rel] = "f:" + std::to_string(it->file_size(ec));
    }
    return out;
}

std::string read_file(const fs::path& p) {
    std::ifstream in(p, std::ios::binary);
    return std::string((std::istreambuf_iterator<char>(in)), std::istreambuf_iterator<char>());
}

std::uint64_t g_case_counter = 0;
}  // namespace

void run_case(Ctx& c) {
    vclock::Frozen frozen(c.tape.header_seed());
    vnode::silence_streams();
    const Tape& t = c.tape;
    const std::string name = build_name(c);
    const bool do_control = (t.h(0) & 1) != 0;
    const bool do_cli = (t.h(0) & 2) != 0;
    const bool new_dir_with_slash = (t.h(0) & 4) != 0;
    c.note("name='%s' (%zuB) control=%d cli=%d newdir=%d", show(name).c_str(), name.size(), do_control, do_cli, new_dir_with_slash);

    bool has_sep = name.find('/') != std::string::npos || name.find('\\') != std::string::npos;
    bool has_ctl = false;
    for (unsigned char ch : name) if (ch < 0x20 || ch == 0x7F) has_ctl = true;
    bool has_dots = false;
    {
        std::size_t start = 0;
        for (std::size_t i = 0; i <= name.size(); ++i) {
            if (i == name.size() || name[i] == '/' || name[i] == '\\') {
                std::string seg = name.substr(start, i - start);
                std::string bare;
                for (unsigned char ch : seg) if (!(ch < 0x20 || ch == 0x7F)) bare.push_back(static_cast<char>(ch));
                if (bare == "." || bare == "..") has_dots = true;
                start = i + 1;
            }
        }
    }
    {
        // the class the sanitisers are most likely to get wrong: the last segment is a dot segment only once control bytes are gone
        std::size_t cut = name.find_last_of('/');
        std::string last = cut == std::string::npos ? name : name.substr(cut + 1);
        std::string bare;
        for (unsigned char ch : last) if (!(ch < 0x20 || ch == 0x7F)) bare.push_back(static_cast<char>(ch));
        if ((bare == "." || bare == "..") && bare != last) c.nt("last_segment_dots_around_control");
        else if (last == "." || last == "..") c.label("last_segment_dots");
        else if (last.empty() && !name.empty()) c.label("trailing_slash");
    }
    if (has_sep) c.nt("has_separator");
    if (has_dots) c.nt("has_dot_segment");
    if (has_ctl) c.nt("has_control_byte");
    if (name.size() > 255) c.label("longer_than_255");
    if (name.empty()) c.label("empty_name");

    // ---- (a) the hint sanitiser used by `eph store` and the control-plane STORE
    {
        auto hint = security::sanitize_filename_hint(name);
        if (hint.has_value()) {
            const std::string& h = *hint;
            if (h.empty() || h == "." || h == ".." || h.find('/') != std::string::npos || h.size() > 255)
                c.fail("C31:hint-unsafe", "sanitize_filename_hint('" + show(name) + "') = '" + show(h) + "'");
            c.label("hint_present");
        }
    }

    Config cfg;
    cfg.identity_seed = 11;
    cfg.nat_stun_enabled = false;
    cfg.relay_enabled = false;
    cfg.store_pow_difficulty = 0;
    Node node(vnode::make_id(5, 0x31), cfg);

    Prng prng(t.h32(4) ^ 0xC31);
    auto payload = prng.bytes(1 + t.h(3) % 64);
    const ChunkId id = security::derive_chunk_id(std::span<const std::uint8_t>(payload));

    auto check_issued = [&](const std::string& uri, const char* where) -> mgen::Model {
        if (uri.rfind("eph://", 0) != 0) c.fail("C31:harness-error", std::string(where) + ": manifest URI without scheme");
        mgen::Bytes raw;
        if (!mgen::b64_decode_permissive(uri.substr(6), raw)) c.fail("C31:harness-error", std::string(where) + ": manifest is not base64");
        auto parsed = mgen::decode_payload(raw);
        if (parsed.status != mgen::Parsed::Ok) c.fail("C31:harness-error", std::string(where) + ": independent decoder rejects the issued manifest");
        auto it = parsed.m.metadata.find("filename");
        if (it != parsed.m.metadata.end()) {
            c.label("filename_recorded");
            if (!name_ok(it->second))
                c.fail("C31:node-manifest-filename-unsafe", std::string(where) + " issued a manifest whose filename is '" + show(it->second) + "' for the name '" + show(name) + "'");
        }
        return parsed.m;
    };

    // ---- (b) store_chunk
    auto manifest = node.store_chunk(id, payload, std::chrono::seconds(600), name);
    if (auto it = manifest.metadata.find("filename"); it != manifest.metadata.end() && !name_ok(it->second))
        c.fail("C31:node-manifest-filename-unsafe", "store_chunk returned filename '" + show(it->second) + "' for the name '" + show(name) + "'");
    mgen::Model issued = check_issued(protocol::encode_manifest(manifest), "store_chunk");

    std::unique_ptr<vctl::Server> server;
    if (do_control || do_cli) {
        server = std::make_unique<vctl::Server>(node);
        if (!server->ok()) c.fail("C31:harness-error", "control server did not start");
    }

    // ---- (c) control-plane STORE with a PATH header (one header line: the name cannot carry LF)
    if (do_control && name.find('\n') == std::string::npos) {
        auto payload2 = prng.bytes(1 + t.h(3) % 32);
        payload2.push_back(0xEE);
        vctl::Request req;
        req.command = "STORE";
        req.headers.push_back({"PATH", name});
        req.payload = payload2;
        auto resp = server->roundtrip(req);
        if (!resp.ok && server->timed_out()) { c.label("control_timeout_inconclusive"); return; }   // a stalled machine is not a verdict
        if (!resp.ok) c.fail("C31:harness-error", "no control response");
        if (resp.field("STATUS") == "OK") {
            c.label("control_store_ok");
            check_issued(resp.field("MANIFEST"), "control STORE");
            if (resp.has("FILENAME") && !name_ok(resp.field("FILENAME")))
                c.fail("C31:node-manifest-filename-unsafe", "control STORE answered FILENAME '" + show(resp.field("FILENAME")) + "' for PATH '" + show(name) + "'");
        } else {
            c.label("control_store_refused");
        }
    }

    // ---- (d) the CLI fetching a manifest whose filename metadata is the raw string
    if (do_cli) {
        mgen::Model m = issued;
        m.metadata["filename"] = name;     // arbitrary bytes, up to 65535
        m.discovery.clear();               // no hints: the CLI goes to the local daemon
        m.fallback.clear();
        const std::string uri = mgen::encode_uri(m);
        const fs::path base = fs::temp_directory_path() / ("hK_c31_" + std::to_string(::getpid()));
        const fs::path root = base / std::to_string(g_case_counter++);
        std::error_code ec;
        fs::remove_all(root, ec);
        fs::create_directories(root / "outside");
        fs::create_directories(root / "in");
        { std::ofstream(root / "outside" / "sentinel.txt") << "sentinel"; }
        { std::ofstream(root / "in" / "sibling.txt") << "sibling"; }
        const fs::path target = root / "in" / "t";
        std::string out_arg = target.string();
        if (new_dir_with_slash) out_arg += "/";
        else fs::create_directories(target);
        auto before = snapshot(root);
        int rc = shim_main::cli_main({"eph", "--control-host", "127.0.0.1", "--control-port", std::to_string(server->port()), "--yes", "fetch", uri, "--out", out_arg});
        auto after = snapshot(root);
        std::vector<std::string> created, changed;
        for (auto& [p, tag] : after) {
            auto it = before.find(p);
            if (it == before.end()) created.push_back(p);
            else if (it->second != tag) changed.push_back(p);
        }
        for (auto& [p, tag] : before) if (!after.count(p)) changed.push_back(p);
        std::string listing;
        for (auto& p : created) listing += "'" + show(p) + "' ";
        auto cleanup = [&] { std::error_code e2; fs::remove_all(root, e2); fs::remove(base, e2); };
        const std::string tprefix = "in/t/";
        std::vector<std::string> files;
        for (auto& p : created) {
            if (p == "in/t" && new_dir_with_slash) continue;   // the chosen directory itself
            files.push_back(p);
        }
        std::string bad;
        if (!changed.empty()) bad = "existing entry changed or vanished: '" + show(changed[0]) + "'";
        for (auto& p : files) {
            if (p.rfind(tprefix, 0) != 0) { bad = "created outside the chosen directory: '" + show(p) + "'"; break; }
            std::string leaf = p.substr(tprefix.size());
            if (leaf.find('/') != std::string::npos) { bad = "created below a sub-directory of the chosen directory: '" + show(p) + "'"; break; }
            if (after[p].rfind("f:", 0) != 0) { bad = "created something that is not a regular file: '" + show(p) + "'"; break; }
        }
        if (!bad.empty()) { cleanup(); c.fail("C31:cli-output-escapes-directory", bad + " (filename metadata '" + show(name) + "', created: " + listing + ")"); }
        if (files.size() == 1) {
            std::string leaf = files[0].substr(tprefix.size());
            if (!name_ok(leaf)) { cleanup(); c.fail("C31:cli-unsanitised-name", "created '" + show(leaf) + "' for filename metadata '" + show(name) + "'"); }
            std::string data = read_file(root / files[0]);
            bool same = data.size() == payload.size() && std::equal(data.begin(), data.end(), reinterpret_cast<const char*>(payload.data()));
            if (!same) { cleanup(); c.fail("C31:cli-wrong-content", "the created file does not hold the payload"); }
            c.label(leaf == name ? "cli_name_kept" : "cli_name_rewritten");
        }
        if (rc != 0 || files.size() != 1) {
            cleanup();
            c.fail("C31:cli-no-output-file", "eph fetch returned " + std::to_string(rc) + " and created " + std::to_string(files.size()) + " entries (" + listing + ") for filename metadata '" + show(name) + "'");
        }
        cleanup();
        c.label("cli_fetch_done");
    }
    if (server) server->stop();
}

std::vector<std::vector<std::uint8_t>> seed_tapes() {
    auto mk = [](std::uint8_t mode, std::uint8_t prefix, std::uint8_t suffix, std::initializer_list<std::array<std::uint8_t, 4>> recs) {
        std::vector<std::uint8_t> t = {mode, prefix, suffix, 5, 1, 2, 3, 4};
        for (auto& r : recs) t.insert(t.end(), r.begin(), r.end());
        return t;
    };
    return {
        mk(3, 0, 0, {{14, 0, 1, 0}}),                       // ".\x01."
        mk(3, 6, 0, {{0, 1, 0, 0}}),                         // "../file"
        mk(7, 1, 0, {{0, 0, 0, 0}, {3, 0, 0, 0}, {1, 0, 0, 0}}),  // "/a/.."
        mk(3, 0, 3, {{0, 2, 0, 0}}),                         // "name.txt/.."
        mk(3, 2, 0, {{10, 1, 0, 0}, {0, 1, 0, 0}}),          // C:\..\..\file
        mk(3, 0, 0, {{8, 255, 0, 0}, {8, 1, 1, 0}}),         // long
        mk(3, 0, 0, {{15, 0, 9, 0}}),                        // "..\t"
    };
}
}  // namespace verif
