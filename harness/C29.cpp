// C29 — control responses reach the client intact, so `list` shows every chunk
// In-process Node + daemon::ControlServer; the client under test is daemon::ControlClient (and, for a sampled subset,
// the real `eph list` binary against the same port).  Oracle: semantic — the expected fields, lists and payloads are
// computed here from the node state the harness built (stored chunks, configured endpoints / bootstrap nodes /
// warnings, the requests sent so far), never from the server's own serialisation.
#define VERIF_FUZZ_TARGET 1
#include "ctl_common.hpp"

#include <cstdlib>

namespace verif {
const PropertyInfo kInfo = {
    "C29", 16, 4, 12,
    "tape -> daemon state: 0..8 stored chunks (count from {0,1,2,3,8} or uniform; one case in ~20: 200, 206, 260 or 420 chunks, i.e. a LIST value beyond 16 / 32 KiB; sizes 1..600 or 70000 bytes, TTLs 60..3600 s), 0..4 manual advertised endpoints "
    "(IPv4 / hostname / IPv6 literal hosts, port 0 or explicit, source label in {none, manual, config, auto:upnp, stun}, occasionally an empty host that the daemon skips), "
    "0..4 bootstrap nodes (with / without public identity), 0..3 auto-advertise warnings drawn from the seven warning templates of the sources, conflict flag, optional "
    "advertise host / port, control host and storage directory strings with blanks, colons and backslashes; one ControlClient::send per record: LIST | STATUS | DEFAULTS | "
    "METRICS | DIAGNOSTICS | PING | STORE (binary payload, optional TTL and PATH with blanks / colon) | FETCH STREAM:client of a stored chunk | an unsupported command | clock advance (seconds, or into the last 0.5 s / 1 ns of the earliest-expiring live chunk). "
    "Oracle: success flag, CODE and every scalar field equal the values computed from the node state; the lines of ENTRIES == one 'id,size,encrypted,ttl' per live chunk and "
    "COUNT agrees; the lines of ADVERTISE_ENDPOINTS / BOOTSTRAP_NODES / AUTO_ADVERTISE_WARNINGS correspond one-to-one to the configured lists; no other key appears; payloads are "
    "byte-identical (FETCH: the stored plaintext; METRICS: length == PAYLOAD-LENGTH and every request counter equals the number of requests sent); sampled: `eph --control-port N "
    "list` prints one ID= line per live chunk. Non-trivial: >= 2 chunks, or >= 2 endpoints / bootstrap nodes, or >= 1 warning. Distinct = hash of the decoded case."};

namespace {
using namespace ephemeralnet;
using ctl::Bytes;
using std::chrono::seconds;
const char* kMultiSig = "C29:multiline-value-breaks-framing";
const std::int64_t kChunkCount[] = {0, 1, 2, 3, 8};

const char* kWarnings[] = {
    "Auto-advertise: transport port not bound; no transport endpoints published.",
    "Auto-advertise: NAT discovery is unavailable; publish endpoints manually with --advertise-control.",
    "Auto-advertise: no transport endpoints were discovered; configure --advertise-control host[:port].",
    "Auto-advertise: no STUN candidate detected; published first discovered endpoint.",
    "Auto-advertise endpoints were suppressed because --advertise-auto is set to 'warn' and conflicting candidates were detected.",
    "Auto-advertise detected multiple candidate endpoints: 10.0.0.5:45000 [interface], 203.0.113.7:45000 [stun,upnp]. Pin a host with --advertise-control to avoid inconsistent manifests.",
    "Auto-advertise detected multiple transport endpoints: 192.168.1.20:45000 [interface], 198.51.100.4:45001 [upnp]. Pin a host with --advertise-control to avoid inconsistent manifests."};

struct LineExp {
    std::string exact;                       // non-empty: the line must equal this
    std::vector<std::string> must_contain;   // otherwise: every piece must occur in the line
};
struct Expect {
    bool success = true;
    std::map<std::string, std::string> scalars;
    std::map<std::string, std::vector<LineExp>> lists;  // multi-line values, one LineExp per line
    std::set<std::string> sorted_lists;                // lists compared as multisets (ENTRIES)
    std::set<std::string> nonempty;                    // keys that must be present with a non-empty value
    bool has_payload = false;
    bool check_payload = false;
    Bytes payload;
    bool multiline = false;  // the daemon's production contains a value with an embedded newline
};

std::vector<std::string> split_lines(const std::string& v, char sep = '\n') {
    std::vector<std::string> out;
    std::size_t start = 0;
    while (start <= v.size()) {
        auto nl = v.find(sep, start);
        std::string line = v.substr(start, nl == std::string::npos ? std::string::npos : nl - start);
        if (!line.empty()) out.push_back(line);
        if (nl == std::string::npos) break;
        start = nl + 1;
    }
    return out;
}

struct Chunk {
    ChunkId id{};
    Bytes plain;
    std::string uri;
};
}  // namespace

void run_case(Ctx& c) {
    vclock::Frozen frozen(c.tape.header_seed());
    vnode::silence_streams();
    const Tape& t = c.tape;
    const bool known = c.is_known(kMultiSig);

    // ---- daemon state
    unsigned nchunks = static_cast<unsigned>(boundary_int(t.h(0), t.h(0), kChunkCount, 0, 8));
    // "any number of chunks": one case in ~20 holds enough chunks for the LIST value to pass 16 KiB / 32 KiB (one entry is ~80 bytes)
    static const unsigned kManyChunks[] = {200, 206, 260, 420};
    const bool many = t.h(0) >= 116 && t.h(0) < 128;
    if (many) { nchunks = kManyChunks[t.h(0) % 4]; c.label("two_hundred_or_more_chunks"); }
    unsigned nend = t.h(1) % 5, nboot = t.h(2) % 5, nwarn = t.h(3) % 4;
    const bool conflict = (t.h(3) & 0x40) != 0;
    if (known) {
        if (nend > 1) { nend = 1; c.count_excluded(kMultiSig); }
        if (nboot > 1) { nboot = 1; c.count_excluded(kMultiSig); }
        if (nwarn > 0) { nwarn = 0; c.count_excluded(kMultiSig); }
    }
    Prng sg(t.h32(6) ^ 0xC29);
    static const char* kCtlHosts[] = {"127.0.0.1", "0.0.0.0", "ctl.example.net", "my host:with colon", "::1"};
    static const char* kDirs[] = {"storage", "/var/lib/eph data", "C:\\eph\\store", "./rel/dir:x", "s"};
    static const char* kSources[] = {"", "manual", "config", "auto:upnp", "stun"};
    Config cfg = ctl::quiet_config(29);
    cfg.control_host = kCtlHosts[t.h(5) % 5];
    cfg.storage_directory = kDirs[(t.h(5) / 5) % 5];
    cfg.control_port = static_cast<std::uint16_t>(1024 + t.h16(10) % 60000);
    if (t.h(4) & 1) cfg.advertise_control_host = (t.h(4) & 8) ? "eph.example.org" : "203.0.113.9";
    if (t.h(4) & 2) cfg.advertise_control_port = static_cast<std::uint16_t>(1 + t.h16(12) % 65535);
    cfg.advertise_auto_mode = (t.h(4) & 4) ? Config::AdvertiseAutoMode::Warn : (t.h(4) & 16) ? Config::AdvertiseAutoMode::Off : Config::AdvertiseAutoMode::On;
    cfg.min_manifest_ttl = seconds(30);
    for (unsigned i = 0; i < nboot; ++i) {
        Config::BootstrapNode b;
        b.id = vnode::make_id(100 + i + t.h(6), static_cast<std::uint8_t>(0xB0 + i));
        b.host = (sg.next() & 1) ? "boot" + std::to_string(i) + ".example.net" : "192.0.2." + std::to_string(1 + sg.below(250));
        b.port = static_cast<std::uint16_t>(1 + sg.below(65535));
        if (sg.next() & 1) b.public_identity = static_cast<std::uint32_t>(2 + sg.below(1u << 30));
        cfg.bootstrap_nodes.push_back(b);
    }
    Node node(vnode::make_id(9, 0x29), cfg);
    // lists the daemon holds at run time (normally filled by the CLI / auto-advertise discovery)
    for (unsigned i = 0; i < nend; ++i) {
        Config::AdvertisedEndpoint e;
        unsigned style = static_cast<unsigned>(sg.below(7));
        e.host = style == 0 ? "" : style <= 2 ? "198.51.100." + std::to_string(1 + sg.below(250)) : style <= 4 ? "host" + std::to_string(i) + ".example" : "2001:db8::" + std::to_string(1 + sg.below(99));
        e.port = (sg.next() & 1) ? 0 : static_cast<std::uint16_t>(1 + sg.below(65535));
        e.manual = true;
        e.source = kSources[sg.below(5)];
        node.config().advertised_endpoints.push_back(e);
    }
    for (unsigned i = 0; i < nwarn; ++i) node.config().auto_advertise_warnings.push_back(kWarnings[sg.below(7)]);
    node.config().auto_advertise_conflict = conflict;

    std::vector<Chunk> chunks;
    for (unsigned i = 0; i < nchunks; ++i) {
        Chunk ch;
        std::size_t size = many ? 1 + sg.below(40) : (sg.below(16) == 0) ? 70000 : 1 + sg.below(600);
        ch.plain = sg.bytes(size);
        ch.id = ctl::payload_chunk_id(ch.plain);
        ch.uri = protocol::encode_manifest(node.store_chunk(ch.id, ch.plain, seconds(60 + sg.below(3541))));
        chunks.push_back(std::move(ch));
    }
    c.note("chunks=%u endpoints=%u bootstrap=%u warnings=%u conflict=%d ctlhost='%s' dir='%s'", nchunks, nend, nboot, nwarn, conflict, cfg.control_host.c_str(), cfg.storage_directory.c_str());
    if (nchunks >= 2) c.nt("two_or_more_chunks");
    if (nend >= 2 || nboot >= 2) c.nt("two_or_more_endpoints_or_bootstrap_nodes");
    if (nwarn >= 1) c.nt("warnings_present");

    vctl::Server server(node);
    if (!server.ok()) c.fail("C29:harness-error", "control server did not start");
    daemon::ControlClient client("127.0.0.1", server.port());

    // counters the daemon keeps (METRICS)
    std::map<std::string, std::uint64_t> counters = {
        {"ephemeralnet_control_connections_total", 0}, {"ephemeralnet_control_unsupported_total", 0}, {"ephemeralnet_command_ping_requests_total", 0},
        {"ephemeralnet_command_status_requests_total", 0}, {"ephemeralnet_command_list_requests_total", 0}, {"ephemeralnet_command_defaults_requests_total", 0},
        {"ephemeralnet_command_stop_requests_total", 0}, {"ephemeralnet_command_metrics_requests_total", 0}, {"ephemeralnet_command_diagnostics_requests_total", 0},
        {"ephemeralnet_command_store_requests_total", 0}, {"ephemeralnet_command_store_success_total", 0}, {"ephemeralnet_command_store_bytes_total", 0},
        {"ephemeralnet_command_fetch_requests_total", 0}, {"ephemeralnet_command_fetch_success_total", 0}, {"ephemeralnet_command_fetch_stream_success_total", 0},
        {"ephemeralnet_command_fetch_bytes_total", 0}};

    auto live_entries = [&]() {
        std::scoped_lock lock(server.node_mutex());
        return node.stored_chunks();
    };

    auto judge = [&](const std::string& cmd, const std::optional<daemon::ControlResponse>& got, const Expect& e) {
        auto bad = [&](const char* sig, const std::string& msg) {
            c.fail(e.multiline ? kMultiSig : sig, cmd + ": " + msg);
        };
        if (!got.has_value()) c.fail("C29:harness-error", cmd + ": ControlClient::send returned nothing");
        const auto& f = got->fields;
        auto show = [&]() {
            std::string s = " | client saw:";
            for (auto& kv : f) s += " " + kv.first + "='" + ctl::shorten(kv.second, 60) + "'";
            return s;
        };
        if (got->success != e.success) bad("C29:success-flag-wrong", std::string("success=") + (got->success ? "true" : "false") + show());
        for (auto& [k, v] : e.scalars) {
            auto it = f.find(k);
            if (it == f.end()) bad("C29:field-missing", "field " + k + " missing" + show());
            if (it->second != v) bad("C29:field-value-wrong", "field " + k + "='" + ctl::shorten(it->second, 80) + "', daemon produced '" + ctl::shorten(v, 80) + "'");
        }
        for (auto& k : e.nonempty) {
            auto it = f.find(k);
            if (it == f.end() || it->second.empty()) bad("C29:field-missing", "field " + k + " missing or empty" + show());
        }
        for (auto& [k, lines] : e.lists) {
            auto it = f.find(k);
            if (it == f.end()) {
                if (lines.empty()) continue;
                bad("C29:field-missing", "list field " + k + " missing" + show());
            }
            auto gl = split_lines(it->second);
            std::vector<LineExp> want = lines;
            if (e.sorted_lists.count(k)) {
                std::sort(gl.begin(), gl.end());
                std::sort(want.begin(), want.end(), [](const LineExp& a, const LineExp& b) { return a.exact < b.exact; });
            }
            if (gl.size() != want.size()) bad("C29:list-length-wrong", k + " has " + std::to_string(gl.size()) + " line(s), daemon produced " + std::to_string(want.size()) + show());
            for (std::size_t i = 0; i < gl.size(); ++i) {
                if (!want[i].exact.empty()) {
                    if (gl[i] != want[i].exact) bad("C29:list-line-wrong", k + " line " + std::to_string(i) + " '" + ctl::shorten(gl[i], 90) + "' != '" + ctl::shorten(want[i].exact, 90) + "'");
                } else {
                    for (auto& piece : want[i].must_contain)
                        if (gl[i].find(piece) == std::string::npos) bad("C29:list-line-wrong", k + " line " + std::to_string(i) + " '" + ctl::shorten(gl[i], 90) + "' lacks '" + piece + "'");
                }
            }
        }
        for (auto& kv : f) {
            if (e.scalars.count(kv.first) || e.lists.count(kv.first) || e.nonempty.count(kv.first)) continue;
            bad("C29:spurious-key", "unexpected field " + kv.first + "='" + ctl::shorten(kv.second, 60) + "'");
        }
        if (got->has_payload != e.has_payload) bad("C29:payload-presence-wrong", std::string("has_payload=") + (got->has_payload ? "true" : "false"));
        if (e.check_payload && got->payload != e.payload) bad("C29:payload-mismatch", "payload of " + std::to_string(got->payload.size()) + " bytes differs from the " + std::to_string(e.payload.size()) + " bytes the daemon holds");
    };

    auto expect_list = [&]() {
        Expect e;
        auto snap = live_entries();
        e.scalars["CODE"] = "OK_LIST";
        e.scalars["COUNT"] = std::to_string(snap.size());
        std::vector<LineExp> lines;
        const auto now = std::chrono::steady_clock::now();
        for (auto& s : snap) {
            long long left = s.expires_at <= now ? 0 : std::chrono::duration_cast<seconds>(s.expires_at - now).count();
            lines.push_back({ctl::hex_full(s.id) + "," + std::to_string(s.size) + "," + (s.encrypted ? "encrypted" : "plain") + "," + std::to_string(left), {}});
        }
        e.lists["ENTRIES"] = lines;
        e.sorted_lists.insert("ENTRIES");
        e.multiline = !snap.empty();  // every entry is followed by a newline inside the value
        return e;
    };

    for (std::size_t i = 0; i < t.nrec(); ++i) {
        Rec r = t.r(i);
        const unsigned op = r.op() % 10;
        const Config& nc = node.config();
        switch (op) {
            case 0: {  // LIST
                Expect e = expect_list();
                if (known && e.multiline) { c.count_excluded(kMultiSig); c.note("|LIST[excluded]"); break; }
                c.note("|LIST");
                counters["ephemeralnet_control_connections_total"]++;
                counters["ephemeralnet_command_list_requests_total"]++;
                judge("LIST", client.send("LIST"), e);
                break;
            }
            case 1: {  // STATUS
                c.note("|STATUS");
                Expect e;
                e.scalars = {{"CODE", "OK_STATUS"}, {"PEERS", "0"}, {"CHUNKS", std::to_string(live_entries().size())}, {"TRANSPORT_PORT", "0"}};
                if (!nc.auto_advertise_warnings.empty()) {
                    std::vector<LineExp> w;
                    for (auto& s : nc.auto_advertise_warnings) w.push_back({s, {}});
                    e.lists["AUTO_ADVERTISE_WARNINGS"] = w;
                    e.scalars["AUTO_ADVERTISE_CONFLICT"] = nc.auto_advertise_conflict ? "1" : "0";
                    e.multiline = true;
                }
                counters["ephemeralnet_control_connections_total"]++;
                counters["ephemeralnet_command_status_requests_total"]++;
                judge("STATUS", client.send("STATUS"), e);
                break;
            }
            case 2: {  // DEFAULTS
                c.note("|DEFAULTS");
                Expect e;
                e.scalars = {{"CODE", "OK_DEFAULTS"},
                             {"DEFAULT_TTL", std::to_string(nc.default_chunk_ttl.count())},
                             {"MIN_TTL", std::to_string(nc.min_manifest_ttl.count())},
                             {"MAX_TTL", std::to_string(nc.max_manifest_ttl.count())},
                             {"KEY_ROTATION", std::to_string(nc.key_rotation_interval.count())},
                             {"ANNOUNCE_INTERVAL", std::to_string(nc.announce_min_interval.count())},
                             {"ANNOUNCE_BURST", std::to_string(nc.announce_burst_limit)},
                             {"ANNOUNCE_WINDOW", std::to_string(nc.announce_burst_window.count())},
                             {"ANNOUNCE_POW", std::to_string(nc.announce_pow_difficulty)},
                             {"HANDSHAKE_POW", std::to_string(nc.handshake_pow_difficulty)},
                             {"STORE_POW", std::to_string(nc.store_pow_difficulty)},
                             {"CONTROL_HOST", nc.control_host},
                             {"CONTROL_PORT", std::to_string(nc.control_port)},
                             {"TRANSPORT_PORT", std::to_string(nc.transport_listen_port)},
                             {"CONTROL_STREAM_MAX", std::to_string(nc.control_stream_max_bytes)},
                             {"STORAGE_PERSISTENT", nc.storage_persistent_enabled ? "1" : "0"},
                             {"STORAGE_DIR", nc.storage_directory},
                             {"FETCH_MAX_PARALLEL", std::to_string(nc.fetch_max_parallel_requests)},
                             {"UPLOAD_MAX_PARALLEL", std::to_string(nc.upload_max_parallel_transfers)},
                             {"ADVERTISE_AUTO_MODE", nc.advertise_auto_mode == Config::AdvertiseAutoMode::On ? "on" : nc.advertise_auto_mode == Config::AdvertiseAutoMode::Warn ? "warn" : "off"}};
                if (nc.advertise_control_host) e.scalars["ADVERTISE_HOST"] = *nc.advertise_control_host;
                if (nc.advertise_control_port) e.scalars["ADVERTISE_PORT"] = std::to_string(*nc.advertise_control_port);
                std::vector<LineExp> eps, boots;
                for (auto& ep : nc.advertised_endpoints) {
                    if (ep.host.empty()) continue;  // the daemon does not publish an endpoint without a host
                    LineExp le;
                    le.must_contain.push_back(ep.host + ":" + std::to_string(ep.port ? ep.port : nc.control_port));
                    if (!ep.source.empty()) le.must_contain.push_back(ep.source);
                    eps.push_back(le);
                }
                for (auto& b : nc.bootstrap_nodes) {
                    if (b.host.empty()) continue;
                    LineExp le;
                    le.must_contain.push_back(ctl::hex_full(b.id));
                    le.must_contain.push_back(b.host + ":" + std::to_string(b.port));
                    if (b.public_identity) le.must_contain.push_back(std::to_string(*b.public_identity));
                    boots.push_back(le);
                }
                if (!nc.advertised_endpoints.empty()) e.lists["ADVERTISE_ENDPOINTS"] = eps;
                if (!nc.bootstrap_nodes.empty()) e.lists["BOOTSTRAP_NODES"] = boots;
                e.multiline = eps.size() >= 2 || boots.size() >= 2;
                counters["ephemeralnet_control_connections_total"]++;
                counters["ephemeralnet_command_defaults_requests_total"]++;
                judge("DEFAULTS", client.send("DEFAULTS"), e);
                break;
            }
            case 3: {  // METRICS
                c.note("|METRICS");
                counters["ephemeralnet_control_connections_total"]++;
                counters["ephemeralnet_command_metrics_requests_total"]++;
                auto got = client.send("METRICS");
                Expect e;
                e.scalars["CODE"] = "OK_METRICS";
                e.nonempty.insert("PAYLOAD-LENGTH");
                e.has_payload = true;
                judge("METRICS", got, e);
                if (got->fields.at("PAYLOAD-LENGTH") != std::to_string(got->payload.size())) c.fail("C29:payload-mismatch", "METRICS: PAYLOAD-LENGTH " + got->fields.at("PAYLOAD-LENGTH") + " but " + std::to_string(got->payload.size()) + " payload bytes");
                std::map<std::string, std::string> seen;
                for (auto& line : split_lines(std::string(got->payload.begin(), got->payload.end()))) {
                    if (line[0] == '#') continue;
                    auto sp = line.find(' ');
                    if (sp == std::string::npos) c.fail("C29:payload-mismatch", "METRICS: sample line without a value: '" + ctl::shorten(line, 80) + "'");
                    seen[line.substr(0, sp)] = line.substr(sp + 1);
                }
                for (auto& [name, v] : counters) {
                    auto it = seen.find(name);
                    if (it == seen.end() || it->second != std::to_string(v))
                        c.fail("C29:payload-mismatch", "METRICS: " + name + " = '" + (it == seen.end() ? std::string("(absent)") : it->second) + "' in the client's payload, the daemon has handled " + std::to_string(v));
                }
                break;
            }
            case 4: {  // DIAGNOSTICS
                c.note("|DIAGNOSTICS");
                Expect e;
                e.scalars = {{"CODE", "OK_DIAGNOSTICS"}, {"NAT_TYPE", "Unknown"}, {"ACTIVE_PEERS", "0"}};
                counters["ephemeralnet_control_connections_total"]++;
                counters["ephemeralnet_command_diagnostics_requests_total"]++;
                auto got = client.send("DIAGNOSTICS");
                std::vector<std::string> want;
                for (auto& b : nc.bootstrap_nodes) want.push_back(b.host + ":" + std::to_string(b.port) + "=disconnected");
                if (want.empty()) e.scalars["BOOTSTRAP_STATUS"] = "";
                else e.nonempty.insert("BOOTSTRAP_STATUS");
                judge("DIAGNOSTICS", got, e);
                auto have = split_lines(got->fields.at("BOOTSTRAP_STATUS"), ',');
                std::sort(have.begin(), have.end());
                std::sort(want.begin(), want.end());
                if (have != want) c.fail("C29:field-value-wrong", "DIAGNOSTICS: BOOTSTRAP_STATUS='" + ctl::shorten(got->fields.at("BOOTSTRAP_STATUS"), 120) + "' does not name the " + std::to_string(want.size()) + " configured bootstrap node(s)");
                break;
            }
            case 5: {  // PING
                c.note("|PING");
                Expect e;
                e.scalars = {{"CODE", "OK_PING"}, {"MESSAGE", "pong"}};
                counters["ephemeralnet_control_connections_total"]++;
                counters["ephemeralnet_command_ping_requests_total"]++;
                judge("PING", client.send("PING"), e);
                break;
            }
            case 6: {  // STORE through the client
                Prng pg(r.seed() * 7919 + i);
                Bytes payload = pg.bytes(1 + r.a(0) * 3);
                if (r.a(1) & 1) { payload[0] = '\n'; if (payload.size() > 1) payload[1] = '\n'; }
                daemon::ControlFields fields;
                std::string ttl_expect = std::to_string(nc.default_chunk_ttl.count());
                if (r.a(1) & 2) { fields["TTL"] = std::to_string(120 + r.a(2)); ttl_expect = fields["TTL"]; }
                static const char* kPaths[] = {"", "notes.txt", "dir/my file:v2.txt", "/abs/p/archive.tar.gz", "weird name (1).bin"};
                std::string path = kPaths[(r.a(1) >> 2) % 5];
                if (!path.empty()) fields["PATH"] = path;
                c.note("|STORE(%zuB%s%s)", payload.size(), fields.count("TTL") ? ",ttl" : "", path.empty() ? "" : (",path='" + path + "'").c_str());
                counters["ephemeralnet_control_connections_total"]++;
                counters["ephemeralnet_command_store_requests_total"]++;
                counters["ephemeralnet_command_store_success_total"]++;
                counters["ephemeralnet_command_store_bytes_total"] += payload.size();
                auto got = client.send("STORE", fields, payload);
                Expect e;
                e.scalars = {{"CODE", "OK_STORE"}, {"SIZE", std::to_string(payload.size())}, {"TTL", ttl_expect}};
                if (!path.empty()) e.scalars["SOURCE"] = path;
                const ChunkId id = ctl::payload_chunk_id(payload);
                {
                    std::scoped_lock lock(server.node_mutex());
                    auto& mc = vnode::Access::manifest_cache(node);
                    auto it = mc.find(ctl::hex_full(id));
                    if (it == mc.end()) {
                        std::string seen;
                        if (got) for (auto& kv : got->fields) seen += " " + kv.first + "='" + ctl::shorten(kv.second, 50) + "'";
                        c.fail("C29:harness-error", "STORE through ControlClient did not store the chunk:" + seen);
                    }
                    e.scalars["MANIFEST"] = protocol::encode_manifest(it->second);
                    if (auto fn = it->second.metadata.find("filename"); fn != it->second.metadata.end()) e.scalars["FILENAME"] = fn->second;
                }
                judge("STORE", got, e);
                Chunk ch;
                ch.id = id;
                ch.plain = payload;
                ch.uri = e.scalars["MANIFEST"];
                chunks.push_back(std::move(ch));
                vclock::advance(seconds(31));  // stay clear of the 6-per-30 s STORE limit
                break;
            }
            case 7: {  // FETCH stream through the client
                if (chunks.empty()) { c.note("|FETCH(none)"); break; }
                const Chunk& ch = chunks[r.a(0) % chunks.size()];
                bool live = false;
                // (a manifest with less than the minimum TTL left is refused at registration: only fetch chunks well inside their lifetime)
                for (auto& s : live_entries()) if (s.id == ch.id && s.expires_at - std::chrono::steady_clock::now() >= seconds(60)) live = true;
                if (!live) { c.note("|FETCH(expired-or-near-expiry)"); break; }
                c.note("|FETCH(%zuB)", ch.plain.size());
                counters["ephemeralnet_control_connections_total"]++;
                counters["ephemeralnet_command_fetch_requests_total"]++;
                counters["ephemeralnet_command_fetch_success_total"]++;
                counters["ephemeralnet_command_fetch_stream_success_total"]++;
                counters["ephemeralnet_command_fetch_bytes_total"] += ch.plain.size();
                Expect e;
                e.scalars = {{"CODE", "OK_FETCH"}, {"SIZE", std::to_string(ch.plain.size())}, {"STREAM", "CLIENT"}, {"PAYLOAD-LENGTH", std::to_string(ch.plain.size())}};
                e.has_payload = true;
                e.check_payload = true;
                e.payload = ch.plain;
                judge("FETCH", client.send("FETCH", {{"MANIFEST", ch.uri}, {"STREAM", "client"}}), e);
                vclock::advance(seconds(31));
                break;
            }
            case 8: {  // unsupported command: an error response
                c.note("|FROBNICATE");
                Expect e;
                e.success = false;
                e.scalars["CODE"] = "ERR_UNSUPPORTED_COMMAND";
                e.nonempty = {"MESSAGE", "HINT"};
                counters["ephemeralnet_control_connections_total"]++;
                counters["ephemeralnet_control_unsupported_total"]++;
                judge("FROBNICATE", client.send("FROBNICATE"), e);
                break;
            }
            case 9: {
                if ((r.a(1) & 3) >= 2) {
                    // into the last second of the earliest-expiring live chunk: it is still live, so LIST must still show it (ttl 0)
                    auto snap = live_entries();
                    const auto nowt = std::chrono::steady_clock::now();
                    auto earliest = std::chrono::steady_clock::time_point::max();
                    for (auto& s : snap) if (s.expires_at > nowt) earliest = std::min(earliest, s.expires_at);
                    if (earliest != std::chrono::steady_clock::time_point::max()) {
                        auto d = earliest - nowt - ((r.a(1) & 3) == 2 ? std::chrono::nanoseconds(500'000'000) : std::chrono::nanoseconds(1));
                        if (d.count() > 0) {
                            c.note("|adv(to %s before the earliest deadline)", (r.a(1) & 3) == 2 ? "0.5s" : "1ns");
                            vclock::advance(d);
                            c.label("clock_in_last_second_of_a_live_chunk");
                            break;
                        }
                    }
                }
                long long d = 1 + r.a(0) * 5;
                c.note("|adv(%llds)", d);
                vclock::advance(seconds(d));
                break;
            }
        }
    }

    // ---- sampled: the real CLI binary against the same daemon
    const char* tier = std::getenv("VERIF_TIER");
    const bool thorough = tier && std::string(tier) == "thorough";
    if ((t.h(14) % (thorough ? 16u : 64u)) == (thorough ? 15u : 63u)) {
        Expect e = expect_list();
        if (known && e.multiline) {
            c.count_excluded(kMultiSig);
        } else {
            const char* build = std::getenv("VERIF_BUILD");
            std::string bin = std::string(build ? build : "/verif/build") + "/bin/eph";
            if (::access(bin.c_str(), X_OK) == 0) {
                std::string cmd = "ASAN_OPTIONS=detect_leaks=0 timeout 20 " + bin + " --control-port " + std::to_string(server.port()) + " list 2>/dev/null";
                std::string out;
                if (FILE* p = ::popen(cmd.c_str(), "r")) {
                    char buf[4096];
                    std::size_t n;
                    while ((n = ::fread(buf, 1, sizeof buf, p)) > 0) out.append(buf, n);
                    int st = ::pclose(p);
                    if (st == 0) {
                        c.label("eph_list_binary_run");
                        c.note("|eph-list");
                        std::set<std::string> printed;
                        for (auto& line : split_lines(out)) {
                            auto pos = line.find("ID=");
                            if (pos != std::string::npos) printed.insert(line.substr(pos + 3, 64));
                        }
                        std::set<std::string> want;
                        for (auto& s : live_entries()) want.insert(ctl::hex_full(s.id));
                        if (printed != want)
                            c.fail(e.multiline ? kMultiSig : "C29:eph-list-wrong", "`eph list` printed " + std::to_string(printed.size()) + " chunk line(s), the daemon holds " + std::to_string(want.size()) + " live chunk(s)");
                    } else {
                        c.label("eph_list_binary_inconclusive");  // timeouts / start-up trouble with a real process are never violations
                    }
                }
            }
        }
    }
    server.stop();
}

std::vector<std::vector<std::uint8_t>> seed_tapes() {
    std::vector<std::vector<std::uint8_t>> v;
    for (std::uint8_t op = 0; op < 10; ++op) {
        std::vector<std::uint8_t> t = {2, 2, 2, 1, 3, 3, 7, 7, 7, 7, 1, 2, 3, 4, 0, 0};
        t.insert(t.end(), {op, 1, 2, 3, 6, 9, 1, 0, 7, 0, 0, 0, op, 0, 0, 0});
        v.push_back(t);
    }
    return v;
}
}  // namespace verif
