// C14 — transport sessions deliver exactly what was sent, within the size limit
// Real loopback TCP sockets and the real clock (no vclock): SessionManager pairs, a raw TCP peer written in the
// harness (wire view), two Nodes, and concurrent senders.  Timeouts are inconclusive (label), never violations.
#include "verif.hpp"
#include "refs.hpp"
#include "node_access.hpp"
#include "access.hpp"

#include "ephemeralnet/network/SessionManager.hpp"
#include "ephemeralnet/protocol/Message.hpp"

#include <arpa/inet.h>
#include <atomic>
#include <condition_variable>
#include <csignal>
#include <functional>
#include <memory>
#include <mutex>
#include <netinet/in.h>
#include <netinet/tcp.h>
#include <poll.h>
#include <set>
#include <sys/socket.h>
#include <thread>
#include <unistd.h>

VERIF_ACCESS_MEMBER(SmListenSocket, ephemeralnet::network::SessionManager, listen_socket_, ephemeralnet::network::SessionManager::SocketHandle)

namespace verif {
const PropertyInfo kInfo = {
    "C14", 12, 4, 30,
    "tape -> header picks the topology: two SessionManagers on loopback TCP (handshake with/without ACK), a raw TCP peer in the harness that speaks the "
    "identity+handshake frames itself as client or as server (wire view), two Nodes (PoW handshake, send_secure), or two threads sending concurrently to one "
    "raw peer whose reader starts late (the two sequences repeated for up to 240 sends, barrier before each common send; frames must be a shuffle of the two "
    "per-thread sequences); session key random / all-zero / all-0xFF. Each 4-byte record is one send: direction, payload size from "
    "{0,1,63,64,65,4096,65536,2^20-1,2^20,2^20+1,2*2^20} or uniform <= 2048, gap before it {0 (burst),0.2,1,5,20 ms} and, in one case in twenty, one idle gap of 2.3 s (thorough: also 5.5 s) on the established session; raw-peer frames are written whole, "
    "split inside the 16-byte header, or dribbled; a raw frame announcing a length above 1 MiB (2^20+1, 2^20+2, 2*2^20, 2^24, 2^31-1, 2^31, 2^32-1; header "
    "only or with the body) ends the sequence. Oracle (independent: the expected payload list kept by the harness + RFC 8439 ChaCha20 from refs): the "
    "receiver's handler gets exactly the payloads <= 1 MiB, once, in order, byte-identical, from the right peer (a sentinel message closes each direction so a "
    "lost tail is an observed mismatch, not a timeout; the count is re-read after the session ended for late duplicates); send(> 1 MiB) returns false and the "
    "raw peer reads not one extra byte up to EOF; send(<= 1 MiB) on a working session returns true; every frame read by the raw peer is "
    "nonce(12)|be32(len)|ChaCha20(key,nonce,ctr 0,payload) with pairwise distinct nonces (handshake ACK frame included); after an oversized length the raw "
    "peer sees EOF/RST, is_connected is false at that instant and the handler was not called; a session that ends on its own (nobody closed it) while accepted "
    "payloads are undelivered is a violation, a session that is up but slow (15 s) is inconclusive. Non-trivial: a stalled receiver under ten back-to-back 1 MiB sends (two-manager mode, 1/40), an idle gap above 2 s, a size within +-1 of 1 MiB, or >= 3 sends "
    "back-to-back in one direction, or an oversized raw frame. Distinct = hash of the decoded case."};

namespace {
using namespace ephemeralnet;
using network::SessionManager;
using network::TransportMessage;
using Bytes = std::vector<std::uint8_t>;
using Key32 = std::array<std::uint8_t, 32>;
using Clock = std::chrono::steady_clock;
using std::chrono::milliseconds;

constexpr std::size_t kMiB = 1u << 20;
constexpr int kWaitMs = 15000;        // generous: anything slower is "inconclusive", never a violation
constexpr std::size_t kByteBudget = 2 * kMiB + 256 * 1024;  // transmitted bytes per case (sanitizer-built ChaCha20 costs ~0.1 s per MiB and side)

struct Inconclusive {
    const char* why;
};

// ---- payload material ---------------------------------------------------------------------------
const Bytes& pool() {
    static const Bytes p = [] {
        Bytes v(2 * kMiB + 65536 + 64);
        Prng g(0xC14C14);
        for (std::size_t i = 0; i + 8 <= v.size(); i += 8) {
            std::uint64_t x = g.next();
            std::memcpy(v.data() + i, &x, 8);
        }
        return v;
    }();
    return p;
}
Bytes make_payload(std::size_t size, std::uint64_t seed, std::uint32_t tag) {
    const Bytes& p = pool();
    std::size_t off = static_cast<std::size_t>(seed % 65536);
    Bytes v(p.begin() + static_cast<std::ptrdiff_t>(off), p.begin() + static_cast<std::ptrdiff_t>(off + size));
    const std::uint8_t t[8] = {0xC1, static_cast<std::uint8_t>(tag), static_cast<std::uint8_t>(tag >> 8), static_cast<std::uint8_t>(seed),
                               static_cast<std::uint8_t>(seed >> 8), static_cast<std::uint8_t>(seed >> 16), static_cast<std::uint8_t>(seed >> 24), 0x4E};
    for (std::size_t i = 0; i < 8 && i < size; ++i) v[i] = t[i];
    return v;
}
Bytes sentinel(std::uint32_t tag) {
    Bytes s = {'C', '1', '4', '-', 'F', 'I', 'N', 'A', 'L', static_cast<std::uint8_t>(tag)};
    return s;
}

// ---- receiving side model -------------------------------------------------------------------------
struct Inbox {
    std::mutex m;
    std::condition_variable cv;
    std::vector<std::pair<PeerId, Bytes>> msgs;
    std::size_t verified = 0;
    std::size_t count() {
        std::lock_guard<std::mutex> l(m);
        return msgs.size();
    }
    std::atomic<int> stall_first_ms{0};   // the first delivery blocks the reader thread this long (a slow consumer)
    SessionManager::MessageHandler handler() {
        return [this](const TransportMessage& msg) {
            if (int s = stall_first_ms.exchange(0)) std::this_thread::sleep_for(milliseconds(s));
            std::lock_guard<std::mutex> l(m);
            msgs.emplace_back(msg.peer_id, msg.payload);
            cv.notify_all();
        };
    }
    bool wait_count(std::size_t n, int ms) {
        std::unique_lock<std::mutex> l(m);
        return cv.wait_for(l, milliseconds(ms), [&] { return msgs.size() >= n; });
    }
};

template <typename F>
bool wait_for(F pred, int ms) {
    auto end = Clock::now() + milliseconds(ms);
    int spins = 0;
    while (!pred()) {
        if (Clock::now() >= end) return false;
        if (++spins < 50) std::this_thread::sleep_for(std::chrono::microseconds(100));
        else std::this_thread::sleep_for(milliseconds(1));
    }
    return true;
}

// Compare what a handler received so far with the expected list (prefix check: one sender thread, one TCP stream,
// so the order of deliveries is the order of the accepted sends).
void verify_prefix(Ctx& c, Inbox& in, const std::vector<Bytes>& expected, const PeerId& sender, const char* dir) {
    std::lock_guard<std::mutex> l(in.m);
    for (; in.verified < in.msgs.size(); ++in.verified) {
        std::size_t i = in.verified;
        const Bytes& got = in.msgs[i].second;
        if (i >= expected.size()) {
            bool dup = false;
            for (auto& e : expected) if (e == got) dup = true;
            if (got.size() > kMiB) c.fail("C14:oversized-payload-delivered", std::string(dir) + ": handler received a payload of " + std::to_string(got.size()) + " bytes");
            c.fail(dup ? "C14:duplicate-delivery" : "C14:unexpected-delivery",
                   std::string(dir) + ": handler call #" + std::to_string(i) + " (" + std::to_string(got.size()) + " B, " + hex(got, 12) + ") beyond the " +
                       std::to_string(expected.size()) + " payloads sent");
        }
        const Bytes& want = expected[i];
        if (got != want) {
            if (got.size() > kMiB) c.fail("C14:oversized-payload-delivered", std::string(dir) + ": handler received a payload of " + std::to_string(got.size()) + " bytes");
            std::string how = "differs";
            for (std::size_t j = 0; j < expected.size(); ++j)
                if (j != i && expected[j] == got) { how = j > i ? "is the payload of send #" + std::to_string(j) + " (lost or reordered)" : "repeats send #" + std::to_string(j); break; }
            if (how == "differs" && got.size() == want.size()) {
                std::size_t k = 0;
                while (k < got.size() && got[k] == want[k]) ++k;
                how = "has the right length but differs from byte " + std::to_string(k);
            }
            c.fail("C14:delivery-mismatch", std::string(dir) + ": delivery #" + std::to_string(i) + " (" + std::to_string(got.size()) + " B " + hex(got, 12) + ") " + how +
                                                "; expected " + std::to_string(want.size()) + " B " + hex(want, 12));
        }
        if (in.msgs[i].first != sender) c.fail("C14:wrong-sender-id", std::string(dir) + ": delivery #" + std::to_string(i) + " attributed to another peer id");
    }
}

// ---- plain TCP helpers (harness side) ----------------------------------------------------------------
int listen_loopback(std::uint16_t& port, int rcvbuf = 0) {
    int fd = ::socket(AF_INET, SOCK_STREAM, 0);
    if (fd < 0) return -1;
    if (rcvbuf) ::setsockopt(fd, SOL_SOCKET, SO_RCVBUF, &rcvbuf, sizeof rcvbuf);  // inherited by accepted sockets
    sockaddr_in a{};
    a.sin_family = AF_INET;
    a.sin_addr.s_addr = htonl(INADDR_LOOPBACK);
    a.sin_port = 0;
    socklen_t len = sizeof a;
    if (::bind(fd, reinterpret_cast<sockaddr*>(&a), sizeof a) != 0 || ::listen(fd, 4) != 0 || ::getsockname(fd, reinterpret_cast<sockaddr*>(&a), &len) != 0) {
        ::close(fd);
        return -1;
    }
    port = ntohs(a.sin_port);
    return fd;
}
int connect_loopback(std::uint16_t port) {
    int fd = ::socket(AF_INET, SOCK_STREAM, 0);
    if (fd < 0) return -1;
    sockaddr_in a{};
    a.sin_family = AF_INET;
    a.sin_addr.s_addr = htonl(INADDR_LOOPBACK);
    a.sin_port = htons(port);
    if (::connect(fd, reinterpret_cast<sockaddr*>(&a), sizeof a) != 0) {
        ::close(fd);
        return -1;
    }
    return fd;
}
// 1 = all written, 0 = timed out, -1 = connection error (EPIPE / ECONNRESET ...)
int write_all(int fd, const std::uint8_t* p, std::size_t n, int timeout_ms) {
    auto end = Clock::now() + milliseconds(timeout_ms);
    while (n) {
        ssize_t w = ::send(fd, p, n, MSG_NOSIGNAL | MSG_DONTWAIT);
        if (w > 0) { p += w; n -= static_cast<std::size_t>(w); continue; }
        if (w < 0 && (errno == EAGAIN || errno == EWOULDBLOCK || errno == EINTR)) {
            auto left = std::chrono::duration_cast<milliseconds>(end - Clock::now()).count();
            if (left <= 0) return 0;
            pollfd pf{fd, POLLOUT, 0};
            ::poll(&pf, 1, static_cast<int>(std::min<long long>(left, 200)));
            continue;
        }
        return -1;
    }
    return 1;
}

// The raw peer: a TCP socket plus a thread that stores every byte the node writes, until EOF / error.
struct RawPeer {
    int fd = -1;
    std::thread reader;
    std::mutex m;
    std::condition_variable cv;
    Bytes buf;
    bool eof = false;
    int err = 0;

    void start(int socket_fd) {
        fd = socket_fd;
        int one = 1;
        ::setsockopt(fd, IPPROTO_TCP, TCP_NODELAY, &one, sizeof one);
        reader = std::thread([this] {
            std::vector<std::uint8_t> tmp(256 * 1024);
            for (;;) {
                ssize_t r = ::recv(fd, tmp.data(), tmp.size(), 0);
                if (r < 0 && errno == EINTR) continue;
                std::lock_guard<std::mutex> l(m);
                if (r > 0) {
                    buf.insert(buf.end(), tmp.begin(), tmp.begin() + r);
                    cv.notify_all();
                    continue;
                }
                eof = true;
                err = r < 0 ? errno : 0;
                cv.notify_all();
                return;
            }
        });
    }
    bool wait_bytes(std::size_t n, int ms) {
        std::unique_lock<std::mutex> l(m);
        return cv.wait_for(l, milliseconds(ms), [&] { return buf.size() >= n || eof; }) && buf.size() >= n;
    }
    bool wait_eof(int ms) {
        std::unique_lock<std::mutex> l(m);
        return cv.wait_for(l, milliseconds(ms), [&] { return eof; });
    }
    std::size_t size() {
        std::lock_guard<std::mutex> l(m);
        return buf.size();
    }
    void finish() {
        if (fd >= 0) ::shutdown(fd, SHUT_RDWR);
        if (reader.joinable()) reader.join();
        if (fd >= 0) { ::close(fd); fd = -1; }
    }
    ~RawPeer() { finish(); }
};

// Wire oracle: the bytes the raw peer has read must be exactly frame(expected[0]) frame(expected[1]) ...
struct WireCheck {
    std::size_t base = 0;     // bytes before the first frame (the node's connection preamble)
    std::size_t pos = 0;      // bytes of buf already checked
    std::size_t frames = 0;   // frames checked
    std::set<std::array<std::uint8_t, 12>> nonces;

    void run(Ctx& c, RawPeer& raw, const std::vector<Bytes>& expected, const Key32& key, bool at_eof) {
        std::lock_guard<std::mutex> l(raw.m);
        const Bytes& b = raw.buf;
        while (frames < expected.size() && b.size() - pos >= 16) {
            const Bytes& want = expected[frames];
            std::uint32_t len = (std::uint32_t(b[pos + 12]) << 24) | (std::uint32_t(b[pos + 13]) << 16) | (std::uint32_t(b[pos + 14]) << 8) | b[pos + 15];
            if (len != want.size())
                c.fail("C14:wire-frame-length-mismatch", "frame #" + std::to_string(frames) + " announces " + std::to_string(len) + " bytes, the payload sent has " + std::to_string(want.size()));
            if (b.size() - pos - 16 < len) break;
            std::array<std::uint8_t, 12> nonce{};
            std::copy(b.begin() + static_cast<std::ptrdiff_t>(pos), b.begin() + static_cast<std::ptrdiff_t>(pos + 12), nonce.begin());
            Bytes ct = refs::chacha20(key.data(), nonce.data(), 0, want.data(), want.size());
            if (len && std::memcmp(ct.data(), b.data() + pos + 16, len) != 0) {
                bool plain = std::memcmp(want.data(), b.data() + pos + 16, len) == 0;
                c.fail(plain ? "C14:wire-payload-in-clear" : "C14:wire-ciphertext-mismatch",
                       "frame #" + std::to_string(frames) + " (" + std::to_string(len) + " B): body " + hex(b.data() + pos + 16, len, 12) + " is not ChaCha20(key, nonce " +
                           hex(nonce, 12) + ", counter 0, payload) = " + hex(ct, 12));
            }
            if (!nonces.insert(nonce).second) c.fail("C14:nonce-reused", "frame #" + std::to_string(frames) + " reuses nonce " + hex(nonce, 12) + " of an earlier frame of this session");
            pos += 16 + len;
            ++frames;
        }
        if (frames == expected.size() && b.size() > pos)
            c.fail("C14:unexpected-bytes-on-wire", std::to_string(b.size() - pos) + " bytes (" + hex(b.data() + pos, b.size() - pos, 16) + ") follow the " + std::to_string(frames) + " frames that were sent");
        (void)at_eof;
    }
};

// ---- decoded case ---------------------------------------------------------------------------------------
struct Op {
    bool reverse = false;        // false: A->B / node->raw; true: B->A / raw->node
    std::size_t size = 0;        // payload size (or announced length for an oversized raw frame)
    std::uint64_t announced = 0; // raw oversized frame: announced length
    bool header_only = false;    // raw oversized frame without a body
    unsigned gap_us = 0;
    unsigned split = 0;          // raw -> node write pattern
    std::uint64_t seed = 0;
};

const std::size_t kSizeTable[32] = {0,       1,        63,       64,      65,      4096,     65536,   kMiB - 1, kMiB,     kMiB + 1, 2 * kMiB,
                                    kMiB,    kMiB + 1, kMiB + 1, 63,      64,      65,       0,       1,        4096,     16,       255,
                                    256,     257,      1024,     2048,    65535,   kMiB + 1, 2 * kMiB, 12,      15,       17};
const std::uint64_t kAnnounce[] = {kMiB + 1, kMiB + 2, 2 * kMiB, 1ull << 24, 0x7FFFFFFFull, 0x80000000ull, 0xFFFFFFFFull, kMiB + 1};
const unsigned kGapUs[] = {0, 0, 0, 0, 0, 200, 1000, 5000};

struct Case {
    unsigned mode = 0;
    Key32 key{};
    PeerId id_a{}, id_b{};
    bool expect_ack = false;
    std::size_t ack_len = 0;
    bool with_handshake = true;
    unsigned hs_split = 0;
    std::vector<Op> ops;
    bool slow_receiver = false;
    bool has_edge = false, has_exact = false, has_over_send = false, has_oversized_frame = false, burst3 = false, both_dirs = false;
};

enum Mode : unsigned { kPair = 0, kRawClient = 1, kRawServer = 2, kNodes = 3, kConcurrent = 4 };
const char* kModeName[] = {"sm-pair", "raw-client", "raw-server", "node-pair", "concurrent"};

Case decode(Ctx& c) {
    const Tape& t = c.tape;
    Case k;
    static const unsigned kModeMap[16] = {kPair, kRawClient, kRawServer, kRawClient, kPair, kRawServer, kNodes, kConcurrent,
                                          kRawClient, kPair, kRawServer, kRawClient, kConcurrent, kNodes, kPair, kRawServer};
    k.mode = kModeMap[t.h(0) % 16];
    Prng g(t.h32(4) ^ 0xC14);
    g.fill(k.key.data(), 32);
    if (t.h(1) % 8 == 6) k.key.fill(0);
    if (t.h(1) % 8 == 7) k.key.fill(0xFF);
    k.id_a = vnode::make_id(t.h32(4) + 1, 0xA1);
    k.id_b = vnode::make_id(t.h32(4) + 2, 0xB2);
    if (t.h(2) & 0x10) std::swap(k.id_a, k.id_b);  // either id may be the smaller one (session preference rule)
    k.expect_ack = (t.h(2) & 1) != 0;
    k.with_handshake = (t.h(2) & 2) == 0;
    static const std::size_t kAck[] = {0, 1, 64, 200};
    k.ack_len = kAck[(t.h(2) >> 2) & 3];
    k.hs_split = t.h(3) % 4;
    c.note("%s key=%s ack=%d/%zu hs=%d/%u", kModeName[k.mode], t.h(1) % 8 == 6 ? "zero" : t.h(1) % 8 == 7 ? "ff" : "rnd", k.expect_ack, k.ack_len, k.with_handshake, k.hs_split);

    std::size_t budget = kByteBudget;
    int run = 0;
    bool last_rev = false;
    bool seen[2] = {false, false};
    for (std::size_t i = 0; i < t.nrec() && i < kInfo.max_recs; ++i) {
        Rec r = t.r(i);
        Op op;
        op.reverse = (r.op() & 1) != 0;
        if (k.mode == kConcurrent) op.reverse = (r.op() & 1) != 0;  // here: which sender thread
        unsigned gsel = (r.op() >> 1) & 7;
        op.gap_us = kGapUs[gsel];
        if (gsel == 7 && (r.op() & 0x10)) op.gap_us = 20000;
        // send timings: one case in twenty leaves the established session idle for longer than the transport's own
        // handshake / receive timeouts (2 s) before one of its sends (thorough tier: sometimes 5.5 s)
        if (t.h(4) % 20 == 0 && i == 1 + t.h(5) % 5u) {
            const char* tier = std::getenv("VERIF_TIER");
            op.gap_us = (tier && std::string(tier) == "thorough" && (t.h(5) & 0x80)) ? 5'500'000u : 2'300'000u;
            c.nt("idle_gap_over_2s");
        }
        op.split = (r.op() >> 5) & 3;
        op.seed = r.seed();
        std::uint8_t sel = r.a(0);
        std::size_t size = sel & 0x80 ? kSizeTable[sel % 32] : r.a16(1) % 2049;
        bool raw_in = (k.mode == kRawClient || k.mode == kRawServer) && op.reverse;
        if (raw_in && size > kMiB) {
            // oversized frame from the raw peer: ends the session, hence the sequence
            op.announced = kAnnounce[r.a(1) % 8];
            op.header_only = op.announced > 2 * kMiB || (r.a(2) & 1);
            op.size = op.header_only ? 0 : static_cast<std::size_t>(op.announced);
            if (op.size > budget) { op.header_only = true; op.size = 0; }
            k.ops.push_back(op);
            k.has_oversized_frame = true;
            c.note("|raw>node OVERSIZED len=%llu %s split=%u", static_cast<unsigned long long>(op.announced), op.header_only ? "header-only" : "with-body", op.split);
            break;
        }
        bool transmitted = size <= kMiB;
        if (transmitted && size > budget) { size = r.a16(1) % 2049; c.label("budget_clamped"); }
        if (transmitted) budget -= size;
        op.size = size;
        if (size > kMiB) k.has_over_send = true;
        if (size == kMiB) k.has_exact = true;
        if (size + 1 >= kMiB && size <= kMiB + 1) k.has_edge = true;
        if (!k.ops.empty() && last_rev == op.reverse && op.gap_us == 0) ++run; else run = 1;
        if (run >= 3) k.burst3 = true;
        last_rev = op.reverse;
        seen[op.reverse ? 1 : 0] = true;
        k.ops.push_back(op);
        c.note("|%s %zu +%uus%s", op.reverse ? "<" : ">", size, op.gap_us, raw_in && op.split ? (op.split == 1 ? " split-hdr" : op.split == 2 ? " hdr|body" : " dribble") : "");
    }
    k.both_dirs = seen[0] && seen[1];
    // Back-pressure (two SessionManagers, one case in forty): the receiving handler stalls for 6 s on its first delivery (its sockets get a fixed 16 KiB receive buffer)
    // while the sender pushes ten payloads of about 1 MiB back-to-back -- more than the loopback socket buffers hold, so
    // send() has to wait for the receiver.  Everything accepted must still arrive, once and in order.
    if (t.h(6) % 40 == 0 && k.mode != kConcurrent) {
        k.mode = kPair;
        k.slow_receiver = true;
        k.ops.clear();
        for (unsigned i = 0; i < 10; ++i) {
            Op op;
            op.reverse = false;
            op.gap_us = 0;
            op.seed = t.h32(4) + i;
            op.size = kMiB - 7 * i - (t.h(7) % 64);
            k.ops.push_back(op);
        }
        k.both_dirs = false;
        c.note("|slow-receiver: 10 x ~1 MiB");
    }
    return k;
}

void classify(Ctx& c, const Case& k) {
    c.label(kModeName[k.mode]);
    if (k.has_edge) c.nt("size_within_1_of_1MiB");
    if (k.has_exact) c.label("size_exactly_1MiB");
    if (k.has_over_send) c.label("send_above_limit");
    if (k.burst3) c.nt("burst_of_3_or_more");
    if (k.has_oversized_frame) c.nt("oversized_raw_frame");
    if (k.both_dirs) c.label("both_directions");
    if (k.ops.empty()) c.label("no_sends");
}

void gap(const Op& op) {
    if (op.gap_us) std::this_thread::sleep_for(std::chrono::microseconds(op.gap_us));
}

// send() must return true for <= 1 MiB on a working session and false above.  A false return within the limit is
// only a violation if the session demonstrably still works (a probe message goes through afterwards).
struct Link {
    std::function<bool(std::span<const std::uint8_t>)> send;
    std::function<bool()> sender_connected;    // the sending side still has the session
    std::vector<Bytes>* expected = nullptr;
    const char* dir = "";
    bool broken = false;                       // a send within the limit was refused because the session is gone
};
Link sm_link(SessionManager& from, const PeerId& to, std::vector<Bytes>& expected, const char* dir) {
    Link l;
    l.send = [&from, to](std::span<const std::uint8_t> p) { return from.send(to, p); };
    l.sender_connected = [&from, to] { return from.is_connected(to); };
    l.expected = &expected;
    l.dir = dir;
    return l;
}
// returns false when the link is broken (nothing more should be sent on it)
bool do_send(Ctx& c, Link& l, const Bytes& payload, std::size_t index) {
    if (l.broken) return false;
    bool ok = l.send(std::span<const std::uint8_t>(payload.data(), payload.size()));
    if (payload.size() > kMiB) {
        if (ok) c.fail("C14:oversized-send-accepted", std::string(l.dir) + ": send #" + std::to_string(index) + " of " + std::to_string(payload.size()) + " bytes returned true");
        return true;
    }
    if (ok) {
        l.expected->push_back(payload);
        return true;
    }
    // refused: is the session still usable?
    std::this_thread::sleep_for(milliseconds(50));
    Bytes probe = sentinel(0xEE);
    if (l.sender_connected() && l.send(std::span<const std::uint8_t>(probe.data(), probe.size())))
        c.fail("C14:send-refused-within-limit", std::string(l.dir) + ": send #" + std::to_string(index) + " of " + std::to_string(payload.size()) +
                                                    " bytes returned false, yet the session is connected and accepted a probe message right after");
    l.broken = true;
    return false;
}

// Two SessionManagers / two Nodes, nobody has closed anything, nothing oversized was put on the wire: a send within the
// limit was refused because the session is gone, i.e. the implementation ended it by itself while both ends were up.
// The payload "sent to a connected peer" was not delivered.  When the case contains no long idle gap the loss may be
// load-related (a slow handshake) and stays inconclusive; after a deliberate idle gap it is the timing the property
// quantifies over ("all send timings").
[[noreturn]] void session_lost(Ctx& c, const Case& k, const char* dir) {
    bool idle = false;
    for (auto& op : k.ops) if (op.gap_us >= 2'000'000u) idle = true;
    if (!idle) throw Inconclusive{"inconclusive_session_lost"};
    c.fail("C14:session-ended-on-its-own", std::string(dir) + ": after an idle gap on the established session a send within the limit was refused because the session no longer exists, "
                                           "although neither end closed it and no oversized frame was sent");
}

// Wait until the handler has received everything that was accepted for sending.  Nobody has closed anything at this
// point, so a receiving session that is gone ended by the implementation's own decision: once is_connected() is
// false the reader thread has left its loop and the delivery count is final; payloads still missing then are lost.
// A session that is still up but slow is a timeout -> inconclusive.
const char* const kSigEnded = "C14:session-ended-with-undelivered-payloads";
void await_deliveries(Ctx& c, Inbox& in, const std::vector<Bytes>& expected, const PeerId& sender, const char* dir, const std::function<bool()>& receiver_connected) {
    auto end = Clock::now() + milliseconds(kWaitMs);
    for (;;) {
        bool alive = receiver_connected();
        std::size_t have = in.count();
        if (have >= expected.size()) break;
        if (!alive) {
            verify_prefix(c, in, expected, sender, dir);
            c.fail(kSigEnded, std::string(dir) + ": the receiving session ended on its own (no side closed it, no oversized frame was sent) after " + std::to_string(have) + " of " +
                                  std::to_string(expected.size()) + " accepted payloads were delivered; first missing payload has " + std::to_string(expected[have].size()) + " bytes");
        }
        if (Clock::now() >= end) {
            verify_prefix(c, in, expected, sender, dir);
            throw Inconclusive{"inconclusive_timeout"};
        }
        in.wait_count(expected.size(), 5);
    }
    verify_prefix(c, in, expected, sender, dir);
}

Bytes signed_ack(const Key32& key, bool accepted) {
    protocol::Message ack{};
    ack.version = protocol::kCurrentMessageVersion;
    ack.type = protocol::MessageType::HandshakeAck;
    protocol::HandshakeAckPayload p{};
    p.accepted = accepted;
    p.negotiated_version = protocol::kCurrentMessageVersion;
    p.responder_public = 5;
    ack.payload = p;
    return protocol::encode_signed(ack, std::span<const std::uint8_t>(key.data(), key.size()));
}

// ---- topology 1: two SessionManagers -------------------------------------------------------------------
void run_pair(Ctx& c, const Case& k) {
    Inbox in_a, in_b;
    std::vector<Bytes> exp_ab, exp_ba;
    SessionManager a(k.id_a), b(k.id_b);
    a.set_message_handler(in_a.handler());
    b.set_message_handler(in_b.handler());
    if (k.slow_receiver) {
        in_b.stall_first_ms = 6000;
        c.nt("slow_receiver_backpressure");
    }
    Bytes ack = k.expect_ack ? signed_ack(k.key, true) : Bytes{};
    b.set_handshake_handler([&](const PeerId&, const protocol::TransportHandshakePayload&) {
        SessionManager::HandshakeAcceptance acc;
        acc.accepted = true;
        acc.session_key = k.key;
        acc.ack_payload = ack;
        return std::optional<SessionManager::HandshakeAcceptance>(acc);
    });
    a.set_handshake_handler([](const PeerId&, const protocol::TransportHandshakePayload&) { return std::optional<SessionManager::HandshakeAcceptance>(); });
    try {
        a.start(0);
        b.start(0);
    } catch (const std::exception&) {
        throw Inconclusive{"inconclusive_setup"};
    }
    if (k.slow_receiver) {
        // a small fixed receive buffer on B's listening socket (accepted sockets inherit it, and a fixed size switches the
        // kernel's window auto-tuning off): while B's handler stalls, A's blocked send() then makes no progress at all
        int fd = static_cast<int>(verif_access(b, SmListenSocket{}));
        int sz = 16384;
        ::setsockopt(fd, SOL_SOCKET, SO_RCVBUF, &sz, sizeof sz);
    }
    a.register_peer_key(k.id_b, k.key);
    SessionManager::OutboundHandshake hs{};
    hs.payload.public_identity = 1234;
    hs.payload.work_nonce = 99;
    hs.session_key = k.key;
    hs.expect_ack = k.expect_ack;
    if (!a.connect(k.id_b, "127.0.0.1", b.listening_port(), &hs)) throw Inconclusive{"inconclusive_setup"};
    if (!wait_for([&] { return b.is_connected(k.id_a); }, kWaitMs)) throw Inconclusive{"inconclusive_setup"};

    Link ab = sm_link(a, k.id_b, exp_ab, "A->B"), ba = sm_link(b, k.id_a, exp_ba, "B->A");
    for (std::size_t i = 0; i < k.ops.size(); ++i) {
        const Op& op = k.ops[i];
        gap(op);
        Bytes p = make_payload(op.size, op.seed, static_cast<std::uint32_t>(i));
        if (!do_send(c, op.reverse ? ba : ab, p, i)) break;
        if ((i & 3) == 3) { verify_prefix(c, in_b, exp_ab, k.id_a, "A->B"); verify_prefix(c, in_a, exp_ba, k.id_b, "B->A"); }
    }
    if (!ab.broken && !ba.broken) {
        do_send(c, ab, sentinel(1), k.ops.size());
        do_send(c, ba, sentinel(2), k.ops.size() + 1);
    }
    await_deliveries(c, in_b, exp_ab, k.id_a, "A->B", [&] { return b.is_connected(k.id_a); });
    await_deliveries(c, in_a, exp_ba, k.id_b, "B->A", [&] { return a.is_connected(k.id_b); });
    if (ab.broken || ba.broken) session_lost(c, k, ab.broken ? "A->B" : "B->A");
    // end the session from A; once B's reader has left, nothing more can be delivered: re-check for late duplicates
    a.stop();
    bool gone = wait_for([&] { return b.active_session_count() == 0; }, 3000);
    b.stop();
    verify_prefix(c, in_b, exp_ab, k.id_a, "A->B");
    verify_prefix(c, in_a, exp_ba, k.id_b, "B->A");
    if (!gone) c.label("teardown_slow");
}

// ---- topology 2: node <-> raw TCP peer ------------------------------------------------------------------------
Bytes handshake_frame(const Case& k) {
    protocol::Message m{};
    m.version = protocol::kCurrentMessageVersion;
    m.type = protocol::MessageType::TransportHandshake;
    protocol::TransportHandshakePayload p{};
    p.public_identity = 4321;
    p.work_nonce = 7;
    m.payload = p;
    Bytes enc = protocol::encode(m);
    Bytes f;
    refs::put_be32(f, static_cast<std::uint32_t>(enc.size()));
    f.insert(f.end(), enc.begin(), enc.end());
    return f;
}

bool write_pieces(int fd, const Bytes& data, unsigned split, std::uint64_t seed, int& status) {
    // split: 0 whole, 1 inside the 16-byte header, 2 header | body, 3 dribble the header byte by byte, body in halves
    std::vector<std::size_t> cuts;
    std::size_t hdr = std::min<std::size_t>(16, data.size());
    if (split == 1 && hdr > 1) cuts.push_back(1 + seed % (hdr - 1));
    if (split == 2 && data.size() > hdr) cuts.push_back(hdr);
    if (split == 3) {
        for (std::size_t i = 1; i <= hdr; ++i) cuts.push_back(i);
        if (data.size() > hdr + 1) cuts.push_back(hdr + (data.size() - hdr) / 2);
    }
    cuts.push_back(data.size());
    std::size_t at = 0;
    for (std::size_t cut : cuts) {
        if (cut <= at) continue;
        status = write_all(fd, data.data() + at, cut - at, kWaitMs);
        if (status != 1) return false;
        at = cut;
        if (at < data.size()) std::this_thread::sleep_for(std::chrono::microseconds(split == 3 ? 50 : 300));
    }
    status = 1;
    return true;
}

Bytes raw_frame(const Key32& key, const Bytes& payload, std::uint64_t seed, std::uint64_t announced, bool encrypt = true) {
    Bytes f(12);
    Prng g(seed ^ 0x4E4F4E43);
    g.fill(f.data(), 12);
    refs::put_be32(f, static_cast<std::uint32_t>(announced));
    if (encrypt) {
        Bytes ct = refs::chacha20(key.data(), f.data(), 0, payload.data(), payload.size());
        f.insert(f.end(), ct.begin(), ct.end());
    } else {
        f.insert(f.end(), payload.begin(), payload.end());  // body of a frame that must never be decrypted
    }
    return f;
}

void run_raw(Ctx& c, const Case& k) {
    Inbox in_n;
    std::vector<Bytes> exp_wire;   // frames the node must have written, in order
    std::vector<Bytes> exp_in;     // payloads the node's handler must receive, in order
    const PeerId& nid = k.id_a;
    const PeerId& rid = k.id_b;
    RawPeer raw;
    WireCheck wire;
    SessionManager n(nid);
    n.set_message_handler(in_n.handler());
    Bytes ack_bytes = make_payload(k.ack_len, 77, 0xACC);
    n.set_handshake_handler([&](const PeerId&, const protocol::TransportHandshakePayload&) {
        SessionManager::HandshakeAcceptance acc;
        acc.accepted = true;
        acc.session_key = k.key;
        acc.ack_payload = ack_bytes;
        return std::optional<SessionManager::HandshakeAcceptance>(acc);
    });
    try {
        n.start(0);
    } catch (const std::exception&) {
        throw Inconclusive{"inconclusive_setup"};
    }
    int status = 1;
    if (k.mode == kRawClient) {
        int fd = connect_loopback(n.listening_port());
        if (fd < 0) throw Inconclusive{"inconclusive_setup"};
        raw.start(fd);
        Bytes hello(rid.begin(), rid.end());
        Bytes hf = handshake_frame(k);
        hello.insert(hello.end(), hf.begin(), hf.end());
        if (!write_pieces(raw.fd, hello, k.hs_split == 3 ? 0 : k.hs_split, 5, status)) throw Inconclusive{"inconclusive_setup"};
        if (!ack_bytes.empty()) exp_wire.push_back(ack_bytes);
        if (!wait_for([&] { return n.is_connected(rid); }, kWaitMs)) throw Inconclusive{"inconclusive_setup"};
    } else {
        std::uint16_t port = 0;
        int lfd = listen_loopback(port);
        if (lfd < 0) throw Inconclusive{"inconclusive_setup"};
        n.register_peer_key(rid, k.key);
        SessionManager::OutboundHandshake hs{};
        hs.payload.public_identity = 1234;
        hs.session_key = k.key;
        hs.expect_ack = false;
        bool ok = n.connect(rid, "127.0.0.1", port, k.with_handshake ? &hs : nullptr);
        int fd = -1;
        if (ok) {
            pollfd pf{lfd, POLLIN, 0};
            if (::poll(&pf, 1, kWaitMs) == 1) fd = ::accept(lfd, nullptr, nullptr);
        }
        ::close(lfd);
        if (fd < 0) throw Inconclusive{"inconclusive_setup"};
        raw.start(fd);
        // the node's preamble: its 32-byte identity, then (optionally) be32(len) + handshake message
        std::size_t pre = 32;
        if (!raw.wait_bytes(pre, kWaitMs)) throw Inconclusive{"inconclusive_setup"};
        if (k.with_handshake) {
            if (!raw.wait_bytes(36, kWaitMs)) throw Inconclusive{"inconclusive_setup"};
            std::lock_guard<std::mutex> l(raw.m);
            std::uint32_t len = (std::uint32_t(raw.buf[32]) << 24) | (std::uint32_t(raw.buf[33]) << 16) | (std::uint32_t(raw.buf[34]) << 8) | raw.buf[35];
            if (len > 2048) throw Inconclusive{"inconclusive_setup"};
            pre = 36 + len;
        }
        if (!raw.wait_bytes(pre, kWaitMs)) throw Inconclusive{"inconclusive_setup"};
        wire.base = wire.pos = pre;
    }

    Link out = sm_link(n, rid, exp_wire, "node->raw");
    bool raw_write_failed = false;
    const Op* oversized = nullptr;
    for (std::size_t i = 0; i < k.ops.size(); ++i) {
        const Op& op = k.ops[i];
        if (op.announced) { oversized = &op; break; }
        gap(op);
        Bytes p = make_payload(op.size, op.seed, static_cast<std::uint32_t>(i));
        if (!op.reverse) {
            if (!do_send(c, out, p, i)) break;
        } else {
            Bytes f = raw_frame(k.key, p, op.seed, p.size());
            if (!write_pieces(raw.fd, f, op.split, op.seed, status)) { raw_write_failed = true; break; }
            exp_in.push_back(p);
        }
        if ((i & 3) == 3) { verify_prefix(c, in_n, exp_in, rid, "raw->node"); wire.run(c, raw, exp_wire, k.key, false); }
    }
    // close both directions with a sentinel
    if (!out.broken && !raw_write_failed) {
        do_send(c, out, sentinel(1), k.ops.size());
        Bytes s = sentinel(2);
        Bytes f = raw_frame(k.key, s, 4242, s.size());
        if (write_pieces(raw.fd, f, 0, 0, status)) exp_in.push_back(s);
        else raw_write_failed = true;
    }
    if (raw_write_failed && status == 0) {
        verify_prefix(c, in_n, exp_in, rid, "raw->node");
        wire.run(c, raw, exp_wire, k.key, false);
        throw Inconclusive{"inconclusive_timeout"};
    }
    // (a raw write that failed with EPIPE/ECONNRESET means the node closed the connection: judged below)
    await_deliveries(c, in_n, exp_in, rid, "raw->node", [&] { return n.is_connected(rid); });
    {
        std::size_t wire_total = wire.base;
        for (auto& e : exp_wire) wire_total += 16 + e.size();
        bool got = raw.wait_bytes(wire_total, kWaitMs);
        wire.run(c, raw, exp_wire, k.key, false);
        if (!got) {
            bool eof;
            std::size_t have;
            {
                std::lock_guard<std::mutex> l(raw.m);
                eof = raw.eof;
                have = raw.buf.size();
            }
            if (eof && have < wire_total)
                c.fail(kSigEnded, "node->raw: the raw peer read EOF/RST after " + std::to_string(have - wire.base) + " of " + std::to_string(wire_total - wire.base) +
                                      " frame bytes although neither side had closed the session and no oversized frame was sent");
            throw Inconclusive{"inconclusive_timeout"};
        }
    }
    if (out.broken || raw_write_failed) throw Inconclusive{"inconclusive_session_lost"};

    if (oversized) {
        const Op& op = *oversized;
        const std::size_t before = in_n.count();
        Bytes body = op.header_only ? Bytes{} : make_payload(op.size, op.seed, 0xB16);
        Bytes f = raw_frame(k.key, body, op.seed, op.announced, false);
        write_pieces(raw.fd, f, op.split, op.seed, status);  // may hit EPIPE / RST half-way: that is the expected outcome
        bool ended = raw.wait_eof(op.header_only ? 1000 : kWaitMs);
        if (!ended && op.header_only) {
            c.label("oversized_header_not_closed_within_1s");
            // Not closed yet.  Feed body bytes: a receiver that (wrongly) buffers the frame would then deliver it, which
            // is an observation rather than a timeout.
            if (op.announced <= 2 * kMiB) {
                Bytes more = make_payload(static_cast<std::size_t>(op.announced), op.seed, 0xB16);
                write_all(raw.fd, more.data(), more.size(), 3000);
            }
            ended = raw.wait_eof(3000);
        }
        if (in_n.count() != before) {
            std::lock_guard<std::mutex> l(in_n.m);
            c.fail("C14:oversized-frame-delivered", "a frame announcing " + std::to_string(op.announced) + " bytes reached the handler (" + std::to_string(in_n.msgs.back().second.size()) + " B payload)");
        }
        if (!ended) {
            // the header alone (16 bytes) tells the receiver the frame is oversized: a session that is still open several
            // seconds later is waiting for (buffering) the announced body.  Replayed twice by the driver before it is reported.
            if (n.is_connected(rid))
                c.fail("C14:oversized-length-does-not-end-session", "the session is still open " + std::string(op.header_only ? "4 s" : "15 s") + " after a frame header announcing " +
                                                                     std::to_string(op.announced) + " bytes (limit 1 MiB): the receiver waits for the body instead of ending the session");
            throw Inconclusive{"inconclusive_timeout"};
        }
        if (n.is_connected(rid))
            c.fail("C14:oversized-frame-session-still-connected", "the node closed the socket after a frame announcing " + std::to_string(op.announced) + " bytes but is_connected() is still true");
        wire.run(c, raw, exp_wire, k.key, true);
        wait_for([&] { return n.active_session_count() == 0; }, 3000);
        n.stop();
        if (in_n.count() != before) c.fail("C14:oversized-frame-delivered", "a frame announcing " + std::to_string(op.announced) + " bytes reached the handler");
        return;
    }

    // orderly end: the raw peer half-closes, the node's reader sees EOF and closes, the raw peer reads up to EOF
    ::shutdown(raw.fd, SHUT_WR);
    bool ended = raw.wait_eof(kWaitMs);
    wire.run(c, raw, exp_wire, k.key, true);
    wait_for([&] { return n.active_session_count() == 0; }, 3000);
    n.stop();
    verify_prefix(c, in_n, exp_in, rid, "raw->node");
    if (!ended) throw Inconclusive{"inconclusive_timeout"};
}

// ---- topology 3: two Nodes ---------------------------------------------------------------------------------------
void run_nodes(Ctx& c, const Case& k) {
    Config ca, cb;
    for (Config* cfg : {&ca, &cb}) {
        cfg->handshake_pow_difficulty = 4;
        cfg->nat_stun_enabled = false;
        cfg->relay_enabled = false;
        cfg->storage_persistent_enabled = false;
    }
    ca.identity_seed = 0x1000 + c.tape.h(4);
    cb.identity_seed = 0x2000 + c.tape.h(5);
    Inbox in_a, in_b;
    std::vector<Bytes> exp_ab, exp_ba;
    Node a(k.id_a, ca), b(k.id_b, cb);
    a.set_message_handler(in_a.handler());
    b.set_message_handler(in_b.handler());
    try {
        a.start_transport(0);
        b.start_transport(0);
    } catch (const std::exception&) {
        throw Inconclusive{"inconclusive_setup"};
    }
    struct Stop {
        Node &a, &b;
        ~Stop() { a.stop_transport(); b.stop_transport(); }
    } stop{a, b};
    // A learns B's identity and B's proof of work (as after a discovery exchange), then dials; B verifies A's PoW
    // handshake when it accepts the connection.
    auto work_b = b.generate_handshake_work(k.id_a);
    if (!work_b || !a.perform_handshake(k.id_b, b.public_identity(), *work_b)) throw Inconclusive{"inconclusive_setup"};
    if (!a.connect_peer(k.id_b, "127.0.0.1", b.transport_port())) throw Inconclusive{"inconclusive_setup"};
    if (!wait_for([&] { return vnode::Access::sessions(b).is_connected(k.id_a); }, kWaitMs)) throw Inconclusive{"inconclusive_setup"};

    auto node_link = [](Node& from, const PeerId& to, std::vector<Bytes>& expected, const char* dir) {
        Link l;
        l.send = [&from, to](std::span<const std::uint8_t> p) { return from.send_secure(to, p); };
        l.sender_connected = [&from, to] { return vnode::Access::sessions(from).is_connected(to); };
        l.expected = &expected;
        l.dir = dir;
        return l;
    };
    Link ab = node_link(a, k.id_b, exp_ab, "nodeA->nodeB"), ba = node_link(b, k.id_a, exp_ba, "nodeB->nodeA");
    for (std::size_t i = 0; i < k.ops.size(); ++i) {
        const Op& op = k.ops[i];
        gap(op);
        Bytes p = make_payload(op.size, op.seed, static_cast<std::uint32_t>(i));
        if (!do_send(c, op.reverse ? ba : ab, p, i)) break;
    }
    if (!ab.broken && !ba.broken) {
        do_send(c, ab, sentinel(1), k.ops.size());
        do_send(c, ba, sentinel(2), k.ops.size() + 1);
    }
    await_deliveries(c, in_b, exp_ab, k.id_a, "nodeA->nodeB", [&] { return vnode::Access::sessions(b).is_connected(k.id_a); });
    await_deliveries(c, in_a, exp_ba, k.id_b, "nodeB->nodeA", [&] { return vnode::Access::sessions(a).is_connected(k.id_b); });
    if (ab.broken || ba.broken) session_lost(c, k, ab.broken ? "nodeA->nodeB" : "nodeB->nodeA");
    a.stop_transport();
    wait_for([&] { return vnode::Access::sessions(b).active_session_count() == 0; }, 3000);
    verify_prefix(c, in_b, exp_ab, k.id_a, "nodeA->nodeB");
    verify_prefix(c, in_a, exp_ba, k.id_b, "nodeB->nodeA");
}

// ---- topology 4: two threads send to the same peer at the same time --------------------------------------------------
// The peer is a raw TCP socket with a small receive buffer whose reader starts late, so large sends block half-way
// (as they do towards any slow peer).  Each thread's payloads must arrive intact and in that thread's order.
const char* const kSigConcurrent = "C14:concurrent-sends-interleave-on-wire";
void run_concurrent(Ctx& c, const Case& k) {
    const PeerId& nid = k.id_a;
    const PeerId& rid = k.id_b;
    RawPeer raw;
    SessionManager n(nid);
    try {
        n.start(0);
    } catch (const std::exception&) {
        throw Inconclusive{"inconclusive_setup"};
    }
    std::uint16_t port = 0;
    int lfd = listen_loopback(port, 4096);
    if (lfd < 0) throw Inconclusive{"inconclusive_setup"};
    n.register_peer_key(rid, k.key);
    bool ok = n.connect(rid, "127.0.0.1", port, nullptr);
    int fd = -1;
    if (ok) {
        pollfd pf{lfd, POLLIN, 0};
        if (::poll(&pf, 1, kWaitMs) == 1) fd = ::accept(lfd, nullptr, nullptr);
    }
    ::close(lfd);
    if (fd < 0) throw Inconclusive{"inconclusive_setup"};

    const bool serialise = c.is_known(kSigConcurrent);  // known finding listed: keep the two threads from overlapping
    if (serialise) c.count_excluded(kSigConcurrent);
    std::mutex serial;
    std::vector<Bytes> per[2], sent[2];
    std::size_t round_bytes = 0;
    for (std::size_t i = 0; i < k.ops.size(); ++i) {
        per[k.ops[i].reverse ? 1 : 0].push_back(make_payload(k.ops[i].size, k.ops[i].seed, static_cast<std::uint32_t>(i)));
        if (k.ops[i].size <= kMiB) round_bytes += k.ops[i].size;
    }
    // the same two sequences are sent for several rounds on the one session (more chances for the two threads to be
    // inside send() at the same instant); the threads meet at a barrier before every send they have in common
    const std::size_t rounds = k.ops.empty() ? 1 : std::max<std::size_t>(1, std::min<std::size_t>(kByteBudget / std::max<std::size_t>(round_bytes, 1), 240 / k.ops.size()));
    const std::size_t common = std::min(per[0].size(), per[1].size());
    std::atomic<std::size_t> arrived{0};
    std::atomic<bool> give_up{false};
    std::atomic<int> done{0};
    std::string accepted_oversized[2];
    bool refused[2] = {false, false};
    auto worker = [&](int w) {
        for (std::size_t r = 0; r < rounds && !give_up.load(); ++r) {
            for (std::size_t i = 0; i < per[w].size(); ++i) {
                if (i < common && !serialise) {
                    std::size_t target = 2 * (r * common + i + 1);
                    arrived.fetch_add(1);
                    for (unsigned spin = 0; arrived.load() < target && !give_up.load(); ++spin)
                        if (spin > 2000) std::this_thread::yield();
                }
                const Bytes& p = per[w][i];
                std::unique_lock<std::mutex> l(serial, std::defer_lock);
                if (serialise) l.lock();
                bool sent_ok = n.send(rid, std::span<const std::uint8_t>(p.data(), p.size()));
                if (p.size() > kMiB) {
                    if (sent_ok) accepted_oversized[w] = "send of " + std::to_string(p.size()) + " bytes returned true";
                    continue;
                }
                if (!sent_ok) { refused[w] = true; give_up.store(true); break; }
                sent[w].push_back(p);
            }
        }
        done.fetch_add(1);
    };
    std::thread t0(worker, 0), t1(worker, 1);
    wait_for([&] { return done.load() == 2; }, 20);  // let the senders run into the full socket buffers first
    int big = 4 << 20;
    ::setsockopt(fd, SOL_SOCKET, SO_RCVBUF, &big, sizeof big);
    raw.start(fd);
    t0.join();
    t1.join();
    for (auto& f : accepted_oversized) if (!f.empty()) c.fail("C14:oversized-send-accepted", "node->raw: " + f);
    bool broken = refused[0] || refused[1];
    Bytes fin = sentinel(1);
    bool fin_ok = !broken && n.send(rid, std::span<const std::uint8_t>(fin.data(), fin.size()));
    std::size_t total = 32;
    for (auto& v : sent) for (auto& p : v) total += 16 + p.size();
    if (fin_ok) total += 16 + fin.size();
    bool all = raw.wait_bytes(total, broken ? 1000 : kWaitMs);
    {
        // The frames must be a shuffle of the two per-thread sequences (then the sentinel).  Payloads can be equal
        // (sizes 0 and 1), so every consistent assignment is tracked: states = reachable (sent by thread 0, by thread 1).
        std::lock_guard<std::mutex> l(raw.m);
        const Bytes& b = raw.buf;
        std::size_t pos = 32, frames = 0;
        bool fin_seen = false;
        std::set<std::pair<std::size_t, std::size_t>> states = {{0, 0}};
        std::set<std::array<std::uint8_t, 12>> nonces;
        while (b.size() >= pos + 16) {
            std::uint32_t len = (std::uint32_t(b[pos + 12]) << 24) | (std::uint32_t(b[pos + 13]) << 16) | (std::uint32_t(b[pos + 14]) << 8) | b[pos + 15];
            if (b.size() - pos - 16 < len) break;
            std::array<std::uint8_t, 12> nonce{};
            std::copy(b.begin() + static_cast<std::ptrdiff_t>(pos), b.begin() + static_cast<std::ptrdiff_t>(pos + 12), nonce.begin());
            Bytes plain = refs::chacha20(k.key.data(), nonce.data(), 0, b.data() + pos + 16, len);  // decrypt with the reference cipher
            std::set<std::pair<std::size_t, std::size_t>> nextst;
            if (!fin_seen) {
                for (auto& st : states) {
                    if (st.first < sent[0].size() && sent[0][st.first] == plain) nextst.insert({st.first + 1, st.second});
                    if (st.second < sent[1].size() && sent[1][st.second] == plain) nextst.insert({st.first, st.second + 1});
                    if (fin_ok && st.first == sent[0].size() && st.second == sent[1].size() && plain == fin) { nextst.insert(st); fin_seen = true; }
                }
            }
            if (nextst.empty())
                c.fail(kSigConcurrent, "frame #" + std::to_string(frames) + " (" + std::to_string(len) + " B at stream offset " + std::to_string(pos) + ", decrypts to " + hex(plain, 12) +
                                           ") is not the next payload of either sending thread in any consistent order (two threads sent " + std::to_string(sent[0].size()) + "+" +
                                           std::to_string(sent[1].size()) + " payloads to one peer concurrently): frames of concurrent sends are mixed or damaged on the wire");
            states.swap(nextst);
            if (!nonces.insert(nonce).second) c.fail("C14:nonce-reused", "frame #" + std::to_string(frames) + " reuses a nonce of this session");
            pos += 16 + len;
            ++frames;
        }
        if (b.size() > total) c.fail("C14:unexpected-bytes-on-wire", std::to_string(b.size() - total) + " more bytes on the wire than the accepted sends account for");
        if (b.size() == total && pos != total)
            c.fail(kSigConcurrent, "all " + std::to_string(total - 32) + " frame bytes of the accepted sends arrived, but they do not parse into whole frames (parsing stops at stream offset " +
                                       std::to_string(pos) + "): frames of concurrent sends are mixed on the wire");
    }
    ::shutdown(raw.fd, SHUT_WR);
    raw.wait_eof(3000);
    wait_for([&] { return n.active_session_count() == 0; }, 3000);
    n.stop();
    if (broken) throw Inconclusive{"inconclusive_session_lost"};
    if (!all) throw Inconclusive{"inconclusive_timeout"};
    if (sent[0].size() && sent[1].size()) c.label("concurrent_both_threads_sent");
}
}  // namespace

void run_case(Ctx& c) {
    static const bool once = [] {
        std::signal(SIGPIPE, SIG_IGN);
        vnode::silence_streams();
        pool();
        return true;
    }();
    (void)once;
    Case k = decode(c);
    classify(c, k);
    struct Prof {
        Clock::time_point t0 = Clock::now();
        const Case& k;
        ~Prof() {
            if (!std::getenv("C14_PROFILE")) return;
            double ms = std::chrono::duration<double, std::milli>(Clock::now() - t0).count();
            std::size_t bytes = 0;
            for (auto& o : k.ops) bytes += o.size;
            std::fprintf(stderr, "PROF %s ops=%zu bytes=%zu ms=%.1f\n", kModeName[k.mode], k.ops.size(), bytes, ms);
        }
    } prof{Clock::now(), k};
    try {
        switch (k.mode) {
            case kPair: run_pair(c, k); break;
            case kConcurrent: run_concurrent(c, k); break;
            case kRawClient:
            case kRawServer: run_raw(c, k); break;
            case kNodes: run_nodes(c, k); break;
        }
    } catch (const Inconclusive& e) {
        c.label(e.why);
        c.label("inconclusive");
    }
}

std::string run_once(Ctx& c) {
    auto s = refs::self_check();
    if (!s.empty()) c.fail("C14:harness-error", "reference self-check failed: " + s);
    return "reference self-checks (RFC 8439 ChaCha20 vectors among them) passed";
}
}  // namespace verif
