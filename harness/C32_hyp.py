#!/usr/bin/env python3-vt
# C32 — configuration layers apply in the documented precedence (black-box, Hypothesis drives the real binary).
#
# A case chooses, for each of 17 settings, which layers set it (command-line flag, environment overlay, selected
# profile, its ancestors through `extends`) — every layer with a different value — plus the profile graph (chain depth
# 1..5, decoy profiles, cycles, missing parents, missing selected profile), how the profile is selected (--profile, the
# environment's `profile:` key, or the implicit "default"), the overlay style (flat keys / `overrides:` / both), the file
# format (YAML subset / JSON), key aliases, value spellings and flag placement.  `eph ... serve` is started with that
# configuration; the effective settings are read back over the control socket (DEFAULTS, STATUS, token probes).
# Oracle (a ten-line model of the documented rule): effective value == value of the first layer in
#   flag > environment overlay > selected profile > parent > grandparent ... > built-in default
# that sets it; a cyclic / missing profile on the selected chain => non-zero exit naming E_CONFIG_PROFILE, in finite time.
import json, os, re, shutil, socket, subprocess, sys, tempfile, time

sys.path.insert(0, os.path.dirname(os.path.abspath(__file__)))
import cli_common as cc

PID = 'C32'
SIG_ENV_MIXED = 'C32:env-flat-section-drops-overrides'
RULE = ('Hypothesis case -> for each of 19 settings (the CLI-side fetch directory and use-stored-names switch, read back from `eph defaults`; default/min/max TTL in disjoint ranges so sanitisation is the identity, control host, control port, transport port, control token, '
        'announce PoW, storage dir, persistence, fetch/upload parallelism, key rotation, announce interval/burst/window, control stream cap) the subset of layers that set it '
        '{flag, environment overlay, selected profile, ancestors 1..4}, all with distinct values (numeric ones: in half of the cases the winning layer carries the lower / upper bound of the range, e.g. --announce-pow 0); layers that do not set a nested setting may carry an unrelated key in the same nested object; profile graph: extends chain of depth 1..5 plus decoy profiles, error graphs {self cycle, '
        'back edge, missing parent, missing selected profile via --profile / environment / absent default, cycle among unused profiles}; selection by --profile, environment `profile:` '
        '(and --profile overriding it) or implicit default; overlay as flat keys, `overrides:` or both; YAML (two-space subset, quoted/plain scalars) or JSON; one key alias per setting '
        'per case; duration flags spelled 7200|7200s|120m|2h; flags before or after the command. Oracle: DEFAULTS/STATUS/token probes of the started daemon == first layer that sets the '
        'setting in flag > overlay > selected profile > nearest ancestor > built-in default; error graph on the selected chain => exit != 0 with E_CONFIG_PROFILE within 20 s. '
        'Non-trivial: a setting set in >= 2 layers, or a chain >= 2, or an error graph. Distinct = hash of the rendered case (port numbers abstracted).')

# id, flag, DEFAULTS key, aliases (key paths), kind, built-in default
SETTINGS = [
    ('default_ttl', '--default-ttl', 'DEFAULT_TTL', [['node', 'default_ttl_seconds'], ['node', 'default_ttl']], ('dur', 200, 20000), '21600'),
    ('min_ttl', '--min-ttl', 'MIN_TTL', [['node', 'min_ttl_seconds'], ['node', 'min_ttl']], ('dur', 1, 100), '30'),
    ('max_ttl', '--max-ttl', 'MAX_TTL', [['node', 'max_ttl_seconds'], ['node', 'max_ttl']], ('dur', 21600, 86400), '21600'),
    ('control_host', '--control-host', 'CONTROL_HOST', [['control', 'host'], ['network', 'control_host']], ('host',), '127.0.0.1'),
    ('control_port', '--control-port', 'CONTROL_PORT', [['control', 'port'], ['network', 'control_port']], ('port',), '47777'),
    ('transport_port', '--transport-port', 'TRANSPORT_PORT', [['transport', 'port'], ['network', 'transport_port'], ['node', 'transport_port']], ('port',), '45000'),
    ('control_token', '--control-token', None, [['control', 'token'], ['control-token']], ('token',), None),
    ('announce_pow', '--announce-pow', 'ANNOUNCE_POW', [['announce', 'pow_difficulty'], ['node', 'announce_pow_difficulty']], ('int', 0, 24), '6'),
    ('storage_dir', '--storage-dir', 'STORAGE_DIR', [['storage', 'directory'], ['storage-directory']], ('dir',), 'storage'),
    ('persistent', None, 'STORAGE_PERSISTENT', [['storage', 'persistent'], ['storage', 'enable_persistent']], ('bool',), '0'),
    ('fetch_parallel', '--fetch-parallel', 'FETCH_MAX_PARALLEL', [['node', 'fetch_max_parallel'], ['node', 'fetch', 'max_parallel'], ['fetch', 'max_parallel']], ('int', 0, 65535), '3'),
    ('upload_parallel', '--upload-parallel', 'UPLOAD_MAX_PARALLEL', [['node', 'upload_max_parallel'], ['node', 'upload', 'max_parallel'], ['upload', 'max_parallel']], ('int', 0, 65535), '3'),
    ('key_rotation', '--key-rotation', 'KEY_ROTATION', [['node', 'key_rotation_seconds'], ['node', 'key_rotation_interval'], ['security', 'key_rotation_seconds'], ['security', 'key_rotation_interval']], ('dur', 5, 3600), '300'),
    ('announce_interval', '--announce-interval', 'ANNOUNCE_INTERVAL', [['announce', 'min_interval'], ['node', 'announce_min_interval']], ('dur', 1, 60), '15'),
    ('announce_burst', '--announce-burst', 'ANNOUNCE_BURST', [['announce', 'burst_limit'], ['node', 'announce_burst_limit']], ('int', 1, 100), '4'),
    ('announce_window', '--announce-window', 'ANNOUNCE_WINDOW', [['announce', 'burst_window'], ['node', 'announce_burst_window']], ('dur', 120, 3600), '120'),
    # CLI-side settings of the same layering (read back from the text `eph ... defaults` prints, not from the daemon)
    ('fetch_dir', '--fetch-default-dir', 'CLI:Output directory', [['cli', 'fetch', 'default_directory'], ['cli', 'fetch', 'default-directory'], ['fetch', 'default_directory'], ['fetch', 'default-directory']], ('dir',), '{CWD}'),
    ('use_names', None, 'CLI:Use stored names', [['cli', 'fetch', 'use_manifest_name'], ['cli', 'fetch', 'use-manifest-name']], ('bool',), '1'),
    ('stream_max', '--max-store-bytes', 'CONTROL_STREAM_MAX', [['control', 'stream_max_bytes'], ['control', 'max_stream_bytes'], ['control', 'max_store_bytes']], ('int', 1024, 2 ** 31), '33554432'),
]
SID = [s[0] for s in SETTINGS]
LAYERS = ['flag', 'env', 'p0', 'p1', 'p2', 'p3', 'p4']
ERRORS = [None] * 18 + ['cycle_self', 'cycle_back', 'missing_parent', 'missing_selected_flag', 'missing_selected_env', 'no_default', 'unused_cycle']
STATE = {}


def setup():
    STATE['ports'] = cc.PortAlloc(int(os.environ.get('VERIF_WORKER_SLOT', '0')))
    STATE['tmp'] = tempfile.mkdtemp(prefix='hK_c32_')


def teardown():
    shutil.rmtree(STATE['tmp'], ignore_errors=True)


def make_strategy():
    from hypothesis import strategies as st

    def setting(sid):
        return st.fixed_dictionaries({
            'layers': st.one_of(st.just([]), st.lists(st.sampled_from(LAYERS), min_size=1, max_size=4, unique=True), st.lists(st.sampled_from(LAYERS), min_size=2, max_size=7, unique=True)),
            'alias': st.integers(0, 3), 'base': st.integers(0, 2 ** 20), 'spell': st.integers(0, 7), 'env_flat': st.booleans()})

    return st.fixed_dictionaries({
        'format': st.sampled_from(['yaml', 'yaml', 'json']),
        'chain': st.integers(1, 5),
        'select': st.sampled_from(['default', 'flag', 'env', 'flag_over_env']),
        'use_env': st.booleans(),
        'env_style': st.sampled_from(['overrides', 'flat', 'mixed']),
        'error': st.sampled_from(ERRORS),
        'decoys': st.integers(0, 2),
        'flags_after': st.integers(0, 2 ** 17 - 1),
        'quote': st.integers(0, 2),
        'storage_split': st.booleans(),     # mixed overlay: storage.directory under overrides: and storage.persistent as a flat key (or the reverse)
        'settings': st.fixed_dictionaries({sid: setting(sid) for sid in SID}),
    })


def explicit_cases():
    def base(**kw):
        c = {'format': 'yaml', 'chain': 3, 'select': 'flag', 'use_env': True, 'env_style': 'overrides', 'error': None, 'decoys': 1, 'flags_after': 5, 'quote': 0, 'storage_split': False,
             'settings': {sid: {'layers': [], 'alias': 0, 'base': 7, 'spell': 0, 'env_flat': False} for sid in SID}}
        c.update(kw)
        return c
    a = base()
    for sid in SID:
        a['settings'][sid]['layers'] = ['flag', 'env', 'p0', 'p1', 'p2']
    b = base(format='json', select='env')
    for i, sid in enumerate(SID):
        b['settings'][sid]['layers'] = LAYERS[1 + i % 4:1 + i % 4 + 2]
        b['settings'][sid]['alias'] = 1
    m = base(env_style='mixed', storage_split=True, chain=1, select='default', decoys=0)
    return [a, b, m, base(error='cycle_back'), base(error='missing_parent', format='json'), base(error='cycle_self', chain=1, select='default')]


def value_for(sid, kind, base, k, ctx_ports, case_dir):
    """the value layer number k gives to the setting (distinct per k)"""
    t = kind[0]
    if t in ('dur', 'int'):
        lo, hi = kind[1], kind[2]
        span = hi - lo + 1
        return str(lo + (base + k * (span // 8 or 1)) % span) if span >= 8 else str(lo + (base + k) % span)
    if t == 'host':
        return '127.0.0.%d' % (1 + (base + k) % 8)
    if t == 'port':
        return str(ctx_ports())
    if t == 'token':
        alphabet = 'abcdefghijklmnopqrstuvwxyzABCDEFGHIJKLMNOPQRSTUVWXYZ0123456789_-.'
        n = 4 + (base + k) % 12
        h = cc.expand((sid, base, k), n, b'tok')
        return 't' + ''.join(alphabet[b % len(alphabet)] for b in h) + str(k)
    if t == 'dir':
        return os.path.join(case_dir, 'st', '%s_%d_%d' % ('inbox' if sid == 'fetch_dir' else 'store', base % 1000, k))
    if t == 'bool':
        return '1' if (base + k) % 2 == 0 else '0'
    raise ValueError(t)


def spell_duration(v, spell):
    v = int(v)
    opts = [str(v), '%ds' % v]
    if v % 60 == 0:
        opts.append('%dm' % (v // 60))
    if v % 3600 == 0:
        opts.append('%dh' % (v // 3600))
    if v % 86400 == 0:
        opts.append('%dd' % (v // 86400))
    return opts[spell % len(opts)]


def put(tree, path, value):
    node = tree
    for seg in path[:-1]:
        node = node.setdefault(seg, {})
    node[path[-1]] = value


class Lit:
    """a scalar that already carries its file spelling"""

    def __init__(self, yaml_text, json_value):
        self.yaml_text, self.json_value = yaml_text, json_value


def file_scalar(kind, value, quote):
    t = kind[0]
    if t in ('dur', 'int', 'port'):
        return Lit(value, int(value))
    if t == 'bool':
        truthy = value == '1'
        forms = [('true', True), ('True', True), ('"yes"', 'yes'), ('on', 'on')] if truthy else [('false', False), ('False', False), ("'no'", 'no'), ('off', 'off')]
        y, j = forms[quote % len(forms)]
        return Lit(y, j)
    # strings: plain, "double" or 'single'
    y = [value, '"%s"' % value, "'%s'" % value][quote % 3]
    return Lit(y, value)


def to_yaml(tree, indent=0):
    out = []
    for k, v in tree.items():
        if isinstance(v, dict):
            out.append(' ' * indent + k + ':')
            out.extend(to_yaml(v, indent + 2))
        else:
            out.append(' ' * indent + k + ': ' + (v.yaml_text if isinstance(v, Lit) else str(v)))
    return out


def to_json(tree):
    if isinstance(tree, dict):
        return {k: to_json(v) for k, v in tree.items()}
    return tree.json_value if isinstance(tree, Lit) else tree


def control_request(host, port, lines, body=b'', timeout=5.0):
    """one control request; returns the raw response bytes (b'' when the connection fails)"""
    try:
        s = socket.create_connection((host, port), timeout=timeout)
    except OSError:
        return None
    try:
        s.settimeout(timeout)
        s.sendall(('\n'.join(lines) + '\n\n').encode() + body)
        data = b''
        while True:
            d = s.recv(65536)
            if not d:
                break
            data += d
        return data
    except OSError:
        return b''
    finally:
        s.close()


def fields_of(raw):
    out = {}
    for line in raw.split(b'\n\n', 1)[0].split(b'\n'):
        k, sep, v = line.partition(b':')
        if sep:
            out.setdefault(k.decode('latin1'), v.decode('latin1'))
    return out


def run_case(ctx, case):
    # (replay files written before a setting was added: the missing setting is simply set nowhere)
    missing = [sid for sid in SID if sid not in case['settings']]
    if missing:
        case = dict(case, settings=dict(case['settings'], **{sid: {'layers': [], 'alias': 0, 'base': 1, 'spell': 0, 'env_flat': False} for sid in missing}))
    case_dir = tempfile.mkdtemp(prefix='case_', dir=STATE['tmp'])
    os.makedirs(os.path.join(case_dir, 'st'))
    try:
        return _run(ctx, case, case_dir)
    finally:
        shutil.rmtree(case_dir, ignore_errors=True)


def _run(ctx, case, case_dir):
    chain_len = case['chain']
    error = case['error']
    use_env = case['use_env'] or case['select'] in ('env', 'flag_over_env') or error == 'missing_selected_env'
    select = case['select']
    if error == 'missing_selected_flag':
        select = 'flag'
    elif error == 'missing_selected_env':
        select = 'env'
    elif error == 'no_default':
        select = 'default'
    # ---- profile names: chain[0] is the selected profile
    head = 'default' if select == 'default' else 'edge'
    names = [head] + ['base%d' % i for i in range(1, chain_len)]
    active_layers = ['flag'] + (['env'] if use_env else []) + ['p%d' % i for i in range(chain_len)]
    order = active_layers                        # precedence, highest first

    # ---- values per setting and layer
    allocated = []

    def take_port():
        p = STATE['ports'].take()
        while p in allocated:
            p = STATE['ports'].take()
        allocated.append(p)
        return p

    layer_values = {l: {} for l in LAYERS}       # layer -> sid -> value
    port_names = {}
    split = bool(case.get('storage_split')) and use_env and case['env_style'] == 'mixed'
    for sid, flag, dkey, aliases, kind, default in SETTINGS:
        spec = case['settings'][sid]
        if split and sid in ('storage_dir', 'persistent'):
            spec = dict(spec, layers=sorted(set(spec['layers']) | {'env'}), alias=0, env_flat=(sid == 'persistent') ^ bool(case['settings']['storage_dir']['base'] & 1))
            case = dict(case, settings=dict(case['settings'], **{sid: spec}))
        layers = [l for l in spec['layers'] if l in active_layers]
        if kind[0] == 'port' and not layers:
            layers = [active_layers[spec['base'] % len(active_layers)]]      # never fall back to the well-known default ports
        base_eff = spec['base']
        if kind[0] in ('dur', 'int') and layers:
            lo, hi = kind[1], kind[2]
            span = hi - lo + 1
            step = (span // 8 or 1) if span >= 8 else 1
            kmin = min(LAYERS.index(l) for l in layers if l in order) if any(l in order for l in layers) else 0
            mode = (spec['base'] >> 10) % 4
            if mode == 0:
                base_eff = (-kmin * step) % span                 # the winning layer carries the lower bound (e.g. --announce-pow 0)
            elif mode == 1:
                base_eff = (span - 1 - kmin * step) % span       # ... the upper bound
        for l in layers:
            k = LAYERS.index(l)
            v = value_for(sid, kind, base_eff, k, take_port, case_dir)
            layer_values[l][sid] = v
            if kind[0] == 'port':
                port_names[v] = '<%s.%s>' % (l, sid)
    # decoy profiles set everything to yet other values
    decoys = {}
    for d in range(case['decoys']):
        vals = {}
        for sid, flag, dkey, aliases, kind, default in SETTINGS:
            if kind[0] == 'port':
                continue
            vals[sid] = value_for(sid, kind, case['settings'][sid]['base'] + 3, 7 + d, take_port, case_dir)
        decoys['decoy%d' % d] = vals

    # ---- the model: first layer in precedence order that sets the setting
    expected, winner = {}, {}
    for sid, flag, dkey, aliases, kind, default in SETTINGS:
        expected[sid], winner[sid] = (case_dir if default == '{CWD}' else default), 'built-in'
        for l in order:
            if sid in layer_values[l]:
                expected[sid], winner[sid] = layer_values[l][sid], l
                break

    # ---- configuration file
    def add_siblings(tree, vals, salt):
        """a layer that does not set a nested setting (node.fetch.max_parallel, cli.fetch.*) may still carry an unrelated key in the
        same nested object; unknown keys are ignored by the loader, so the model is unchanged"""
        for sid, flag, dkey, aliases, kind, default in SETTINGS:
            spec = case['settings'][sid]
            path = aliases[spec['alias'] % len(aliases)]
            if len(path) >= 3 and sid not in vals and ((spec['base'] >> 4) + salt) % 3 == 0:
                put(tree, path[:-1] + ['note'], Lit('"tuned %d"' % salt, 'tuned %d' % salt))
                ctx.label('unknown_sibling_key_in_nested_object')

    def profile_tree(vals, salt=0):
        tree = {}
        for sid, flag, dkey, aliases, kind, default in SETTINGS:
            if sid in vals:
                spec = case['settings'][sid]
                put(tree, aliases[spec['alias'] % len(aliases)], file_scalar(kind, vals[sid], case['quote'] + spec['spell']))
        add_siblings(tree, vals, salt)
        return tree

    profiles = {}
    for i, name in enumerate(names):
        tree = profile_tree(layer_values['p%d' % i], i + 1)
        if i + 1 < len(names):
            tree['extends'] = Lit(names[i + 1], names[i + 1])
        profiles[name] = tree
    for name, vals in decoys.items():
        profiles[name] = profile_tree(vals)
    on_chain_error = False
    if error == 'cycle_self':
        profiles[names[-1]]['extends'] = Lit(names[-1], names[-1]); on_chain_error = True
    elif error == 'cycle_back':
        back = names[0] if chain_len > 1 else names[-1]
        profiles[names[-1]]['extends'] = Lit(back, back); on_chain_error = True
    elif error == 'missing_parent':
        profiles[names[-1]]['extends'] = Lit('ghost', 'ghost'); on_chain_error = True
    elif error == 'unused_cycle':
        profiles['loopa'] = {'extends': Lit('loopb', 'loopb')}
        profiles['loopb'] = {'extends': Lit('loopa', 'loopa')}
    elif error == 'no_default':
        if 'default' in profiles:
            profiles['notdefault'] = profiles.pop('default')
        on_chain_error = True
    doc = {'profiles': profiles}
    args_global = []
    env_name = 'stage'
    if use_env:
        env_tree = {}
        if select in ('env', 'flag_over_env'):
            target = head
            if error == 'missing_selected_env':
                target = 'ghost'; on_chain_error = True
            elif select == 'flag_over_env':
                target = 'decoy0' if decoys else 'ghost-env'      # --profile must win over the environment's profile
            env_tree['profile'] = Lit(target, target)
        flat, ov = {}, {}
        for sid, flag, dkey, aliases, kind, default in SETTINGS:
            if sid in layer_values['env']:
                spec = case['settings'][sid]
                style = case['env_style']
                dest = ov if style == 'overrides' or (style == 'mixed' and not spec['env_flat']) else flat
                put(dest, aliases[spec['alias'] % len(aliases)], file_scalar(kind, layer_values['env'][sid], case['quote'] + spec['spell'] + 1))
        add_siblings(ov if case['env_style'] != 'flat' else flat, layer_values['env'], 7)
        # known finding: a flat section that sorts after "overrides" replaces (instead of merging into) the same section under overrides:
        clash = sorted(k for k in flat if k in ov and isinstance(flat[k], dict) and isinstance(ov[k], dict) and k > 'overrides')
        if clash:
            if ctx.is_known(SIG_ENV_MIXED):
                ctx.count_excluded(SIG_ENV_MIXED)
                for k in clash:
                    for leaf, v in flat.pop(k).items():
                        ov[k][leaf] = v
            else:
                ctx.label('env_flat_and_overrides_share_section')
        env_tree.update(flat)
        if ov:
            env_tree['overrides'] = ov
        doc['environments'] = {env_name: env_tree, 'other': {'overrides': {'node': {'default_ttl_seconds': Lit('777', 777)}}}}
        args_global += ['--env', env_name]
    if select in ('flag', 'flag_over_env'):
        args_global += ['--profile', 'ghost' if error == 'missing_selected_flag' else head]
        if error == 'missing_selected_flag':
            on_chain_error = True
    cfg_path = os.path.join(case_dir, 'eph.' + ('json' if case['format'] == 'json' else 'yaml'))
    with open(cfg_path, 'w') as fh:
        if case['format'] == 'json':
            json.dump(to_json(doc), fh, indent=1)
        else:
            fh.write('# generated\n' + '\n'.join(to_yaml(doc)) + '\n')
    args_global = ['--config', cfg_path] + args_global

    # ---- flags
    before, after = list(args_global), []
    for i, (sid, flag, dkey, aliases, kind, default) in enumerate(SETTINGS):
        if sid not in layer_values['flag']:
            continue
        v = layer_values['flag'][sid]
        spec = case['settings'][sid]
        if sid == 'persistent':
            item = ['--persistent' if v == '1' else '--no-persistent']
        elif sid == 'use_names':
            item = ['--fetch-use-manifest-name' if v == '1' else '--fetch-ignore-manifest-name']
        elif kind[0] == 'dur':
            item = [flag, spell_duration(v, spec['spell'])]
        else:
            item = [flag, v]
        (after if (case['flags_after'] >> i) & 1 else before).extend(item)
    argv = before + ['serve'] + after

    # ---- rendering (ports abstracted so that the description is stable across processes)
    def render(v):
        return port_names.get(v, v.replace(case_dir, '{D}'))
    multi = 0
    parts = []
    for sid in SID:
        ls = [l for l in order if sid in layer_values[l]]
        if len(ls) >= 2:
            multi += 1
        if ls:
            parts.append('%s@%s' % (sid, '+'.join(ls)))
    ctx.note('fmt=%s chain=%d select=%s env=%s/%s error=%s decoys=%d after=%x quote=%d | %s | expect %s' % (
        case['format'], chain_len, select, use_env, case['env_style'], error, case['decoys'], case['flags_after'], case['quote'], ' '.join(parts),
        ' '.join('%s=%s(%s)' % (sid, render(expected[sid] or '-'), winner[sid]) for sid in SID)))
    if multi:
        ctx.nt('setting_in_2plus_layers')
    if chain_len >= 2:
        ctx.nt('extends_chain_%d' % min(chain_len, 5))
    if error:
        ctx.nt('graph_' + error)
    ctx.label('select_' + select)
    ctx.label('format_' + case['format'])
    if use_env:
        ctx.label('env_' + case['env_style'])
    for sid in SID:
        if winner[sid] != 'built-in' and len([l for l in order if sid in layer_values[l]]) >= 2:
            ctx.label('winner_' + ('ancestor' if winner[sid] in ('p1', 'p2', 'p3', 'p4') else winner[sid]))

    # ---- run the daemon
    out_path, err_path = os.path.join(case_dir, 'out.txt'), os.path.join(case_dir, 'err.txt')
    t0 = time.monotonic()
    proc = subprocess.Popen([cc.EPH] + argv, cwd=case_dir, env=cc.cli_env(), stdin=subprocess.DEVNULL, stdout=open(out_path, 'wb'), stderr=open(err_path, 'wb'))
    try:
        exp_host, exp_port = expected['control_host'], int(expected['control_port'])
        up = False
        deadline = 20.0
        while time.monotonic() - t0 < deadline:
            if proc.poll() is not None:
                break
            try:
                s = socket.create_connection((exp_host, exp_port), timeout=0.3)
                s.close()
                up = True
                break
            except OSError:
                time.sleep(0.02)

        def stderr_text():
            with open(err_path, 'rb') as fh:
                e = fh.read().decode('utf-8', 'replace')
            with open(out_path, 'rb') as fh:
                return e + fh.read().decode('utf-8', 'replace')[-500:]

        exited = proc.poll() is not None
        text = stderr_text() if exited or not up else ''
        san = cc.sanitizer_report(text)
        if san:
            ctx.fail('C32:sanitizer-report', san)

        if on_chain_error:
            if exited:
                if proc.returncode != 0 and 'E_CONFIG_PROFILE' in text:
                    ctx.label('profile_error_reported')
                    return
                ctx.fail('C32:profile-error-not-reported', 'graph error %s: exit code %s without E_CONFIG_PROFILE; output: %s' % (error, proc.returncode, text[-400:]))
            if up:
                ctx.fail('C32:profile-error-not-reported', 'graph error %s was ignored: the daemon started and listens on %s:%d' % (error, exp_host, exp_port))
            # neither exited nor listening where the (meaningless) expectation says: look for it elsewhere before calling it a hang
            for cand in set([exp_port] + [int(layer_values[l]['control_port']) for l in LAYERS if 'control_port' in layer_values[l]] + [47777]):
                for h in set([exp_host, '127.0.0.1']):
                    raw = control_request(h, cand, ['COMMAND:PING'], timeout=1.0)
                    if raw:
                        ctx.fail('C32:profile-error-not-reported', 'graph error %s was ignored: the daemon answers on %s:%d' % (error, h, cand))
            ctx.fail('C32:hang', 'graph error %s: eph neither exited nor started within %.0f s' % (error, deadline))

        if exited:
            if error == 'unused_cycle' and proc.returncode != 0 and 'E_CONFIG_PROFILE' in text:
                ctx.label('unused_cycle_reported')      # a stricter loader is fine: the cycle is not on the selected chain
                return
            if 'bind' in text.lower() or 'address already in use' in text.lower() or 'listen' in text.lower():
                ctx.label('port_conflict_inconclusive')
                return
            ctx.fail('C32:valid-config-rejected', 'eph exited %s on a valid layered configuration: %s' % (proc.returncode, text[-500:]))
        if not up:
            # alive but not where the winning layer says: find out which layer it listened to
            for l in LAYERS + ['built-in']:
                hosts = set([layer_values[x]['control_host'] for x in LAYERS if 'control_host' in layer_values[x]] + ['127.0.0.1'])
                cand = int(layer_values[l]['control_port']) if l != 'built-in' and 'control_port' in layer_values[l] else (47777 if l == 'built-in' else None)
                if cand is None:
                    continue
                for h in hosts:
                    raw = control_request(h, cand, ['COMMAND:PING'], timeout=1.0)
                    if raw:
                        ctx.fail('C32:wrong-layer-wins', 'control endpoint: expected %s:%s from layer %s/%s, but the daemon listens on %s:%d (the %s value)' % (
                            exp_host, render(str(exp_port)), winner['control_host'], winner['control_port'], h, cand, l))
            ctx.label('timeout_inconclusive')
            return

        raw = control_request(exp_host, exp_port, ['COMMAND:DEFAULTS'])
        if not raw:
            ctx.label('timeout_inconclusive')
            return
        got = fields_of(raw)
        if got.get('STATUS') != 'OK':
            ctx.fail('C32:harness-error', 'DEFAULTS answered %r' % raw[:300])
        if on_chain_error is False and error == 'unused_cycle':
            ctx.label('unused_cycle_tolerated')

        def explain(sid, actual):
            src = [l for l in LAYERS if layer_values[l].get(sid) == actual]
            for dn, vals in decoys.items():
                if vals.get(sid) == actual:
                    src.append(dn)
            default = [s for s in SETTINGS if s[0] == sid][0][5]
            if actual == default:
                src.append('built-in default')
            return 'the value of ' + '/'.join(src) if src else 'no layer\'s value'

        # CLI-side settings: what `eph <same layers> defaults` prints about itself
        if any(sid in layer_values[l] for l in LAYERS for sid in ('fetch_dir', 'use_names')) or (case['settings']['fetch_dir']['base'] & 3) == 0:
            cli = cc.run_cli(before + ['defaults'] + after, cwd=case_dir, timeout=40)
            m1 = re.search(r'^\s*Output directory:\s+(.*)$', cli['out'], re.M)
            m2 = re.search(r'^\s*Use stored names:\s+(enabled|disabled)\s*$', cli['out'], re.M)
            if cli['hung'] or not m1 or not m2:
                ctx.label('cli_defaults_inconclusive')
            else:
                got['CLI:Output directory'] = m1.group(1).strip()
                got['CLI:Use stored names'] = '1' if m2.group(1) == 'enabled' else '0'
                ctx.label('cli_defaults_read')
        mismatches = []
        for sid, flag, dkey, aliases, kind, default in SETTINGS:
            if dkey is None or (dkey.startswith('CLI:') and dkey not in got):
                continue
            actual = got.get(dkey)
            want = expected[sid]
            if actual != want:
                mismatches.append((sid, want, actual))
        # the transport listener really in use
        status = {}
        for _ in range(100):
            st_raw = control_request(exp_host, exp_port, ['COMMAND:STATUS'] + (['TOKEN:' + expected['control_token']] if expected['control_token'] else []))
            status = fields_of(st_raw or b'')
            if status.get('TRANSPORT_PORT', '0') != '0' or proc.poll() is not None:
                break
            time.sleep(0.05)
        if status.get('STATUS') == 'OK' and status.get('TRANSPORT_PORT') not in (None, '0') and status['TRANSPORT_PORT'] != expected['transport_port']:
            mismatches.append(('transport_port(listening)', expected['transport_port'], status['TRANSPORT_PORT']))
        # token probes
        payload = b'x'
        def store(token):
            lines = ['COMMAND:STORE'] + (['TOKEN:' + token] if token is not None else []) + ['PAYLOAD-LENGTH:1']
            return fields_of(control_request(exp_host, exp_port, lines, payload) or b'').get('CODE', '<no answer>')
        tok = expected['control_token']
        candidates = sorted(set(layer_values[l]['control_token'] for l in LAYERS if 'control_token' in layer_values[l]) | set(v['control_token'] for v in decoys.values()))
        if tok is None:
            code = store(None)
            if code == 'ERR_STORE_UNAUTHENTICATED':
                mismatches.append(('control_token', 'none', 'a token is required'))
        else:
            code = store(tok)
            if code == 'ERR_STORE_UNAUTHENTICATED':
                accepted = [c for c in candidates if c != tok and store(c) != 'ERR_STORE_UNAUTHENTICATED']
                mismatches.append(('control_token', tok, 'rejected; accepted instead: %s' % (accepted or 'none of the layer values')))
            else:
                if store(None) != 'ERR_STORE_UNAUTHENTICATED':
                    mismatches.append(('control_token', tok, 'no token required'))
                for c in candidates:
                    if c != tok and store(c) != 'ERR_STORE_UNAUTHENTICATED':
                        mismatches.append(('control_token', tok, 'also accepts %s' % c))
                        break
        if mismatches:
            sid, want, actual = mismatches[0]
            base_sid = sid.split('(')[0]
            sig = 'C32:wrong-layer-wins'
            msg = '%s: expected %s from layer %s (layers setting it, highest first: %s) but the daemon reports %s — %s; %d setting(s) differ: %s' % (
                sid, render(want or 'none'), winner.get(base_sid), [l for l in order if base_sid in layer_values[l]], render(str(actual)),
                explain(base_sid, actual) if isinstance(actual, str) else '', len(mismatches), [m[0] for m in mismatches])
            # is it the known overlay defect?  (the lost setting sits under overrides: in a section that a flat key replaced)
            if use_env and all(winner.get(m[0].split('(')[0]) == 'env' for m in mismatches) and ctx.labels.count('env_flat_and_overrides_share_section'):
                sig = SIG_ENV_MIXED
            ctx.fail(sig, msg)
        ctx.label('daemon_checked')
    finally:
        if proc.poll() is None:
            proc.kill()
        try:
            proc.wait(timeout=10)
        except subprocess.TimeoutExpired:
            pass


if __name__ == '__main__':
    sys.exit(cc.main_entry(PID, RULE, os.path.abspath(__file__), make_strategy, run_case, explicit_cases, setup, teardown))
