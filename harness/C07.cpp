// C07 — routing table answers XOR-closest live peers and keeps bucket shape
#define VERIF_FUZZ_TARGET 1
#include "verif.hpp"
#include "vclock.hpp"
#include "access.hpp"

#include "ephemeralnet/dht/KademliaTable.hpp"

#include <algorithm>
#include <deque>
#include <map>

VERIF_ACCESS_MEMBER(KadBuckets, ephemeralnet::KademliaTable, buckets_, std::array<std::deque<ephemeralnet::PeerContact>, 256>)

namespace verif {
const PropertyInfo kInfo = {
    "C07", 8, 8, 70,
    "tape -> local id from a seed; peers built to share a common prefix with the local id: common-prefix length from a 4-entry palette in the header "
    "(0..255, plus 256 = the local id itself) and a tail variant 0..39, so buckets receive > 16 contacts; history of register_peer(explicit expiry "
    "now+{1,2,5,60,3600}s, or zero expiry, or already expired), add_contact(chunk, ttl), refresh with a new address, bursts of 1..30 registrations into one bucket, sweep_expired, advance(to next expiry "
    "exactly / +-1ns / random), closest_peers(target in {local id, a peer id, a peer id with one low bit flipped, random}, k in {0,1,2,16,20,n,n+1,1000}). "
    "Oracle: (i) the query result equals the min(k,n) smallest-XOR-distance unexpired contacts among those the table holds (buckets read through a "
    "harness-side accessor; distances compared as 256-bit big-endian numbers by an independent routine), strictly increasing; (ii) after every op: no "
    "entry with the local id, no bucket above 16, each entry in bucket 255-clz256(self xor id) computed independently, no id twice, and every held entry "
    "carries the address and expiry of its most recent registration; (iii) directly after registering an unexpired contact != self the table holds "
    "exactly one entry for it with that address and expiry. Eviction order is not asserted. "
    "Non-trivial: a bucket overflowed, or an expired contact sat in the table at query time, or a common prefix >= 200 bits."};

namespace {
using namespace ephemeralnet;
using TP = std::chrono::steady_clock::time_point;

int clz256(const std::array<std::uint8_t, 32>& x) {
    int n = 0;
    for (int i = 0; i < 32; ++i) {
        for (int b = 7; b >= 0; --b) {
            if (x[i] & (1u << b)) return n;
            ++n;
        }
    }
    return 256;
}
std::array<std::uint8_t, 32> xr(const PeerId& a, const PeerId& b) {
    std::array<std::uint8_t, 32> d{};
    for (int i = 0; i < 32; ++i) d[i] = a[i] ^ b[i];
    return d;
}
// big-endian 256-bit compare, written independently (byte loop)
bool dist_less(const std::array<std::uint8_t, 32>& a, const std::array<std::uint8_t, 32>& b) {
    for (int i = 0; i < 32; ++i) {
        if (a[i] != b[i]) return a[i] < b[i];
    }
    return false;
}
PeerId make_peer(const PeerId& self, int cpl, int variant) {
    if (cpl >= 256) return self;
    PeerId p{};
    Prng g(static_cast<std::uint64_t>(cpl) * 131 + variant + 7);
    g.fill(p.data(), p.size());
    // copy the first cpl bits from self, flip bit cpl
    for (int bit = 0; bit < 256; ++bit) {
        int byte = bit / 8, mask = 0x80 >> (bit % 8);
        if (bit < cpl) p[byte] = static_cast<std::uint8_t>((p[byte] & ~mask) | (self[byte] & mask));
        else if (bit == cpl) p[byte] = static_cast<std::uint8_t>((p[byte] & ~mask) | ((self[byte] & mask) ^ mask));
    }
    return p;
}
struct Latest { std::string address; TP expiry; };
}  // namespace

void run_case(Ctx& c) {
    vclock::Frozen frozen(c.tape.header_seed());
    const Tape& t = c.tape;
    PeerId self{};
    Prng(t.h32(0)).fill(self.data(), self.size());
    int palette[4];
    for (int i = 0; i < 4; ++i) {
        unsigned v = t.h(4 + i);
        // spread: raw value, high prefixes, 255, 256(self)
        palette[i] = (v & 0x80) ? (v & 1 ? 255 : (v & 2 ? 256 : 200 + (v >> 2) % 56)) : static_cast<int>(v * 2 % 256);
    }
    c.note("self=%s cpl={%d,%d,%d,%d}", hex(self, 4).c_str(), palette[0], palette[1], palette[2], palette[3]);
    for (int v : palette) if (v >= 200 && v < 256) c.nt("prefix_ge_200");

    KademliaTable table(self);
    auto& buckets = verif_access(table, KadBuckets{});
    std::map<PeerId, Latest> latest;
    auto now = [] { return std::chrono::steady_clock::now(); };
    ChunkId chunk{};
    chunk[0] = 7;

    auto invariants = [&](const char* after) {
        std::map<PeerId, int> seen;
        for (std::size_t b = 0; b < buckets.size(); ++b) {
            if (buckets[b].size() > 16) c.fail("C07:bucket-over-16", "bucket " + std::to_string(b) + " holds " + std::to_string(buckets[b].size()) + " after " + after);
            for (auto& e : buckets[b]) {
                if (e.id == self) c.fail("C07:self-held", std::string("the local id is held after ") + after);
                int want = 255 - clz256(xr(self, e.id));
                if (static_cast<int>(b) != want) c.fail("C07:wrong-bucket", "contact in bucket " + std::to_string(b) + " belongs in " + std::to_string(want));
                if (++seen[e.id] > 1) c.fail("C07:duplicate-entry", std::string("an id is held twice after ") + after);
                auto it = latest.find(e.id);
                if (it == latest.end()) c.fail("C07:phantom-entry", "table holds an id that was never registered");
                if (it->second.address != e.address || it->second.expiry != e.expires_at)
                    c.fail("C07:stale-entry", "held entry does not carry its most recent address/expiry (address '" + e.address + "' want '" + it->second.address + "')");
            }
        }
    };
    auto holds = [&](const PeerId& id) {
        int n = 0;
        for (auto& b : buckets) for (auto& e : b) if (e.id == id) ++n;
        return n;
    };

    for (std::size_t i = 0; i < t.nrec(); ++i) {
        Rec r = t.r(i);
        int cpl = palette[r.a(0) % 4];
        int variant = r.a(1) % 40;
        PeerId pid = make_peer(self, cpl, variant);
        unsigned op = r.op() % 8;
        if (op == 7 && (r.a(5) & 1)) {
            // burst: register k consecutive tail variants into the same bucket with long lifetimes
            int k = 1 + r.a(2) % 30;
            c.note("|burst(cpl%d,v%d..+%d)", cpl, variant, k);
            for (int j = 0; j < k; ++j) {
                int v = (variant + j) % 40;
                PeerId q = make_peer(self, cpl, v);
                std::string addr = "h" + std::to_string(v) + ".b:1";
                TP expiry = now() + std::chrono::seconds(600 + 10 * j);
                std::size_t live_before = 0;
                if (cpl < 256) for (auto& e : buckets[255 - cpl]) if (now() < e.expires_at && e.id != q) ++live_before;
                table.register_peer(PeerContact{q, addr, expiry});
                if (q != self) {
                    latest[q] = Latest{addr, expiry};
                    if (live_before >= 16) c.nt("bucket_overflow");
                    if (holds(q) != 1) c.fail("C07:registered-contact-not-single", "after registering an unexpired contact (burst) the table does not hold exactly one entry for it");
                }
            }
            invariants("burst");
            continue;
        }
        switch (op) {
            case 0: case 1: case 2: case 7: {  // register / refresh / add_contact
                static const int kTtl[] = {1, 2, 5, 60, 3600, 3600, 60, 5};
                unsigned kind = r.a(2) % 8;  // 0 zero-expiry, 1 already expired, else unexpired
                std::string addr = "h" + std::to_string(variant) + "." + std::to_string(r.a(3) % 4) + ":1";
                int bidx = cpl < 256 ? 255 - cpl : -1;
                std::size_t live_before = 0;
                if (bidx >= 0) for (auto& e : buckets[bidx]) if (now() < e.expires_at && e.id != pid) ++live_before;
                TP expiry;
                if (op == 2) {
                    int ttl = kind == 0 ? 0 : kTtl[r.a(4) % 8];
                    c.note("|add_contact(cpl%d/v%d,ttl=%d,%s)", cpl, variant, ttl, addr.c_str());
                    expiry = now() + std::chrono::seconds(ttl);
                    table.add_contact(chunk, PeerContact{pid, addr, {}}, std::chrono::seconds(ttl));
                } else {
                    if (kind == 0) { expiry = TP{}; c.note("|register(cpl%d/v%d,zero-expiry,%s)", cpl, variant, addr.c_str()); }
                    else if (kind == 1) { expiry = now() - std::chrono::seconds(1); c.note("|register(cpl%d/v%d,expired,%s)", cpl, variant, addr.c_str()); }
                    else { int ttl = kTtl[r.a(4) % 8]; expiry = now() + std::chrono::seconds(ttl); c.note("|register(cpl%d/v%d,ttl=%d,%s)", cpl, variant, ttl, addr.c_str()); }
                    table.register_peer(PeerContact{pid, addr, expiry});
                    if (kind == 0) expiry = now();  // documented: zero expiry means "now"
                }
                if (pid != self) latest[pid] = Latest{addr, expiry};
                if (live_before >= 16) c.nt("bucket_overflow");
                if (pid == self) {
                    c.label("register_self");
                    if (holds(self)) c.fail("C07:self-held", "the local id is held after registering it");
                } else if (now() < expiry) {
                    int n = holds(pid);
                    if (n != 1) c.fail("C07:registered-contact-not-single", "after registering an unexpired contact the table holds " + std::to_string(n) + " entries for it");
                }
                break;
            }
            case 3: c.note("|sweep"); table.sweep_expired(); break;
            case 4: {
                TP next = TP::max();
                for (auto& b : buckets) for (auto& e : b) if (e.expires_at > now()) next = std::min(next, e.expires_at);
                unsigned kind = r.a(2) % 5;
                if (next == TP::max() && kind < 3) kind = 3;
                vclock::ns d{0};
                switch (kind) {
                    case 0: d = next - now(); break;
                    case 1: d = next - now() - vclock::ns(1); break;
                    case 2: d = next - now() + vclock::ns(1); break;
                    case 3: d = std::chrono::milliseconds(1 + r.a16(3) % 3000); break;
                    case 4: d = std::chrono::seconds(1 + r.a(3) % 100); break;
                }
                if (d.count() < 0) d = vclock::ns(0);
                c.note("|adv(%lld,k%u)", static_cast<long long>(d.count()), kind);
                vclock::advance(d);
                break;
            }
            case 5: case 6: {
                PeerId target{};
                switch (r.a(2) % 4) {
                    case 0: target = self; break;
                    case 1: target = pid; break;
                    case 2: target = pid; target[31] ^= static_cast<std::uint8_t>(1u << (r.a(3) % 8)); break;
                    case 3: Prng(r.seed()).fill(target.data(), target.size()); break;
                }
                std::vector<const PeerContact*> held_live;
                bool expired_present = false;
                for (auto& b : buckets) for (auto& e : b) { if (now() < e.expires_at) held_live.push_back(&e); else expired_present = true; }
                if (expired_present) c.nt("expired_contact_in_table_at_query");
                std::size_t n = held_live.size();
                static const std::size_t kK[] = {0, 1, 2, 16, 20, 1000, 0, 0};
                std::size_t k = kK[r.a(4) % 8];
                if (r.a(4) % 8 == 6) k = n;
                if (r.a(4) % 8 == 7) k = n + 1;
                c.note("|closest(t%u,k=%zu,n=%zu)", r.a(2) % 4, k, n);
                auto got = table.closest_peers(target, k);
                std::sort(held_live.begin(), held_live.end(), [&](const PeerContact* a, const PeerContact* b) { return dist_less(xr(a->id, target), xr(b->id, target)); });
                std::size_t want_n = std::min(k, n);
                if (got.size() != want_n) c.fail("C07:closest-wrong-count", "closest_peers returned " + std::to_string(got.size()) + " want min(k,n)=" + std::to_string(want_n));
                for (std::size_t j = 0; j < want_n; ++j) {
                    if (got[j].id != held_live[j]->id)
                        c.fail("C07:closest-not-nearest", "position " + std::to_string(j) + " is not the " + std::to_string(j) + "-th nearest unexpired contact");
                    if (got[j].address != held_live[j]->address || got[j].expires_at != held_live[j]->expires_at) c.fail("C07:closest-stale-contact", "returned contact differs from the held one");
                    if (j > 0 && !dist_less(xr(got[j - 1].id, target), xr(got[j].id, target))) c.fail("C07:closest-not-increasing", "distances not strictly increasing");
                }
                break;
            }
        }
        invariants("op");
    }
}
}  // namespace verif
