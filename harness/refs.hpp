// Reference oracles (DESIGN.md section 4): independent of the code under test.
#pragma once
#include <array>
#include <cstdint>
#include <string>
#include <vector>

namespace refs {
using Bytes = std::vector<std::uint8_t>;
using Digest = std::array<std::uint8_t, 32>;

// OpenSSL
Digest sha256(const std::uint8_t* p, std::size_t n);
inline Digest sha256(const Bytes& b) { return sha256(b.data(), b.size()); }
Digest hmac_sha256(const std::uint8_t* key, std::size_t klen, const std::uint8_t* p, std::size_t n);
inline Digest hmac_sha256(const Bytes& k, const Bytes& d) { return hmac_sha256(k.data(), k.size(), d.data(), d.size()); }

// RFC 8439 ChaCha20 written from the RFC; 32-bit block counter wraps mod 2^32.
void chacha20_block(const std::uint8_t key[32], const std::uint8_t nonce[12], std::uint32_t counter, std::uint8_t out[64]);
Bytes chacha20(const std::uint8_t key[32], const std::uint8_t nonce[12], std::uint32_t counter, const std::uint8_t* in, std::size_t n);
// OpenSSL EVP_chacha20 (only valid while the counter does not wrap)
Bytes chacha20_openssl(const std::uint8_t key[32], const std::uint8_t nonce[12], std::uint32_t counter, const std::uint8_t* in, std::size_t n);

// GF(2^8) with reduction polynomial 0x11D by carry-less multiply (no tables)
std::uint8_t gf_mul(std::uint8_t a, std::uint8_t b);
std::uint8_t gf_inv(std::uint8_t a);  // a != 0
inline std::uint8_t gf_div(std::uint8_t a, std::uint8_t b) { return gf_mul(a, gf_inv(b)); }
// Lagrange interpolation at x of points (xs[i], ys[i]); xs distinct
std::uint8_t gf_interpolate(const std::vector<std::uint8_t>& xs, const std::vector<std::uint8_t>& ys, std::uint8_t x);

// DH reference: square-and-multiply with 128-bit intermediates
std::uint64_t modexp(std::uint64_t base, std::uint64_t exp, std::uint64_t mod);

unsigned leading_zero_bits(const std::uint8_t* p, std::size_t n);

void put_be16(Bytes& b, std::uint16_t v);
void put_be32(Bytes& b, std::uint32_t v);
void put_be64(Bytes& b, std::uint64_t v);

// self-checks against published vectors; returns "" when all pass, else what failed
std::string self_check();
}  // namespace refs
