// Internals shim for the proof-of-work helpers that live in anonymous namespaces of
// src/core/Node.cpp and src/security/StoreProof.cpp (DESIGN.md section 3, "internals shim").
// Plain functions over std types only; no test-library headers.
#pragma once
#include <array>
#include <cstddef>
#include <cstdint>
#include <string>
#include <string_view>
#include <vector>

namespace shim_pow {
using Id = std::array<std::uint8_t, 32>;

struct AnnounceFields {
    Id chunk_id{};
    Id peer_id{};
    std::string endpoint;
    std::string manifest_uri;
    std::vector<std::uint8_t> shards;
    std::int64_t ttl_seconds = 0;
};

// ---- src/core/Node.cpp (anonymous namespace) -------------------------------------------------
std::size_t node_leading_zero_bits(const Id& digest);  // count_leading_zero_bits(array<32>)

Id node_handshake_digest(const Id& initiator, const Id& responder, std::uint32_t initiator_public, std::uint64_t nonce);
bool node_handshake_pow_valid(const Id& initiator, const Id& responder, std::uint32_t initiator_public,
                              std::uint64_t nonce, std::uint8_t difficulty);
bool node_compute_handshake_pow(const Id& initiator, const Id& responder, std::uint32_t initiator_public,
                                std::uint8_t difficulty, std::uint64_t& nonce_out);

Id node_announce_digest(const AnnounceFields& f, std::uint64_t nonce);
bool node_announce_pow_valid(const AnnounceFields& f, std::uint64_t nonce, std::uint8_t difficulty);
bool node_compute_announce_pow(const AnnounceFields& f, std::uint8_t difficulty, std::uint64_t& nonce_out);

// the difficulty caps Node.cpp applies to its Config (kMax{Announce,Handshake,Store}PowDifficulty)
std::uint8_t node_max_announce_difficulty();
std::uint8_t node_max_handshake_difficulty();
std::uint8_t node_max_store_difficulty();

// ---- src/security/StoreProof.cpp (anonymous namespace) ---------------------------------------
std::size_t store_leading_zero_bits(const std::uint8_t* p, std::size_t n);  // count_leading_zero_bits(span)
Id store_pow_digest(const Id& chunk_id, std::uint64_t payload_size, std::string_view filename, std::uint64_t nonce);
}  // namespace shim_pow
