// C21 — announces change state only when admissible and within the throttle (Node, virtual time)
#define VERIF_FUZZ_TARGET 1
#include "verif.hpp"
#include "vclock.hpp"
#include "node_access.hpp"
#include "access.hpp"

#include <deque>
#include <map>
#include <sstream>

VERIF_ACCESS_MEMBER(KadShardTable, ephemeralnet::KademliaTable, shard_table_, std::unordered_map<std::string, ephemeralnet::KademliaTable::KeyShardRecord>)

namespace verif {
const PropertyInfo kInfo = {
    "C21", 8, 8, 40,
    "tape -> Node with announce_min_interval 1..60 s, burst limit 1..6, window >= interval, announce PoW difficulty 0..8; timed history of ANNOUNCE messages from 3 senders "
    "delivered to the transport handler. Each announce is built valid (fresh manifest, valid PoW from an independent restatement of the digest) and then optionally given ONE "
    "defect: wrong announcer id, empty URI, undecodable URI, manifest for another chunk, expired manifest, threshold > shards, assigned shard not in the manifest, invalid PoW, "
    "version 2 while PoW is required. Gaps from {0, 1ms, interval-1ns, interval, interval+1ns, window-1ns, window, window+1ns, 120s-+1ns, 180s-+1ns, 300s, random}. "
    "'State change' = digest of manifest cache, key-share table, locators, pending fetches and swarm plans differs around the call. Oracle: (1) a state change happens only "
    "for a defect-free announce from a sender that is not inside a must-lock interval (third consecutive rejection within < 120 s => locked for the following 180 s); "
    "(2) per sender, accepted announces are >= min_interval apart and at most burst_limit lie in any (t-window, t]; (3) a defect-free announce from a sender with no rejection in "
    "the last 300 s, >= min_interval after its previous announce of any kind and with fewer than burst_limit announces in the last window, must change state. "
    "Non-trivial: an announce within 1 ns of an interval/window/lockout edge, interleaved senders, or a defective announce."};

namespace {
using namespace ephemeralnet;
using TP = std::chrono::steady_clock::time_point;
using WP = std::chrono::system_clock::time_point;
using std::chrono::seconds;
using std::chrono::nanoseconds;
TP now() { return std::chrono::steady_clock::now(); }
WP wall() { return std::chrono::system_clock::now(); }

std::string digest(Node& node) {
    std::map<std::string, std::string> parts;
    for (auto& [k, m] : vnode::Access::manifest_cache(node)) parts["m" + k] = std::to_string(m.expires_at.time_since_epoch().count()) + "/" + std::to_string(m.shards.size()) + "/" + std::to_string(m.threshold);
    for (auto& [k, r] : verif_access(vnode::Access::dht(node), KadShardTable{})) parts["s" + k] = std::to_string(r.expires_at.time_since_epoch().count()) + "/" + std::to_string(r.shards.size());
    for (auto& l : vnode::Access::dht(node).snapshot_locators()) {
        std::map<std::string, std::string> hs;
        for (auto& h : l.holders) hs[peer_id_to_string(h.id)] = std::to_string(h.expires_at.time_since_epoch().count()) + h.address;
        std::string v;
        for (auto& [p, e] : hs) v += p.substr(0, 6) + ":" + e + ",";
        parts["l" + chunk_id_to_string(l.id)] = v;
    }
    for (auto& [k, f] : vnode::Access::pending_fetches(node)) parts["f" + k] = std::to_string(f.manifest_expires.time_since_epoch().count()) + peer_id_to_string(f.peer_id).substr(0, 6);
    for (auto& [k, p] : vnode::Access::swarm_plans(node)) parts["p" + k] = "1";
    std::ostringstream o;
    for (auto& [k, v] : parts) o << k << "=" << v << ";";
    return o.str();
}

// independent restatement of the announce PoW digest (chunk id, peer, endpoint, manifest, shard list, TTL, nonce)
bool ref_announce_pow_valid(const protocol::AnnouncePayload& a, unsigned difficulty) {
    if (difficulty == 0) return true;
    refs::Bytes b;
    auto lp = [&](const std::uint8_t* p, std::size_t n) { refs::put_be64(b, n); b.insert(b.end(), p, p + n); };
    lp(a.chunk_id.data(), a.chunk_id.size());
    lp(a.peer_id.data(), a.peer_id.size());
    lp(reinterpret_cast<const std::uint8_t*>(a.endpoint.data()), a.endpoint.size());
    lp(reinterpret_cast<const std::uint8_t*>(a.manifest_uri.data()), a.manifest_uri.size());
    lp(a.assigned_shards.data(), a.assigned_shards.size());
    refs::put_be64(b, static_cast<std::uint64_t>(a.ttl.count()));
    refs::put_be64(b, a.work_nonce);
    auto d = refs::sha256(b);
    return refs::leading_zero_bits(d.data(), d.size()) >= difficulty;
}

struct Sender {
    std::deque<TP> all;        // every announce (any kind)
    std::deque<TP> accepted;   // announces that changed state
    std::deque<TP> streak;     // consecutive rejections counted towards a lock (outside lock intervals)
    TP last_rejection{};
    bool any_rejection = false;
    TP lock_from{}, lock_until{};
    bool has_lock = false;
};
}  // namespace

void run_case(Ctx& c) {
    vclock::Frozen frozen(c.tape.header_seed());
    vnode::silence_streams();
    const Tape& t = c.tape;
    Config cfg;
    cfg.announce_min_interval = seconds(1 + t.h(0) % 60);
    {   // arbitrary throttle configurations: also minimum intervals of an hour and more (beyond the one-hour cap of the burst window)
        static const long long kLong[] = {3600, 3601, 7200, 86400};
        if (t.h(0) >= 232) { cfg.announce_min_interval = seconds(kLong[t.h(0) % 4]); c.label("min_interval_of_an_hour_or_more"); }
    }
    cfg.announce_burst_limit = 1 + t.h(1) % 6;
    cfg.announce_burst_window = seconds(cfg.announce_min_interval.count() * (1 + t.h(2) % 5) + t.h(3) % 7);
    cfg.announce_pow_difficulty = static_cast<std::uint8_t>(t.h(4) % 9);
    cfg.handshake_pow_difficulty = 0;
    cfg.min_manifest_ttl = seconds(30);
    cfg.max_manifest_ttl = seconds(24 * 3600);
    cfg.cleanup_interval = seconds(3600 * 24);
    cfg.key_rotation_interval = seconds(3600);
    cfg.fetch_retry_attempt_limit = 1;
    cfg.nat_stun_enabled = false;
    cfg.relay_enabled = false;
    cfg.identity_seed = 77;
    Config pcfg = cfg;
    pcfg.identity_seed = 78;
    pcfg.announce_pow_difficulty = 0;
    Node node(vnode::make_id(61, 0xA1), cfg);
    Node publisher(vnode::make_id(62, 0xB1), pcfg);
    const auto I = node.config().announce_min_interval;
    const auto W = node.config().announce_burst_window;
    const std::size_t B = node.config().announce_burst_limit;
    const unsigned D = node.config().announce_pow_difficulty;
    c.note("interval=%llds burst=%zu window=%llds pow=%u", (long long)I.count(), B, (long long)W.count(), D);

    vnode::FakePeer peers[3];
    for (int i = 0; i < 3; ++i) peers[i].attach(node, vnode::make_id(70 + i, static_cast<std::uint8_t>(0x10 + i)), 500 + i, false);
    ChunkId chunks[3];
    protocol::Manifest base[3];
    for (int k = 0; k < 3; ++k) {
        Prng(4400 + k).fill(chunks[k].data(), chunks[k].size());
        base[k] = publisher.store_chunk(chunks[k], Prng(800 + k).bytes(16), seconds(3600));
    }
    Sender S[3];
    int last_sender = -1;
    std::uint64_t counter = 0;

    for (std::size_t i = 0; i < t.nrec(); ++i) {
        Rec r = t.r(i);
        int s = r.a(0) % 3;
        // gap
        nanoseconds d{0};
        bool edge = false;
        switch (r.a(1) % 16) {
            case 0: d = nanoseconds(0); break;
            case 1: d = std::chrono::milliseconds(1); break;
            case 2: d = I - nanoseconds(1); edge = true; break;
            case 3: d = I; edge = true; break;
            case 4: d = I + nanoseconds(1); edge = true; break;
            case 5: d = W - nanoseconds(1); edge = true; break;
            case 6: d = W; edge = true; break;
            case 7: d = W + nanoseconds(1); edge = true; break;
            case 8: d = seconds(120) - nanoseconds(1); edge = true; break;
            case 9: d = seconds(120) + nanoseconds(1); edge = true; break;
            case 10: d = seconds(180) - nanoseconds(1); edge = true; break;
            case 11: d = seconds(180) + nanoseconds(1); edge = true; break;
            case 12: d = seconds(300); break;
            case 13: d = std::chrono::milliseconds(r.a16(2) % 10000); break;
            case 14: d = I; edge = true; break;
            case 15: d = seconds(1 + r.a(2) % 30); break;
        }
        vclock::advance(d);
        if (edge) c.nt("gap_at_edge");
        if (last_sender >= 0 && last_sender != s) c.nt("interleaved_senders");
        last_sender = s;

        // build a valid announce
        int k = r.a(3) % 3;
        protocol::Manifest m = base[k];
        ++counter;
        m.expires_at = WP(std::chrono::duration_cast<WP::duration>(std::chrono::floor<seconds>((wall() + seconds(600 + counter)).time_since_epoch())));
        protocol::AnnouncePayload a{};
        a.chunk_id = chunks[k];
        a.peer_id = peers[s].id;
        a.ttl = seconds(60 + r.a(4));
        bool assigned = (r.a(5) & 1) != 0;
        if (assigned) a.assigned_shards = {m.shards.front().index};
        else if (r.a(5) & 2) a.endpoint = "127.0.0.1:9";
        std::uint8_t version = 4;
        unsigned defect = r.op() % 16;  // 0..6 => none (valid), 7..15 => one defect
        const char* dname = "valid";
        switch (defect) {
            case 7: a.peer_id = peers[(s + 1) % 3].id; dname = "wrong-announcer"; break;
            case 8: dname = "empty-uri"; break;
            case 9: dname = "undecodable-uri"; break;
            case 10: a.chunk_id[5] ^= 0x40; dname = "manifest-for-other-chunk"; break;
            case 11: m.expires_at = WP(std::chrono::duration_cast<WP::duration>(std::chrono::floor<seconds>((wall() - seconds(5)).time_since_epoch()))); dname = "expired-manifest"; break;
            case 12: m.threshold = static_cast<std::uint8_t>(m.shards.size() + 1); dname = "threshold-gt-shards"; break;
            case 13: {
                // "include every assigned shard": indices outside 1..total_shares, and an index inside that range whose
                // shard the carried manifest does not contain (the manifest still meets its threshold)
                a.endpoint.clear();
                dname = "assigned-shard-not-in-manifest";
                switch ((r.a(5) >> 2) % 5) {
                    case 0: a.assigned_shards = {250}; break;
                    case 1: a.assigned_shards = {0}; break;
                    case 2: a.assigned_shards = {static_cast<std::uint8_t>(m.total_shares + 1)}; break;
                    default: {
                        if (m.shards.size() > m.threshold) {
                            std::size_t drop = r.a(2) % m.shards.size();
                            std::uint8_t missing = m.shards[drop].index;
                            m.shards.erase(m.shards.begin() + static_cast<std::ptrdiff_t>(drop));
                            a.assigned_shards = {missing};
                            if ((r.a(5) >> 2) % 5 == 4) a.assigned_shards.insert(a.assigned_shards.begin(), m.shards.front().index);
                            c.label("assigned_shard_in_range_but_not_carried");
                        } else a.assigned_shards = {250};
                        break;
                    }
                }
                break;
            }
            case 14: dname = D > 0 ? "invalid-pow" : "valid"; break;
            case 15: dname = D > 0 ? "v2-with-pow-required" : "valid"; break;
            default: break;
        }
        if (defect == 8) a.manifest_uri.clear();
        else if (defect == 9) a.manifest_uri = "eph://not-a-manifest!!";
        else a.manifest_uri = protocol::encode_manifest(m);
        // proof of work: search a nonce with the independent digest
        a.work_nonce = r.a16(6);
        if (D > 0) {
            bool want_valid = !(defect == 14);
            for (;; ++a.work_nonce) if (ref_announce_pow_valid(a, D) == want_valid) break;
        }
        if (defect == 15 && D > 0) version = 2;
        const bool has_defect = std::string(dname) != "valid";
        if (has_defect) c.nt("defective_announce");

        Sender& me = S[s];
        const TP T = now();
        if (me.has_lock && T >= me.lock_until) me.has_lock = false;  // beyond the interval the model no longer claims anything
        const bool must_locked = me.has_lock && T >= me.lock_from && T < me.lock_until;
        // clean-situation completeness predicate
        bool clean = !has_defect && !(me.any_rejection && T - me.last_rejection <= seconds(300)) && !me.has_lock;
        if (clean && !me.all.empty() && T - me.all.back() < I) clean = false;
        if (clean) {
            std::size_t in_window = 0;
            for (auto& x : me.all) if (x >= T - W - nanoseconds(1)) ++in_window;
            if (in_window >= B) clean = false;
        }

        std::string before = digest(node);
        protocol::Message msg{};
        msg.version = version;
        msg.type = protocol::MessageType::Announce;
        msg.payload = a;
        peers[s].deliver(msg);
        std::string after = digest(node);
        const bool changed = after != before;
        c.note("|adv(%lld) ann(s%d,c%d,%s)->%s", static_cast<long long>(d.count()), s, k, dname, changed ? "applied" : "ignored");

        if (changed) {
            if (has_defect) c.fail(std::string("C21:defective-announce-applied:") + dname, std::string("an announce with defect '") + dname + "' changed node state");
            if (must_locked) c.fail("C21:locked-sender-applied", "an announce from a sender inside its 180 s lockout changed node state");
            // throttle invariants over the accepted sub-sequence
            if (!me.accepted.empty() && T - me.accepted.back() < I)
                c.fail("C21:min-interval-violated", "two announces of one sender were applied " + std::to_string((T - me.accepted.back()).count()) + " ns apart (min interval " + std::to_string(I.count()) + " s)");
            std::size_t in_window = 1;
            for (auto& x : me.accepted) if (x > T - W) ++in_window;
            if (in_window > B) c.fail("C21:burst-limit-violated", std::to_string(in_window) + " announces of one sender applied within one window (limit " + std::to_string(B) + ")");
            me.accepted.push_back(T);
            me.streak.clear();
            c.label("applied");
        } else {
            if (clean) c.fail("C21:clean-announce-ignored", "a defect-free announce from a sender with a clean record, outside the throttle, did not change node state");
            c.label("ignored");
            me.any_rejection = true;
            me.last_rejection = T;
            if (!must_locked) {
                while (!me.streak.empty() && T - me.streak.front() >= seconds(120)) me.streak.pop_front();
                me.streak.push_back(T);
                if (me.streak.size() >= 3) {
                    me.has_lock = true;
                    me.lock_from = T;
                    me.lock_until = T + seconds(180);
                    me.streak.clear();
                    c.label("lockout_started");
                }
            } else {
                c.label("ignored_while_locked");
            }
        }
        me.all.push_back(T);
    }
}
}  // namespace verif
