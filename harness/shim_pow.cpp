// Internals shim: reaches the anonymous-namespace PoW helpers of Node.cpp and StoreProof.cpp by
// including the repository sources.  A string macro cannot be pasted into an #include, so the path is given
// relative to the -I$(REPO)/include directory the Makefile passes (it follows REPO=... overrides).  This object is
// linked before libeph.a, so the archive members Node.o / StoreProof.o are not pulled in.
#include "../src/core/Node.cpp"
#include "../src/security/StoreProof.cpp"

#include "shim_pow.hpp"

namespace shim_pow {
namespace {
ephemeralnet::protocol::AnnouncePayload to_payload(const AnnounceFields& f, std::uint64_t nonce) {
    ephemeralnet::protocol::AnnouncePayload p;
    p.chunk_id = f.chunk_id;
    p.peer_id = f.peer_id;
    p.endpoint = f.endpoint;
    p.manifest_uri = f.manifest_uri;
    p.assigned_shards = f.shards;
    p.ttl = std::chrono::seconds(f.ttl_seconds);
    p.work_nonce = nonce;
    return p;
}
}  // namespace

std::size_t node_leading_zero_bits(const Id& digest) { return ephemeralnet::count_leading_zero_bits(digest); }

Id node_handshake_digest(const Id& initiator, const Id& responder, std::uint32_t initiator_public, std::uint64_t nonce) {
    return ephemeralnet::handshake_pow_digest(initiator, responder, initiator_public, nonce);
}
bool node_handshake_pow_valid(const Id& initiator, const Id& responder, std::uint32_t initiator_public,
                              std::uint64_t nonce, std::uint8_t difficulty) {
    return ephemeralnet::handshake_pow_valid(initiator, responder, initiator_public, nonce, difficulty);
}
bool node_compute_handshake_pow(const Id& initiator, const Id& responder, std::uint32_t initiator_public,
                                std::uint8_t difficulty, std::uint64_t& nonce_out) {
    return ephemeralnet::compute_handshake_pow(initiator, responder, initiator_public, difficulty, nonce_out);
}

Id node_announce_digest(const AnnounceFields& f, std::uint64_t nonce) {
    return ephemeralnet::announce_pow_digest(to_payload(f, nonce));
}
bool node_announce_pow_valid(const AnnounceFields& f, std::uint64_t nonce, std::uint8_t difficulty) {
    return ephemeralnet::announce_pow_valid(to_payload(f, nonce), difficulty);
}
bool node_compute_announce_pow(const AnnounceFields& f, std::uint8_t difficulty, std::uint64_t& nonce_out) {
    auto p = to_payload(f, 0);
    const bool ok = ephemeralnet::compute_announce_pow(p, difficulty);
    nonce_out = p.work_nonce;
    return ok;
}

std::uint8_t node_max_announce_difficulty() { return ephemeralnet::kMaxAnnouncePowDifficulty; }
std::uint8_t node_max_handshake_difficulty() { return ephemeralnet::kMaxHandshakePowDifficulty; }
std::uint8_t node_max_store_difficulty() { return ephemeralnet::kMaxStorePowDifficulty; }

std::size_t store_leading_zero_bits(const std::uint8_t* p, std::size_t n) {
    return ephemeralnet::security::count_leading_zero_bits(std::span<const std::uint8_t>(p, n));
}
Id store_pow_digest(const Id& chunk_id, std::uint64_t payload_size, std::string_view filename, std::uint64_t nonce) {
    ephemeralnet::security::StoreWorkInput in;
    in.chunk_id = chunk_id;
    in.payload_size = payload_size;
    in.filename_hint = filename;
    return ephemeralnet::security::pow_digest(in, nonce);
}
}  // namespace shim_pow
