// C01 — a stored chunk is retrievable exactly while it is live (ChunkStore layer + Node layer, virtual time)
#define VERIF_FUZZ_TARGET 1
#include "verif.hpp"
#include "vclock.hpp"
#include "node_access.hpp"

#include "ephemeralnet/storage/ChunkStore.hpp"

#include <map>

namespace verif {
const PropertyInfo kInfo = {
    "C01", 8, 8, 40,
    "tape -> header selects the layer. Layer A (ChunkStore): default_chunk_ttl in {1s,5s,60s,6h}; history over 3 chunk ids of put(id, bytes (1/4 of the overwrites: the bytes already stored), ttl in "
    "{-5,0,1,2,30,3600,86400,10y}), get, get_record, sweep_expired, advance(to the next deadline exactly / -1ns / +1ns / random). Layer B (Node with a "
    "fake peer on a socketpair): min/max/default TTL and cleanup interval from a palette; store_chunk (ttl incl. 0/negative/huge), re-store of the same id, "
    "fetch_chunk, export_chunk_record, a peer REQUEST delivered to the transport handler (the harness decrypts the CHUNK / negative ACK the node sends), "
    "stored_chunks listing, tick, advance. Oracle: reference map id -> (bytes, deadline = now + effective ttl); after every op the listing holds every "
    "live id with the model deadline; get/fetch/export return exactly the model bytes iff now < deadline; a sweep returns exactly the expired records "
    "still present; a CHUNK answer is sent only for a live chunk with the stored ciphertext and must be sent when the remaining lifetime exceeds the "
    "minimum TTL by a second; no listing shows an id with deadline <= now. Non-trivial: a read at t == deadline, or an overwrite followed by a read after "
    "the old deadline, or a read between deadline and sweep."};

namespace {
using namespace ephemeralnet;
using TP = std::chrono::steady_clock::time_point;
using std::chrono::seconds;

struct MEntry {
    std::vector<std::uint8_t> bytes;
    TP deadline;
    bool present = true;         // record still held (expired records stay until a sweep drops them)
    bool maybe_dropped = false;  // a lookup saw the record expired: the store may or may not have dropped it already
    TP old_deadline{};           // deadline of the overwritten record, if any
    bool overwritten = false;
};

ChunkId cid(int i) { ChunkId c{}; Prng g(7700 + i); g.fill(c.data(), c.size()); c[0] = static_cast<std::uint8_t>(0xF0 + i); return c; }
int cidx(const ChunkId& c) { return c[0] - 0xF0; }
const long long kTtlTable[] = {-5, 0, 1, 2, 30, 3600, 86400, 315360000LL};

TP now() { return std::chrono::steady_clock::now(); }

vclock::ns pick_advance(Ctx& c, const std::map<int, MEntry>& model, Rec r) {
    TP next = TP::max();
    for (auto& [k, e] : model) if (e.deadline > now()) next = std::min(next, e.deadline);
    unsigned kind = r.a(1) % 6;
    if (next == TP::max() && kind < 3) kind = 3;
    vclock::ns d{0};
    switch (kind) {
        case 0: d = next - now(); c.label("advance_to_deadline"); break;
        case 1: d = next - now() - vclock::ns(1); break;
        case 2: d = next - now() + vclock::ns(1); break;
        case 3: d = std::chrono::milliseconds(1 + r.a16(2) % 5000); break;
        case 4: d = seconds(1 + r.a(2) % 120); break;
        case 5: d = seconds(600 + 37 * r.a16(2)); break;
    }
    if (d.count() < 0) d = vclock::ns(0);
    c.note("|adv(%lldns)", static_cast<long long>(d.count()));
    return d;
}

void classify_read(Ctx& c, const MEntry& e) {
    if (now() == e.deadline) c.nt("read_at_deadline");
    if (e.overwritten && now() >= e.old_deadline) c.nt("read_after_old_deadline_of_overwritten");
    if (now() >= e.deadline && e.present) c.nt("read_between_deadline_and_sweep");
}

// ---------------------------------------------------------------- layer A: ChunkStore
void layer_a(Ctx& c) {
    const Tape& t = c.tape;
    static const int kDefaults[] = {1, 5, 60, 21600};
    Config cfg;
    cfg.default_chunk_ttl = seconds(kDefaults[t.h(1) % 4]);
    cfg.storage_persistent_enabled = false;
    c.note("A default=%ds", kDefaults[t.h(1) % 4]);
    ChunkStore store(cfg);
    std::map<int, MEntry> model;

    auto check_listing = [&]() {
        auto snap = store.snapshot();
        std::map<int, const ChunkStore::SnapshotEntry*> by;
        for (auto& s : snap) by[cidx(s.id)] = &s;
        for (auto& [k, e] : model) {
            if (now() < e.deadline) {
                auto it = by.find(k);
                if (it == by.end()) c.fail("C01:live-chunk-missing", "store lost live chunk c" + std::to_string(k));
                if (it->second->expires_at != e.deadline) c.fail("C01:wrong-deadline", "chunk c" + std::to_string(k) + " deadline differs from now+effective ttl of the latest put");
                if (it->second->size != e.bytes.size()) c.fail("C01:wrong-bytes", "chunk c" + std::to_string(k) + " size differs");
            }
        }
        for (auto& [k, s] : by) {
            if (!model.count(k)) c.fail("C01:phantom-chunk", "store lists a chunk never stored");
            if (now() < s->expires_at && !(now() < model[k].deadline)) c.fail("C01:served-after-deadline", "store lists chunk c" + std::to_string(k) + " as unexpired after its deadline");
        }
        if (store.size() != snap.size()) c.fail("C01:size-mismatch", "size() != snapshot().size()");
    };

    for (std::size_t i = 0; i < t.nrec(); ++i) {
        Rec r = t.r(i);
        int k = r.a(0) % 3;
        switch (r.op() % 6) {
            case 0: {
                long long ttl = kTtlTable[r.a(1) % 8];
                auto bytes = Prng(r.seed()).bytes(r.a(2) % 65);
                // an overwrite may carry exactly the bytes already stored (a repeated store, a refreshed replica): it still replaces the deadline
                if ((r.a(3) & 3) == 0 && model.count(k)) { bytes = model[k].bytes; c.label("overwrite_with_identical_bytes"); }
                c.note("|put(c%d,%zuB%s,ttl=%lld)", k, bytes.size(), ((r.a(3) & 3) == 0 && model.count(k)) ? "=same" : "", ttl);
                long long eff = ttl > 0 ? ttl : cfg.default_chunk_ttl.count();
                if (eff < 1) eff = 1;
                MEntry e;
                e.bytes = bytes;
                e.deadline = now() + seconds(eff);
                if (model.count(k)) { e.overwritten = true; e.old_deadline = model[k].deadline; c.label("overwrite"); }
                model[k] = e;
                store.put(cid(k), bytes, seconds(ttl));
                break;
            }
            case 1:
            case 2: {
                bool rec = (r.op() % 6) == 2;
                c.note(rec ? "|get_record(c%d)" : "|get(c%d)", k);
                std::optional<ChunkData> got;
                std::optional<TP> got_deadline;
                if (rec) { auto g = store.get_record(cid(k)); if (g) { got = g->data; got_deadline = g->expires_at; } }
                else got = store.get(cid(k));
                auto it = model.find(k);
                bool live = it != model.end() && now() < it->second.deadline;
                if (it != model.end()) classify_read(c, it->second);
                if (live) {
                    if (!got.has_value()) c.fail("C01:live-chunk-not-served", "lookup of live chunk c" + std::to_string(k) + " returned nothing");
                    if (*got != it->second.bytes) c.fail("C01:wrong-bytes", "lookup returned bytes different from the latest put");
                    if (got_deadline && *got_deadline != it->second.deadline) c.fail("C01:wrong-deadline", "record deadline differs");
                } else {
                    if (got.has_value()) c.fail("C01:served-after-deadline", "lookup served chunk c" + std::to_string(k) + " at/after its deadline");
                    if (it != model.end()) it->second.maybe_dropped = true;  // a lookup of an expired record may drop it
                }
                break;
            }
            case 3: {
                c.note("|sweep");
                auto removed = store.sweep_expired();
                std::map<int, int> cnt;
                for (auto& id : removed) cnt[cidx(id)]++;
                for (auto& [k2, e] : model) {
                    bool expect = e.present && now() >= e.deadline;
                    int n = cnt.count(k2) ? cnt[k2] : 0;
                    if (!expect && n) c.fail(now() < e.deadline ? "C01:sweep-removed-live-chunk" : "C01:sweep-reported-absent-chunk", "sweep reported c" + std::to_string(k2));
                    if (expect && n > 1) c.fail("C01:sweep-reported-twice", "sweep reported expired c" + std::to_string(k2) + " " + std::to_string(n) + " times");
                    if (expect && n != 1 && !e.maybe_dropped) c.fail("C01:sweep-missed-expired-chunk", "sweep reported expired c" + std::to_string(k2) + " " + std::to_string(n) + " times");
                    if (expect) e.present = false;
                }
                break;
            }
            case 4:
            case 5: vclock::advance(pick_advance(c, model, r)); break;
        }
        check_listing();
    }
}

// ---------------------------------------------------------------- layer B: Node
void layer_b(Ctx& c) {
    const Tape& t = c.tape;
    vnode::silence_streams();
    static const int kMin[] = {1, 5, 30, 120};
    static const int kMax[] = {60, 3600, 21600, 86400};
    static const int kDef[] = {10, 600, 21600, 1};
    static const int kCleanup[] = {1, 5, 300, 30};
    Config cfg;
    cfg.min_manifest_ttl = seconds(kMin[t.h(1) % 4]);
    cfg.max_manifest_ttl = seconds(kMax[t.h(2) % 4]);
    cfg.default_chunk_ttl = seconds(kDef[t.h(3) % 4]);
    cfg.cleanup_interval = seconds(kCleanup[t.h(4) % 4]);
    cfg.upload_max_parallel_transfers = 0;
    cfg.upload_max_transfers_per_peer = 0;
    cfg.identity_seed = 42;
    cfg.announce_pow_difficulty = 0;
    cfg.handshake_pow_difficulty = 0;
    cfg.nat_stun_enabled = false;
    cfg.relay_enabled = false;
    Node node(vnode::make_id(1, 0xAA), cfg);
    const auto min_ttl = node.config().min_manifest_ttl, max_ttl = node.config().max_manifest_ttl, def_ttl = node.config().default_chunk_ttl;
    c.note("B min=%llds max=%llds def=%llds cleanup=%ds", (long long)min_ttl.count(), (long long)max_ttl.count(), (long long)def_ttl.count(), kCleanup[t.h(4) % 4]);
    vnode::FakePeer peer;
    if (!peer.attach(node, vnode::make_id(2, 0xBB), 99)) c.fail("C01:harness-error", "could not attach fake peer");
    vnode::QuiesceGuard guard{node, {&peer}};
    std::map<int, MEntry> model;
    std::map<int, std::vector<std::uint8_t>> plain;
    std::map<int, std::string> manifest_uri;   // manifest of the latest store of each id

    auto check_listing = [&]() {
        auto snap = node.stored_chunks();
        std::map<int, const ChunkStore::SnapshotEntry*> by;
        for (auto& s : snap) by[cidx(s.id)] = &s;
        for (auto& [k, e] : model) {
            if (now() < e.deadline) {
                auto it = by.find(k);
                if (it == by.end()) c.fail("C01:live-chunk-missing", "node listing lost live chunk c" + std::to_string(k));
                if (it->second->expires_at != e.deadline) c.fail("C01:wrong-deadline", "listed deadline of c" + std::to_string(k) + " differs from now+clamped ttl of the latest store");
            }
        }
        for (auto& [k, s] : by) {
            if (!model.count(k)) c.fail("C01:phantom-chunk", "node lists a chunk never stored");
            if (now() >= model[k].deadline) c.fail("C01:listing-shows-expired-unswept", "stored_chunks() lists c" + std::to_string(k) + " at/after its deadline");
        }
    };

    // a second node that publishes newer versions of the same ids: its replicas reach `node` through receive_chunk,
    // the other code path by which a chunk is (over)written
    std::unique_ptr<Node> publisher;
    for (std::size_t i = 0; i < t.nrec(); ++i) {
        Rec r = t.r(i);
        int k = r.a(0) % 3;
        if (r.op() % 16 == 8) {
            if (!publisher) { Config pc = cfg; pc.identity_seed = 43; publisher = std::make_unique<Node>(vnode::make_id(3, 0xCC), pc); }
            long long ttl = std::max<long long>(kTtlTable[r.a(1) % 8], 2);
            auto bytes = Prng(r.seed() ^ 0x5E9).bytes(r.a(2) % 200);
            seconds eff = std::min(std::max(seconds(ttl), min_ttl), max_ttl);
            auto m = publisher->store_chunk(cid(k), bytes, seconds(ttl));
            auto prec = publisher->export_chunk_record(cid(k));
            if (!prec) c.fail("C01:harness-error", "publisher lost its own chunk");
            const std::string uri = protocol::encode_manifest(m);
            c.note("|replica(c%d,%zuB,ttl=%lld)", k, bytes.size(), ttl);
            auto got = node.receive_chunk(uri, prec->data);
            if (!got.has_value()) { c.label("replica_refused"); check_listing(); continue; }   // (a remaining lifetime below the minimum is refused: not judged here)
            if (*got != bytes) c.fail("C01:wrong-bytes", "receive_chunk returned bytes different from the replica's content");
            auto rec = node.export_chunk_record(cid(k));
            if (!rec.has_value()) c.fail("C01:live-chunk-not-served", "export_chunk_record right after an accepted replica returned nothing");
            // the replica's lifetime is the manifest's remaining lifetime in whole seconds (the URI carries whole seconds and
            // the remainder is truncated once more: less than two seconds are lost in all)
            if (rec->expires_at > now() + eff || rec->expires_at <= now() + eff - seconds(2))
                c.fail("C01:wrong-deadline", "an accepted replica of c" + std::to_string(k) + " did not replace the deadline (expected the manifest's remaining lifetime, " + std::to_string(eff.count()) + " s minus less than two seconds)");
            MEntry e;
            e.deadline = rec->expires_at;
            if (model.count(k)) { e.overwritten = true; e.old_deadline = model[k].deadline; c.nt("overwrite_by_replica"); }
            e.bytes = prec->data;
            if (rec->data != prec->data) c.fail("C01:wrong-bytes", "after an accepted replica the stored bytes are not the replica's ciphertext");
            model[k] = e;
            plain[k] = bytes;
            manifest_uri[k] = uri;
            check_listing();
            continue;
        }
        switch (r.op() % 8) {
            case 0: {
                long long ttl = kTtlTable[r.a(1) % 8];
                auto bytes = Prng(r.seed()).bytes(r.a(2) % 200);
                c.note("|store(c%d,%zuB,ttl=%lld)", k, bytes.size(), ttl);
                seconds eff = ttl > 0 ? seconds(ttl) : def_ttl;
                if (eff < min_ttl) eff = min_ttl;
                if (eff > max_ttl) eff = max_ttl;
                MEntry e;
                e.deadline = now() + eff;
                if (model.count(k)) { e.overwritten = true; e.old_deadline = model[k].deadline; c.label("overwrite"); }
                manifest_uri[k] = protocol::encode_manifest(node.store_chunk(cid(k), bytes, seconds(ttl)));
                auto rec = node.export_chunk_record(cid(k));
                if (!rec.has_value()) c.fail("C01:live-chunk-not-served", "export_chunk_record right after store returned nothing");
                e.bytes = rec->data;  // stored (encrypted) bytes; C11 checks they are the right ciphertext
                model[k] = e;
                plain[k] = bytes;
                break;
            }
            case 1: {
                c.note("|fetch(c%d)", k);
                auto got = node.fetch_chunk(cid(k));
                auto it = model.find(k);
                bool live = it != model.end() && now() < it->second.deadline;
                if (it != model.end()) classify_read(c, it->second);
                if (live) {
                    if (!got.has_value()) c.fail("C01:live-chunk-not-served", "fetch_chunk of live chunk c" + std::to_string(k) + " returned nothing");
                    if (*got != plain[k]) c.fail("C01:wrong-bytes", "fetch_chunk returned bytes different from the latest store");
                } else {
                    if (got.has_value()) c.fail("C01:served-after-deadline", "fetch_chunk served c" + std::to_string(k) + " at/after its deadline");
                    if (it != model.end()) it->second.maybe_dropped = true;
                }
                break;
            }
            case 2: {
                c.note("|export(c%d)", k);
                auto got = node.export_chunk_record(cid(k));
                auto it = model.find(k);
                bool live = it != model.end() && now() < it->second.deadline;
                if (it != model.end()) classify_read(c, it->second);
                if (live) {
                    if (!got.has_value()) c.fail("C01:live-chunk-not-served", "export_chunk_record of live chunk returned nothing");
                    if (got->data != it->second.bytes) c.fail("C01:wrong-bytes", "export_chunk_record bytes changed since the store");
                    if (got->expires_at != it->second.deadline) c.fail("C01:wrong-deadline", "export_chunk_record deadline differs");
                } else {
                    if (got.has_value()) c.fail("C01:served-after-deadline", "export_chunk_record served c" + std::to_string(k) + " at/after its deadline");
                    if (it != model.end()) it->second.maybe_dropped = true;
                }
                break;
            }
            case 3: {
                c.note("|peer_request(c%d)", k);
                peer.drain();
                protocol::Message m{};
                m.type = protocol::MessageType::Request;
                m.payload = protocol::RequestPayload{cid(k), peer.id};
                peer.deliver(m);
                auto out = peer.drain();
                auto it = model.find(k);
                bool live = it != model.end() && now() < it->second.deadline;
                if (it != model.end()) classify_read(c, it->second);
                bool chunk_sent = false, nack = false;
                for (auto& msg : out) {
                    if (auto* cp = std::get_if<protocol::ChunkPayload>(&msg.payload)) {
                        if (cp->chunk_id != cid(k)) continue;
                        chunk_sent = true;
                        if (!live) c.fail("C01:served-after-deadline", "peer request for c" + std::to_string(k) + " answered with a CHUNK at/after its deadline");
                        if (cp->data != it->second.bytes) c.fail("C01:wrong-bytes", "CHUNK sent to the peer differs from the stored bytes");
                    } else if (auto* ap = std::get_if<protocol::AcknowledgePayload>(&msg.payload)) {
                        if (ap->chunk_id == cid(k) && !ap->accepted) nack = true;
                    }
                }
                if (live && it->second.deadline - now() >= min_ttl + seconds(1) && !chunk_sent)
                    c.fail("C01:live-chunk-not-served", "peer request for live chunk c" + std::to_string(k) + " (remaining > min ttl) got no CHUNK");
                if (!live && !nack) c.fail("C01:no-negative-ack", "peer request for an expired/unknown chunk got no negative ACK");
                if (!live && it != model.end()) it->second.maybe_dropped = true;
                break;
            }
            case 4: c.note("|tick"); node.tick(); break;
            case 5: {
                // what a control-plane FETCH does before it reads the chunk: the chunk's own manifest is ingested again
                // (the listing itself is checked after every op)
                if (manifest_uri.count(k) && (r.a(1) & 1)) {
                    c.note("|reingest(c%d)", k);
                    node.ingest_manifest(manifest_uri[k]);
                    c.label("own_manifest_ingested_again");
                } else c.note("|list");
                break;
            }
            case 6:
            case 7: vclock::advance(pick_advance(c, model, r)); break;
        }
        check_listing();
    }
}
}  // namespace

void run_case(Ctx& c) {
    vclock::Frozen frozen(c.tape.header_seed());
    if (c.tape.h(0) & 1) layer_b(c);
    else layer_a(c);
}
}  // namespace verif
