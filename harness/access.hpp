// Legal access to private members without touching the sources: explicit template instantiation may name
// private members (C++ [temp.spec]/6).  Usage:
//   VERIF_ACCESS_MEMBER(KadBuckets, ephemeralnet::KademliaTable, buckets_, std::array<std::deque<ephemeralnet::PeerContact>, 256>)
//   auto& b = verif_access(table, KadBuckets{});
#pragma once

// (global namespace on purpose: the friend defined here must be the same function the tag declares)
template <typename Tag, typename Tag::type M>
struct VerifAccessRob {
    friend typename Tag::type verif_get(Tag) { return M; }
};

#define VERIF_ACCESS_MEMBER(TagName, Class, member, ...)                                  \
    struct TagName {                                                                       \
        using type = __VA_ARGS__ Class::*;                                                 \
        friend type verif_get(TagName);                                                    \
    };                                                                                     \
    template struct VerifAccessRob<TagName, &Class::member>;                     \
    inline __VA_ARGS__& verif_access(Class& obj, TagName) { return obj.*verif_get(TagName{}); } \
    inline const __VA_ARGS__& verif_access(const Class& obj, TagName) { return obj.*verif_get(TagName{}); }
