// C08 — SHA-256 and HMAC-SHA256 match the standards (oracle: OpenSSL libcrypto)
#define VERIF_FUZZ_TARGET 1
#include "verif.hpp"
#include "refs.hpp"

#include "ephemeralnet/crypto/HmacSha256.hpp"
#include "ephemeralnet/crypto/Sha256.hpp"

namespace verif {
const PropertyInfo kInfo = {
    "C08", 12, 4, 24,
    "tape -> (message length from boundary table {0,1,55..57,63..65,119,120,127..129,1023..1025,65536} or uniform <= 8192; "
    "message bytes expanded from a seed; one record per incremental update call: empty / 1 byte / up to the next 64-byte edge / 0..129 bytes; "
    "key length from {0,1,31,32,63,64,65,128,200} or uniform <= 300; candidate tag: correct, single-bit flip at any of 256 positions, "
    "truncated 0..31, extended 33..64, empty, random, two bytes changed so that the differences cancel: same bit / top bit in two bytes, two bytes swapped, +d and -d). Oracle: OpenSSL EVP SHA-256 / HMAC; verify() true iff tag is the 32-byte OpenSSL MAC. "
    "Non-trivial: length mod 64 in {55..63,0}, or >= 2 update calls, or key longer than 64 bytes. Distinct = hash of the decoded case."};

namespace {
const std::int64_t kLenTable[] = {0, 1, 55, 56, 57, 63, 64, 65, 119, 120, 127, 128, 129, 1023, 1024, 1025, 65536};
const std::int64_t kKeyTable[] = {0, 1, 31, 32, 63, 64, 65, 128, 200};
}

void run_case(Ctx& c) {
    using ephemeralnet::crypto::HmacSha256;
    using ephemeralnet::crypto::Sha256;
    const Tape& t = c.tape;
    std::size_t len = static_cast<std::size_t>(boundary_int(t.h(0), t.h16(1), kLenTable, 0, 8192 + 0));
    if ((t.h(0) & 0x80) && kLenTable[(t.h(0) & 0x7F) % 17] == 65536) len = 65536;
    std::size_t klen = static_cast<std::size_t>(boundary_int(t.h(3), t.h16(4), kKeyTable, 0, 300));
    Prng prng(t.h32(8) ^ 0xC08);
    auto msg = prng.bytes(len);
    auto key = prng.bytes(klen);
    c.note("len=%zu klen=%zu seed=%08x", len, klen, t.h32(8));

    // --- SHA-256 over a random partition into update calls
    Sha256 h;
    std::size_t pos = 0, updates = 0;
    std::string parts;
    for (std::size_t i = 0; i < t.nrec() && pos < len; ++i) {
        Rec r = t.r(i);
        std::size_t n = 0;
        switch (r.op() & 3) {
            case 0: n = r.a16(0) % 130; break;
            case 1: n = 0; break;
            case 2: n = 1; break;
            case 3: n = 64 - (pos % 64); break;
        }
        n = std::min(n, len - pos);
        h.update(std::span<const std::uint8_t>(msg.data() + pos, n));
        pos += n;
        ++updates;
        if (parts.size() < 200) parts += std::to_string(n) + ",";
    }
    if (pos < len || updates == 0) {
        h.update(std::span<const std::uint8_t>(msg.data() + pos, len - pos));
        ++updates;
        parts += std::to_string(len - pos);
    }
    c.note("updates=[%s]", parts.c_str());
    auto got = h.finalize();
    auto want = refs::sha256(msg);
    if (got != want) c.fail("C08:sha256-incremental-mismatch", "incremental digest " + hex(got, 32) + " != OpenSSL " + hex(want, 32));
    auto one = Sha256::digest(msg);
    if (one != want) c.fail("C08:sha256-oneshot-mismatch", "digest() " + hex(one, 32) + " != OpenSSL " + hex(want, 32));

    // --- HMAC
    auto mac = HmacSha256::compute(key, msg);
    auto rmac = refs::hmac_sha256(key, msg);
    if (mac != rmac) c.fail("C08:hmac-mismatch", "HMAC " + hex(mac, 32) + " != OpenSSL " + hex(rmac, 32));

    // --- verify accepts exactly the 32-byte correct tag
    std::vector<std::uint8_t> tag(rmac.begin(), rmac.end());
    unsigned kind = t.h(6) % 10;
    unsigned arg = t.h(7);
    switch (kind) {
        // tags whose byte-wise differences cancel in an aggregating comparison (sum, xor, signed sum of the differences)
        case 6: { unsigned i = (arg / 8) % 32, j = (i + 1 + (arg % 31)) % 32; std::uint8_t bit = static_cast<std::uint8_t>(1u << (arg % 8)); tag[i] ^= bit; tag[j] ^= bit; break; }
        case 7: { unsigned i = arg % 32, j = (i + 1 + (arg / 32) % 31) % 32; tag[i] ^= 0x80; tag[j] ^= 0x80; break; }
        case 8: { unsigned i = arg % 32, j = (i + 1 + (arg / 32) % 31) % 32; if (tag[i] == tag[j]) tag[i] ^= 1; else std::swap(tag[i], tag[j]); break; }
        case 9: { std::uint8_t d = static_cast<std::uint8_t>(1 + arg % 255); unsigned i = arg % 32, j = (i + 7) % 32; tag[i] = static_cast<std::uint8_t>(tag[i] + d); tag[j] = static_cast<std::uint8_t>(tag[j] - d); break; }
        case 0: break;
        case 1: tag[(arg / 8) % 32] ^= static_cast<std::uint8_t>(1u << (arg % 8)); break;
        case 2: tag.resize(arg % 32); break;
        case 3: { std::size_t n = 33 + arg % 32; while (tag.size() < n) tag.push_back(prng.byte()); break; }
        case 4: tag.clear(); break;
        case 5: tag = prng.bytes(32); break;
    }
    c.note("tag=%u/%u", kind, arg);
    bool expect = tag.size() == 32 && std::equal(tag.begin(), tag.end(), rmac.begin());
    bool ok = HmacSha256::verify(key, msg, tag);
    if (ok != expect) c.fail(expect ? "C08:verify-rejects-correct-tag" : "C08:verify-accepts-wrong-tag",
                             "verify returned " + std::to_string(ok) + " for tag kind " + std::to_string(kind) + " len " + std::to_string(tag.size()));

    std::size_t m = len % 64;
    if (m >= 55 || m == 0) c.nt("len_mod64_55_to_64");
    if (updates >= 2) c.nt("multi_update");
    if (klen > 64) c.nt("key_gt_block");
    if (kind == 1) c.label("tag_bitflip");
}

std::string run_once(Ctx& c) {
    auto s = refs::self_check();
    if (!s.empty()) c.fail("C08:harness-error", "reference self-check failed: " + s);
    return "reference self-checks (FIPS 180-4 abc, RFC 4231 tc2, RFC 8439 2.3.2/2.4.2, GF inverse, Fermat) passed";
}
}  // namespace verif
