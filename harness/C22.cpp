// C22 — swarm plans hand every shard to exactly one eligible provider, evenly
// Oracle: a model of the routing table's live contents kept by the harness (id -> expiry, last registration wins) and the
// provider-count formula evaluated literally from the property statement; the plan is judged only through its public fields.
#define VERIF_FUZZ_TARGET 1
#include "verif.hpp"
#include "vclock.hpp"

#include "ephemeralnet/Config.hpp"
#include "ephemeralnet/Types.hpp"
#include "ephemeralnet/core/SwarmCoordinator.hpp"
#include "ephemeralnet/dht/KademliaTable.hpp"
#include "ephemeralnet/protocol/Manifest.hpp"

#include <algorithm>
#include <climits>
#include <map>

// ASan's default 256 MB quarantine makes every freed block come back as a fresh page (page faults dominate the run time:
// a KademliaTable alone is 512 small allocations); cases are short-lived, 16 MB still covers many whole cases.
// ASAN_OPTIONS from the environment still apply on top.
extern "C" const char* __asan_default_options() { return "quarantine_size_mb=16"; }

namespace verif {
const PropertyInfo kInfo = {
    "C22", 16, 8, 60,
    "tape -> (shard count from {0,1,2,3,19,20,21,39,40,41,255,256,300} or uniform 0..40, labels sequential / random with duplicates / "
    "all equal / descending; declared total_shares = shard count, or (1/4) an unrelated value from {0,1,s-1,s+1,2s+1,255,any,s/2}; threshold uniform 0..shards, arbitrary 0..255, or one of {0, shards, shards+1, 255}; target_replicas, "
    "min_providers, candidate_sample each uniform 0..20, skewed (0..5 for the first two, 12..20 for the sample) or one of {21,40,41,255,256,1000,65535}; identity seed optional; the table's own "
    "id equal to or different from the self_id passed to compute_plan; chunk id random / 1 bit from self / 1 bit from the table id / next "
    "to a registered peer; one record per routing-table operation (<= 64): register a new peer in a chosen k-bucket (at most 16 distinct "
    "ids per bucket, so the table never evicts) with expiry = registration time + {unset, -1 s, -1 ns, 0, +1 ns, 1 s, 10 s, 60 s, 899 s, "
    "900 s, 901 s, 1 h, 24 h, time_point::max, time_point::min} or + 1..64 min, add_contact with ttl in {-1,0,1,10,60,899,900,901,3600} s, "
    "refresh an earlier peer with a new expiry/address, register the peer whose id is self_id, or advance the virtual clock by {1 ns, "
    "1 s - 1 ns, 1 s, 10 s, 60 s, 900 s}; optionally the clock is finally set to one of the three earliest future expiries -1/0/+1 ns; load snapshot "
    "entries (uploads, downloads, roles, reputation incl. INT_MIN/INT_MAX, choked, huge counters) for peers, self and unknown ids). "
    "compute_plan is called twice on the same coordinator. Oracle (model): live = registered ids whose latest expiry is > now; "
    "candidates c = the max(sample,1) XOR-closest live ids to the chunk id, minus self_id; s = shards; expected providers P = "
    "min(c, s, max(target, min(max(min_providers, threshold), c, s))). Plan must have exactly P assignments; their peers pairwise "
    "distinct, live, != self_id; every assignment >= 1 shard; multiset of assigned labels == multiset of manifest labels; shard counts "
    "differ by <= 1 (P = 0: no assignment at all). Non-trivial: c >= 2, s >= 2 and c, s, max(target, min(max(min_providers, threshold), "
    "c, s)) pairwise different. Distinct = hash of the decoded case."};

namespace {
using namespace ephemeralnet;
using TP = std::chrono::steady_clock::time_point;
using std::chrono::nanoseconds;
using std::chrono::seconds;

struct ModelPeer {
    PeerId id{};
    TP expires{};
    std::string address;
    unsigned bucket = 0;
};

unsigned leading_zero_bits(const PeerId& a, const PeerId& b) {
    unsigned lz = 0;
    for (std::size_t i = 0; i < a.size(); ++i) {
        std::uint8_t d = static_cast<std::uint8_t>(a[i] ^ b[i]);
        if (d == 0) { lz += 8; continue; }
        for (int bit = 7; bit >= 0; --bit) { if (d & (1u << bit)) return lz; ++lz; }
    }
    return lz;  // 256: equal
}

PeerId random_id(Prng& p) {
    PeerId id{};
    p.fill(id.data(), id.size());
    return id;
}

// id whose highest differing bit from base is bit (255 - lz), lower bits random
PeerId id_in_bucket(const PeerId& base, unsigned bucket, Prng& p) {
    unsigned lz = 255 - bucket;
    PeerId delta{};
    p.fill(delta.data(), delta.size());
    for (unsigned i = 0; i < lz / 8; ++i) delta[i] = 0;
    unsigned byte = lz / 8, bit = 7 - lz % 8;
    delta[byte] = static_cast<std::uint8_t>((delta[byte] & ((1u << bit) - 1)) | (1u << bit));
    PeerId id{};
    for (std::size_t i = 0; i < id.size(); ++i) id[i] = static_cast<std::uint8_t>(base[i] ^ delta[i]);
    return id;
}

std::string short_id(const PeerId& id) { return hex(id.data(), 3, 3); }

// 0..20 uniform, or skewed (small for the replica/provider knobs, large for the sample) so that each of the three bounds binds often
std::uint16_t cfg_value(std::uint8_t b, bool want_large) {
    static const std::uint16_t special[] = {21, 40, 41, 255, 256, 1000, 65535};
    if (b >= 238) return special[b % 7];
    if (b & 1) return static_cast<std::uint16_t>((b >> 1) % 21);
    return static_cast<std::uint16_t>(want_large ? 12 + (b >> 1) % 9 : (b >> 1) % 6);
}

const std::int64_t kShardTable[] = {0, 1, 2, 3, 19, 20, 21, 39, 40, 41, 255, 256, 300};
const std::int64_t kTtlTable[] = {-1, 0, 1, 10, 60, 899, 900, 901, 3600};
const std::int64_t kAdvanceNs[] = {1, 999'999'999, 1'000'000'000, 10'000'000'000LL, 60'000'000'000LL, 900'000'000'000LL, 1};

// expiry for register_peer relative to the registration instant; `unset` = default time_point (the table then uses "now")
TP expiry_from(std::uint8_t sel, TP now, bool& unset, std::string& txt) {
    unset = false;
    if ((sel & 0xC0) == 0xC0) {
        switch ((sel & 0x3F) % 15) {
            case 0: unset = true; txt = "unset"; return now;
            case 1: txt = "-1s"; return now - seconds(1);
            case 2: txt = "-1ns"; return now - nanoseconds(1);
            case 3: txt = "+0"; return now;
            case 4: txt = "+1ns"; return now + nanoseconds(1);
            case 5: txt = "+1s"; return now + seconds(1);
            case 6: txt = "+10s"; return now + seconds(10);
            case 7: txt = "+60s"; return now + seconds(60);
            case 8: txt = "+899s"; return now + seconds(899);
            case 9: txt = "+900s"; return now + seconds(900);
            case 10: txt = "+901s"; return now + seconds(901);
            case 11: txt = "+1h"; return now + seconds(3600);
            case 12: txt = "+24h"; return now + seconds(86400);
            case 13: txt = "max"; return TP::max();
            default: txt = "min"; return TP::min();
        }
    }
    txt = "+" + std::to_string(1 + sel % 64) + "min";
    return now + seconds(60 * (1 + sel % 64));
}

SwarmPeerLoad load_from(const Rec& r) {
    SwarmPeerLoad l{};
    std::uint8_t f = r.a(3), v = r.a(4);
    bool huge = (f & 8) != 0;
    auto num = [&](unsigned x) -> std::size_t { return huge ? (static_cast<std::size_t>(-1) >> (x % 8)) : x; };
    l.active_uploads = num(v & 7);
    l.pending_uploads = num((v >> 3) & 3);
    l.active_downloads = num((v >> 5) & 3);
    l.pending_downloads = num(v >> 7);
    l.seed_roles = num((f >> 4) & 3);
    l.leecher_roles = num((f >> 6) & 3);
    l.has_reputation = (f & 2) != 0;
    static const int reps[] = {0, 1, -1, 100, -100, INT_MAX, INT_MIN, 1000000};
    l.reputation = (r.a(5) & 0x80) ? reps[r.a(5) % 8] : static_cast<int>(r.a(5)) - 64;
    l.is_choked = (f & 4) != 0;
    return l;
}

bool xor_less(const PeerId& a, const PeerId& b, const ChunkId& target) {
    for (std::size_t i = 0; i < a.size(); ++i) {
        std::uint8_t da = static_cast<std::uint8_t>(a[i] ^ target[i]), db = static_cast<std::uint8_t>(b[i] ^ target[i]);
        if (da != db) return da < db;
    }
    return false;
}
}  // namespace

void run_case(Ctx& c) {
    const Tape& t = c.tape;
    vclock::Frozen frozen(t.header_seed());
    Prng prng(t.h32(8) ^ 0xC22);

    // ---- configuration
    Config cfg{};
    cfg.swarm_target_replicas = cfg_value(t.h(4), false);
    cfg.swarm_min_providers = cfg_value(t.h(5), false);
    cfg.swarm_candidate_sample = cfg_value(t.h(6), true);
    if (t.h(14) & 1) cfg.identity_seed = t.h32(8);

    // ---- ids
    PeerId self = random_id(prng);
    PeerId tself = (t.h(12) & 1) ? random_id(prng) : self;
    const bool self_registrable = tself != self;

    // ---- manifest
    std::size_t s = (t.h(0) & 0x80) ? static_cast<std::size_t>(kShardTable[(t.h(0) & 0x7F) % 13]) : t.h(1) % 41;
    unsigned thr;
    switch (t.h(2) & 3) {
        case 0: case 1: thr = static_cast<unsigned>(t.h(3) % (std::min<std::size_t>(s, 255) + 1)); break;
        case 2: thr = t.h(3); break;
        default: { const unsigned opts[] = {0, static_cast<unsigned>(std::min<std::size_t>(s, 255)), static_cast<unsigned>(std::min<std::size_t>(s + 1, 255)), 255}; thr = opts[t.h(3) % 4]; }
    }
    protocol::Manifest manifest{};
    manifest.threshold = static_cast<std::uint8_t>(thr);
    manifest.total_shares = static_cast<std::uint8_t>(std::min<std::size_t>(s, 255));
    // the declared share total is an independent field: a manifest may carry only part of the shares it declares (or
    // declare fewer than it carries); the plan is about the shards the manifest carries
    if ((t.h(14) & 6) == 6) {
        const unsigned alt[] = {0u, 1u, static_cast<unsigned>(s > 0 ? s - 1 : 0), static_cast<unsigned>(std::min<std::size_t>(s + 1, 255)),
                                static_cast<unsigned>(std::min<std::size_t>(2 * s + 1, 255)), 255u, static_cast<unsigned>(t.h(15)), static_cast<unsigned>(s / 2)};
        manifest.total_shares = static_cast<std::uint8_t>(alt[(t.h(14) >> 3) % 8]);
        if (manifest.total_shares != std::min<std::size_t>(s, 255)) c.label("declared_total_differs_from_carried_shards");
    }
    manifest.shards.resize(s);
    std::map<unsigned, int> want_labels;
    bool dup_labels = false;
    for (std::size_t i = 0; i < s; ++i) {
        std::uint8_t label;
        switch (t.h(13) & 3) {
            case 0: label = static_cast<std::uint8_t>(i + 1); break;
            case 1: label = static_cast<std::uint8_t>(prng.below(s < 8 ? 4 : 256)); break;
            case 2: label = t.h(13); break;
            default: label = static_cast<std::uint8_t>(s - i); break;
        }
        manifest.shards[i].index = label;
        prng.fill(manifest.shards[i].value.data(), 32);
        if (++want_labels[label] > 1) dup_labels = true;
    }
    c.note("shards=%zu total=%u labels=%u thr=%u target=%u minp=%u sample=%u tself%sself", s, static_cast<unsigned>(manifest.total_shares), t.h(13) & 3, thr, static_cast<unsigned>(cfg.swarm_target_replicas),
           static_cast<unsigned>(cfg.swarm_min_providers), static_cast<unsigned>(cfg.swarm_candidate_sample), self_registrable ? "!=" : "==");

    // ---- routing table history
    KademliaTable table(tself, cfg);
    std::vector<ModelPeer> peers;  // model: one entry per distinct id, latest registration wins
    std::map<unsigned, unsigned> bucket_ids;
    SwarmPeerLoadMap loads;
    ChunkId scratch_chunk{};
    scratch_chunk.fill(0x5C);

    auto find_peer = [&](const PeerId& id) -> ModelPeer* {
        for (auto& p : peers) if (p.id == id) return &p;
        return nullptr;
    };
    bool any_refresh = false, self_registered = false;
    std::size_t nrec = std::min<std::size_t>(t.nrec(), 64);
    for (std::size_t i = 0; i < nrec; ++i) {
        Rec r = t.r(i);
        unsigned op = r.op() % 8;
        TP now = std::chrono::steady_clock::now();
        if (op == 7) {
            std::int64_t d = kAdvanceNs[r.a(0) % 7];
            vclock::advance(nanoseconds(d));
            c.note("adv%lldns", static_cast<long long>(d));
            continue;
        }
        PeerId id{};
        bool is_refresh = false;
        if (op == 5 && !peers.empty()) {
            id = peers[r.a(1) % peers.size()].id;
            is_refresh = any_refresh = true;
        } else if (op == 6 && self_registrable) {
            id = self;
        } else {
            unsigned b = (r.a(0) & 0x80) ? (r.a(0) & 0x7F) * 2 + (r.a(1) & 1) : 255 - (r.a(0) & 0x0F);
            Prng ip(r.seed() ^ (i << 32));
            for (unsigned tries = 0; tries < 256 && bucket_ids[b] >= 16; ++tries) b = (b + 255) % 256;  // keep <= 16 distinct ids per bucket
            id = id_in_bucket(tself, b, ip);
        }
        ModelPeer* mp = find_peer(id);
        unsigned bucket = 255 - leading_zero_bits(id, tself);
        if (!mp) {
            if (bucket_ids[bucket] >= 16) {  // only reachable for the self id landing in a full bucket
                c.note("skip-full-bucket");
                continue;
            }
            bucket_ids[bucket]++;
            peers.push_back(ModelPeer{id, TP{}, "", bucket});
            mp = &peers.back();
        }
        if (id == self) self_registered = true;

        PeerContact contact{};
        contact.id = id;
        contact.address = "10." + std::to_string(r.a(6) % 4) + ".0." + std::to_string(r.a(6) / 4) + ":4" + std::to_string(r.a(6) % 10);
        std::string etxt;
        if (op == 4) {
            std::int64_t ttl = kTtlTable[r.a(2) % 9];
            table.add_contact(scratch_chunk, contact, seconds(ttl));
            mp->expires = now + seconds(ttl);
            etxt = "ttl" + std::to_string(ttl);
        } else {
            bool unset = false;
            TP e = expiry_from(r.a(2), now, unset, etxt);
            contact.expires_at = unset ? TP{} : e;
            table.register_peer(contact);
            mp->expires = e;
        }
        mp->address = contact.address;
        if (r.a(3) & 1) loads[peer_id_to_string(id)] = load_from(r);
        else if ((r.a(3) & 0x30) == 0x30) loads[peer_id_to_string(random_id(prng))] = load_from(r);  // entry for an unknown id
        c.note("%s%s@b%u:%s%s", is_refresh ? "re" : (id == self ? "SELF" : "p"), short_id(id).c_str(), bucket, etxt.c_str(), (r.a(3) & 1) ? "+L" : "");
    }

    // ---- final clock placement: exactly at / 1 ns around a chosen peer's expiry
    bool exact_edge = false;
    if ((t.h(15) & 7) >= 1 && (t.h(15) & 7) <= 3 && !peers.empty()) {
        // one of the three earliest expiries still in the future, so that only few other peers lapse with it
        TP now = std::chrono::steady_clock::now();
        std::vector<const ModelPeer*> future;
        for (auto& p : peers) if (p.expires > now && p.expires != TP::max() && p.expires - now < std::chrono::hours(24 * 365)) future.push_back(&p);
        std::sort(future.begin(), future.end(), [](const ModelPeer* a, const ModelPeer* b) { return a->expires < b->expires; });
        if (!future.empty()) {
            const ModelPeer& k = *future[(t.h(15) >> 3) % std::min<std::size_t>(future.size(), 3)];
            int off = static_cast<int>(t.h(15) & 7) - 2;  // -1, 0, +1 ns
            TP want = k.expires + nanoseconds(off);
            vclock::advance(std::chrono::duration_cast<nanoseconds>(want - now));
            exact_edge = true;
            c.note("clock=exp(%s)%+dns", short_id(k.id).c_str(), off);
        }
    }

    // ---- chunk id
    ChunkId chunk{};
    switch (t.h(7) % 4) {
        case 0: { PeerId x = random_id(prng); std::copy(x.begin(), x.end(), chunk.begin()); break; }
        case 1: std::copy(self.begin(), self.end(), chunk.begin()); chunk[31] ^= 1; break;
        case 2: std::copy(tself.begin(), tself.end(), chunk.begin()); chunk[31] ^= 2; break;
        default:
            if (!peers.empty()) { const PeerId& x = peers[(t.h(7) / 4) % peers.size()].id; std::copy(x.begin(), x.end(), chunk.begin()); chunk[31] ^= 4; }
            break;
    }
    manifest.chunk_id = chunk;
    if (t.h(14) & 2) manifest.chunk_id[0] ^= 0xFF;  // the manifest's own id need not be the planning key
    c.note("chunk=%u/%s", t.h(7) % 4, hex(chunk.data(), 3, 3).c_str());

    // ---- model: candidates and expected provider count
    const TP now = std::chrono::steady_clock::now();
    std::vector<const ModelPeer*> live;
    std::size_t expired_n = 0, at_edge = 0;
    for (auto& p : peers) {
        if (p.expires > now) live.push_back(&p); else ++expired_n;
        if (p.expires == now || p.expires == now + nanoseconds(1)) ++at_edge;
    }
    std::sort(live.begin(), live.end(), [&](const ModelPeer* a, const ModelPeer* b) { return xor_less(a->id, b->id, chunk); });
    const std::size_t limit = std::max<std::size_t>(cfg.swarm_candidate_sample, 1);
    const std::size_t taken = std::min(limit, live.size());
    std::size_t cand = 0;
    bool self_in_sample = false;
    for (std::size_t i = 0; i < taken; ++i) { if (live[i]->id == self) self_in_sample = true; else ++cand; }
    const std::size_t target = cfg.swarm_target_replicas, minp = cfg.swarm_min_providers;
    const std::size_t inner = std::min({std::max<std::size_t>(minp, thr), cand, s});
    const std::size_t desired = std::max(target, inner);
    const std::size_t P = std::min({cand, s, desired});
    c.note("=> live=%zu expired=%zu c=%zu P=%zu", live.size(), expired_n, cand, P);

    // ---- the code under test, twice on the same coordinator (its jitter RNG advances)
    SwarmCoordinator coordinator(cfg);
    for (int round = 0; round < 2; ++round) {
        const SwarmDistributionPlan plan = coordinator.compute_plan(chunk, manifest, table, self, loads);
        const std::string rd = round ? " (second plan)" : "";
        if (plan.assignments.size() != P)
            c.fail("C22:provider-count", "plan has " + std::to_string(plan.assignments.size()) + " providers, expected min(c=" + std::to_string(cand) +
                                             ", s=" + std::to_string(s) + ", max(target=" + std::to_string(target) + ", min(max(minp=" + std::to_string(minp) +
                                             ", thr=" + std::to_string(thr) + "), c, s))) = " + std::to_string(P) + rd);
        std::map<unsigned, int> got_labels;
        std::size_t lo = static_cast<std::size_t>(-1), hi = 0, total = 0;
        for (std::size_t i = 0; i < plan.assignments.size(); ++i) {
            const auto& a = plan.assignments[i];
            if (a.peer.id == self) c.fail("C22:provider-is-self", "assignment #" + std::to_string(i) + " is the planning node itself" + rd);
            const ModelPeer* mp = nullptr;
            for (auto& p : peers) if (p.id == a.peer.id) mp = &p;
            if (!mp) c.fail("C22:provider-not-live", "assignment #" + std::to_string(i) + " peer " + short_id(a.peer.id) + " was never registered" + rd);
            if (!(mp->expires > now)) c.fail("C22:provider-not-live", "assignment #" + std::to_string(i) + " peer " + short_id(a.peer.id) + " expired " +
                                                 (mp->expires == TP::min() ? std::string("long") : std::to_string((now - mp->expires).count()) + " ns") + " ago" + rd);
            for (std::size_t j = 0; j < i; ++j)
                if (plan.assignments[j].peer.id == a.peer.id) c.fail("C22:duplicate-provider", "peer " + short_id(a.peer.id) + " appears in assignments #" + std::to_string(j) + " and #" + std::to_string(i) + rd);
            if (a.shard_indices.empty()) c.fail("C22:provider-without-shard", "assignment #" + std::to_string(i) + " has no shard" + rd);
            lo = std::min(lo, a.shard_indices.size());
            hi = std::max(hi, a.shard_indices.size());
            total += a.shard_indices.size();
            for (auto l : a.shard_indices) got_labels[l]++;
        }
        if (P > 0) {
            if (got_labels != want_labels) {
                std::string why;
                for (auto& [l, n] : want_labels) { int g = got_labels.count(l) ? got_labels[l] : 0; if (g != n) { why = "label " + std::to_string(l) + " assigned " + std::to_string(g) + "x, manifest has it " + std::to_string(n) + "x"; break; } }
                if (why.empty()) for (auto& [l, n] : got_labels) if (!want_labels.count(l)) { why = "label " + std::to_string(l) + " assigned " + std::to_string(n) + "x but is not in the manifest"; break; }
                c.fail("C22:shard-assignment-mismatch", std::to_string(total) + " shard slots assigned for " + std::to_string(s) + " manifest shards; " + why + rd);
            }
            if (hi - lo > 1) c.fail("C22:uneven", "shard counts range from " + std::to_string(lo) + " to " + std::to_string(hi) + rd);
        }
    }

    // ---- classification
    if (cand >= 2 && s >= 2 && cand != s && cand != desired && s != desired) c.nt("c_s_desired_pairwise_different");
    if (P == 0) c.label("P=0");
    else if (P == cand && P != s && P != desired) c.label("bound=candidates");
    else if (P == s && P != cand && P != desired) c.label("bound=shards");
    else if (P == desired && P != cand && P != s) c.label(desired == target ? "bound=target_replicas" : (thr > minp ? "bound=threshold" : "bound=min_providers"));
    else c.label("bound=tie");
    if (std::max<std::size_t>(minp, thr) > target && inner > target) c.label(thr > minp ? "threshold_raises_above_target" : "min_providers_raises_above_target");
    if (self_registered) c.label("self_in_table");
    if (self_in_sample) c.label("self_among_sampled_closest");
    if (expired_n) c.label("expired_peers_in_table");
    if (at_edge) c.label("peer_expiring_exactly_now_or_+1ns");
    if (exact_edge) c.label("clock_set_to_expiry_edge");
    if (live.size() > limit) c.label("sample_truncates_live_set");
    if (any_refresh) c.label("refreshed_peer");
    if (dup_labels) c.label("duplicate_shard_labels");
    if (!loads.empty()) c.label("load_snapshot_nonempty");
    if (s > 0 && P > 0 && s % P != 0) c.label("uneven_division");
}

std::vector<std::vector<std::uint8_t>> seed_tapes() {
    std::vector<std::vector<std::uint8_t>> v;
    // tests/swarm_distribution.cpp shape: 4 shards, threshold 2, target 3, min 2, sample 6, five live peers
    std::vector<std::uint8_t> a = {0, 4, 0, 2, 3, 2, 6, 0, 1, 2, 3, 4, 0, 0, 1, 0};
    for (std::uint8_t i = 0; i < 5; ++i) { std::uint8_t rec[8] = {0, i, static_cast<std::uint8_t>(i * 7), 0x80 | 12, 0, 0, 0, i}; a.insert(a.end(), rec, rec + 8); }
    v.push_back(a);
    // self registered and closest, sample 2, expiries around now
    std::vector<std::uint8_t> b = {0, 9, 2, 7, 1, 5, 2, 1, 9, 9, 9, 9, 1, 1, 0, 5};
    const std::uint8_t recs[][8] = {{6, 0, 0, 0x80 | 5, 1, 3, 0x85, 1}, {0, 1, 1, 0x80 | 4, 3, 9, 0x10, 2}, {0, 2, 2, 0x80 | 3, 0, 0, 0, 3}, {7, 0, 0, 0, 0, 0, 0, 0},
                                    {4, 3, 3, 2, 7, 0x41, 0x90, 4}, {5, 0, 1, 0x80 | 11, 0, 0, 0, 5}};
    for (auto& r : recs) b.insert(b.end(), r, r + 8);
    v.push_back(b);
    return v;
}
}  // namespace verif
