// In-process daemon::ControlServer on a loopback port + a raw TCP client written in the harness (C02, C27-C29, C35c).
#pragma once
#include "ephemeralnet/daemon/ControlPlane.hpp"

#include <arpa/inet.h>
#include <atomic>
#include <map>
#include <mutex>
#include <netinet/in.h>
#include <netinet/tcp.h>
#include <poll.h>
#include <string>
#include <sys/socket.h>
#include <unistd.h>
#include <vector>

namespace vctl {
using namespace ephemeralnet;

struct Request {
    std::string command;                                            // "" = no COMMAND header
    std::vector<std::pair<std::string, std::string>> headers;        // sent in this order, after COMMAND unless command_last
    std::vector<std::uint8_t> payload;
    bool with_payload_length = true;                                // send PAYLOAD-LENGTH (of payload.size() unless overridden)
    std::string payload_length_override;                            // literal value for PAYLOAD-LENGTH
    bool send_body = true;
    bool command_last = false;
    std::string command_header_name = "COMMAND";
    std::string raw;                                                // if non-empty: these exact bytes are the request
    bool half_close_after_send = false;
};

struct Response {
    bool ok = false;            // a response was received (any status)
    std::string raw;            // all bytes
    std::string head;           // bytes before the blank line
    std::vector<std::uint8_t> payload;
    std::vector<std::pair<std::string, std::string>> lines;  // KEY:VALUE lines in order (no multi-line folding)
    std::string field(const std::string& key) const {
        for (auto& kv : lines) if (kv.first == key) return kv.second;
        return "";
    }
    bool has(const std::string& key) const {
        for (auto& kv : lines) if (kv.first == key) return true;
        return false;
    }
};

inline std::uint16_t free_port() {
    int s = ::socket(AF_INET, SOCK_STREAM, 0);
    sockaddr_in a{};
    a.sin_family = AF_INET;
    a.sin_addr.s_addr = htonl(INADDR_LOOPBACK);
    a.sin_port = 0;
    ::bind(s, reinterpret_cast<sockaddr*>(&a), sizeof a);
    socklen_t l = sizeof a;
    ::getsockname(s, reinterpret_cast<sockaddr*>(&a), &l);
    ::close(s);
    return ntohs(a.sin_port);
}

class Server {
public:
    explicit Server(Node& node) : node_(node) {
        for (int attempt = 0; attempt < 20 && !ok_; ++attempt) {
            port_ = free_port();
            try {
                server_ = std::make_unique<daemon::ControlServer>(node_, mutex_, [this] { stop_calls_.fetch_add(1); });
                server_->start("127.0.0.1", port_);
                ok_ = server_->running();
            } catch (const std::exception&) {
                server_.reset();
            }
        }
    }
    ~Server() { stop(); }
    bool ok() const { return ok_; }
    std::uint16_t port() const { return port_; }
    int stop_calls() const { return stop_calls_.load(); }
    std::mutex& node_mutex() { return mutex_; }
    void stop() {
        if (server_) { server_->stop(); server_.reset(); }
    }

    static std::string build(const Request& q) {
        if (!q.raw.empty()) return q.raw;
        std::string s;
        auto cmd = [&] { if (!q.command.empty()) s += q.command_header_name + ":" + q.command + "\n"; };
        if (!q.command_last) cmd();
        for (auto& kv : q.headers) s += kv.first + ":" + kv.second + "\n";
        if (q.with_payload_length) s += "PAYLOAD-LENGTH:" + (q.payload_length_override.empty() ? std::to_string(q.payload.size()) : q.payload_length_override) + "\n";
        if (q.command_last) cmd();
        s += "\n";
        if (q.send_body) s.append(reinterpret_cast<const char*>(q.payload.data()), q.payload.size());
        return s;
    }

    // One connection, one request; reads until the server closes.  timeout_ms is real time (poll).
    Response roundtrip(const Request& q, int timeout_ms = 5000) {
        Response r;
        int fd = ::socket(AF_INET, SOCK_STREAM, 0);
        if (fd < 0) return r;
        sockaddr_in a{};
        a.sin_family = AF_INET;
        a.sin_addr.s_addr = htonl(INADDR_LOOPBACK);
        a.sin_port = htons(port_);
        if (::connect(fd, reinterpret_cast<sockaddr*>(&a), sizeof a) != 0) { ::close(fd); return r; }
        int one = 1;
        ::setsockopt(fd, IPPROTO_TCP, TCP_NODELAY, &one, sizeof one);
        std::string bytes = build(q);
        std::size_t off = 0;
        while (off < bytes.size()) {
            ssize_t w = ::send(fd, bytes.data() + off, bytes.size() - off, MSG_NOSIGNAL);
            if (w <= 0) break;
            off += static_cast<std::size_t>(w);
        }
        if (q.half_close_after_send) ::shutdown(fd, SHUT_WR);
        char buf[65536];
        for (;;) {
            pollfd p{fd, POLLIN, 0};
            int pr = ::poll(&p, 1, timeout_ms);
            if (pr <= 0) { timed_out_ = true; break; }
            ssize_t n = ::recv(fd, buf, sizeof buf, 0);
            if (n <= 0) break;
            r.raw.append(buf, static_cast<std::size_t>(n));
        }
        ::close(fd);
        if (r.raw.empty()) return r;
        r.ok = true;
        auto pos = r.raw.find("\n\n");
        r.head = pos == std::string::npos ? r.raw : r.raw.substr(0, pos);
        if (pos != std::string::npos) r.payload.assign(r.raw.begin() + static_cast<std::ptrdiff_t>(pos) + 2, r.raw.end());
        std::size_t start = 0;
        while (start <= r.head.size()) {
            auto nl = r.head.find('\n', start);
            std::string line = r.head.substr(start, nl == std::string::npos ? std::string::npos : nl - start);
            auto colon = line.find(':');
            if (colon != std::string::npos) r.lines.push_back({line.substr(0, colon), line.substr(colon + 1)});
            else if (!line.empty()) r.lines.push_back({"", line});
            if (nl == std::string::npos) break;
            start = nl + 1;
        }
        return r;
    }
    bool timed_out() const { return timed_out_; }

private:
    Node& node_;
    std::mutex mutex_;
    std::unique_ptr<daemon::ControlServer> server_;
    std::uint16_t port_ = 0;
    bool ok_ = false;
    bool timed_out_ = false;
    std::atomic<int> stop_calls_{0};
};
}  // namespace vctl
