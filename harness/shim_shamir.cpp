// See shim_shamir.hpp.  A string macro cannot be pasted into an #include, so the repository source is named
// relative to the -I$(REPO)/include directory the Makefile passes (it follows REPO=... overrides).
#include "../src/crypto/Shamir.cpp"

#include "shim_shamir.hpp"

namespace shim_shamir {
namespace {
const std::array<std::uint8_t, 512>& exp_table() {
    static const auto t = ephemeralnet::crypto::build_exp_table();
    return t;
}
const std::array<std::uint8_t, 256>& log_table() {
    static const auto t = ephemeralnet::crypto::build_log_table(exp_table());
    return t;
}
}  // namespace

std::uint8_t gf_add(std::uint8_t a, std::uint8_t b) { return ephemeralnet::crypto::gf_add(a, b); }
std::uint8_t gf_mul(std::uint8_t a, std::uint8_t b) { return ephemeralnet::crypto::gf_mul(a, b, exp_table(), log_table()); }
std::uint8_t gf_div(std::uint8_t a, std::uint8_t b) { return ephemeralnet::crypto::gf_div(a, b, exp_table(), log_table()); }
std::uint8_t eval_poly(std::uint8_t x, std::uint8_t constant, const std::vector<std::uint8_t>& coefficients) {
    return ephemeralnet::crypto::evaluate_polynomial(x, constant, coefficients, exp_table(), log_table());
}
}  // namespace shim_shamir
