#!/usr/bin/env python3-vt
# C26 (black-box part) — the real eph-relay-server process never dies and gives everything back once clients leave.
#
# The in-process harness (C26.cpp) steps the real RelayServer on the harness thread and reads its tables through guarded
# accessors.  This engine looks at the real *process* instead: Hypothesis generates sequences of client behaviours against
# one sanitizer-built `eph-relay-server` (REGISTER / CONNECT / identity / data / junk / very long lines, several clients,
# leaving by close or by TCP reset at any stage).  Oracle after every case, once every client has gone: the process is
# alive, its number of open descriptors (/proc/<pid>/fd) is back to the baseline, an id registered during the case can be
# registered again by a new client (the registration was released) and that client can be bridged, and the log shows no
# sanitizer report.
import os, shutil, socket, struct, subprocess, sys, tempfile, time

sys.path.insert(0, os.path.dirname(os.path.abspath(__file__)))
import cli_common as cc

PID = 'C26'
RELAY = os.path.join(cc.BUILD, 'bin', 'eph-relay-server')
RULE = ('Hypothesis case -> 1..12 steps against one real `eph-relay-server` (ASan/UBSan build), up to 6 clients. A step = a client (new or existing) + an action: progress towards a bridge (register an idle client / connect an idle client to a registered one / send the pending identity; 4 in 15), REGISTER one of 4 ids '
        '(canonical / upper-case / 63 hex / bad hex / CRLF), CONNECT self target (registered id / unknown / own id), 32 identity bytes (whole / partial), data (1..70000 bytes), junk lines '
        '(PONG, blank, unknown verbs), a line of 4096 / 65536 / 200000 bytes with or without newline, NUL bytes, half a command; or the client leaves: close, TCP reset (SO_LINGER 0), '
        'half-close. At the end every remaining client leaves (close or reset, generated). Oracle once all clients are gone (<= 20 s grace): the process has not exited, '
        'its open-descriptor count equals the count before the case, a CONNECT to any id used in the case is refused (no registration survives), then every such id can be REGISTERed by a fresh client (answer OK) and a fresh connector is bridged to it '
        '(OK, then BEGIN at the target), no sanitizer report in the log. Non-trivial: a client that left by reset or mid-command while registered, claimed or bridged. '
        'Distinct = hash of the rendered case.')

ACTIONS = ['PROGRESS', 'PROGRESS', 'PROGRESS', 'PROGRESS', 'REGISTER', 'CONNECT', 'IDENTITY', 'DATA', 'DATA', 'JUNK', 'LONGLINE', 'NULS', 'HALF', 'LEAVE', 'LEAVE']
R = {}


def start_relay():
    stop_relay()
    pa = cc.PortAlloc(30 + int(os.environ.get('VERIF_WORKER_SLOT', '0')))
    d = tempfile.mkdtemp(prefix='hC26_')
    port = pa.take()
    log = open(os.path.join(d, 'relay.log'), 'wb')
    proc = subprocess.Popen([RELAY, '--listen', '127.0.0.1:%d' % port], cwd=d, env=cc.cli_env(), stdin=subprocess.DEVNULL, stdout=log, stderr=subprocess.STDOUT)
    for _ in range(600):
        try:
            socket.create_connection(('127.0.0.1', port), timeout=0.2).close()
            break
        except OSError:
            if proc.poll() is not None:
                break
            time.sleep(0.02)
    R.update(proc=proc, dir=d, port=port, log=os.path.join(d, 'relay.log'))
    time.sleep(0.1)


def stop_relay():
    p = R.get('proc')
    if p is not None:
        if p.poll() is None:
            p.kill()
        p.wait()
    if R.get('dir'):
        shutil.rmtree(R['dir'], ignore_errors=True)
    R.clear()


def alive():
    return R.get('proc') is not None and R['proc'].poll() is None


def fd_count():
    try:
        return len(os.listdir('/proc/%d/fd' % R['proc'].pid))
    except OSError:
        return -1


def hex_id(i):
    return cc.expand(('relay-id', i), 32).hex()


class Client:
    def __init__(self):
        self.s = socket.create_connection(('127.0.0.1', R['port']), timeout=5)
        self.s.settimeout(0.3)
        self.self_hex = cc.expand(('self', id(self)), 32).hex()
        self.gone = False

    def send(self, data):
        if self.gone:
            return
        try:
            self.s.settimeout(3)
            self.s.sendall(data)
        except OSError:
            pass

    def read_some(self, wait=0.05):
        if self.gone:
            return b''
        self.s.settimeout(wait)
        buf = b''
        try:
            while True:
                b = self.s.recv(65536)
                if not b:
                    break
                buf += b
                if len(buf) > 1 << 20:
                    break
        except OSError:
            pass
        return buf

    def leave(self, style):
        if self.gone:
            return
        self.gone = True
        try:
            if style == 1:
                self.s.setsockopt(socket.SOL_SOCKET, socket.SO_LINGER, struct.pack('ii', 1, 0))
            elif style == 2:
                self.s.shutdown(socket.SHUT_WR)
                time.sleep(0.02)
        except OSError:
            pass
        self.s.close()


def read_line(sock, timeout=20.0):   # generous: a starved relay on a loaded machine is not a verdict
    sock.settimeout(timeout)
    buf = b''
    try:
        while not buf.endswith(b'\n') and len(buf) < 4096:
            b = sock.recv(1)
            if not b:
                break
            buf += b
    except OSError:
        pass
    return buf


def fail_dead(ctx, what):
    rc = R['proc'].returncode if R.get('proc') is not None else None
    tail = ''
    try:
        with open(R['log'], 'rb') as fh:
            tail = fh.read()[-3000:].decode('utf-8', 'replace')
    except OSError:
        pass
    rep = cc.sanitizer_report(tail)
    sig = 'C26:relay-sanitizer-report' if rep else ('C26:relay-killed-by-signal-%d' % -rc if rc is not None and rc < 0 else 'C26:relay-exited-%s' % rc)
    ctx.fail(sig, 'the relay process ended after %s; log tail: %s' % (what, (rep or tail[-400:]).replace('\n', ' | ')))


def case_fn(ctx, case):
    if not alive():
        start_relay()
    base_fds = fd_count()
    clients = []
    used_ids = set()
    risky = False
    for step in case['steps']:
        act, arg, who = step['act'], step['arg'], step['who']
        live = [c for c in clients if not c.gone]
        if who >= len(live) and len(clients) < 6:
            try:
                clients.append(Client())
            except OSError:
                if not alive():
                    fail_dead(ctx, 'a connection attempt')
                continue
            k = clients[-1]
        elif live:
            k = live[who % len(live)]
        else:
            continue
        if act == 'PROGRESS':
            # the next sensible step towards a bridge, judged from what the clients have done so far
            live = [c for c in clients if not c.gone]
            need_id = [c for c in live if getattr(c, 'connecting', False) and not getattr(c, 'identity_sent', False)]
            targets = [c for c in live if getattr(c, 'reg_id', None) is not None and not getattr(c, 'claimed', False)]
            idle = [c for c in live if not getattr(c, 'registered', False) and not getattr(c, 'connecting', False)]
            if need_id:
                k, act, arg = need_id[arg % len(need_id)], 'IDENTITY', 3 * (arg // 3) + 1
            elif targets and idle:
                k, act = idle[arg % len(idle)], 'CONNECT'
                tgt = targets[(arg >> 3) % len(targets)]
                tgt.claimed = True
                k.forced_target = hex_id(tgt.reg_id)
            elif idle:
                k, act, arg = idle[arg % len(idle)], 'REGISTER', 4 * (arg % 4) * 6 + (arg % 4)     # canonical form
            elif len(clients) < 6:
                try:
                    clients.append(Client())
                except OSError:
                    continue
                k, act, arg = clients[-1], 'REGISTER', arg % 4
            ctx.label('progress_step')
        idx = clients.index(k)
        ctx.note('|c%d:%s/%d' % (idx, act, arg % 97))
        ctx.label('act_' + act)
        if act == 'PROGRESS':
            pass
        elif act == 'REGISTER':
            i = arg % 4
            h = hex_id(i)
            form = (arg >> 2) % 6
            used_ids.add(i)
            line = {0: h, 1: h, 2: h.upper(), 3: h[:63], 4: 'g' + h[1:], 5: h}[form]
            k.send(('REGISTER %s%s' % (line, '\r\n' if form == 5 else '\n')).encode())
            k.registered = True
            if form in (0, 1, 5):
                k.reg_id = i
        elif act == 'CONNECT':
            i = arg % 4
            if used_ids and (arg >> 4) % 4:
                i = sorted(used_ids)[(arg >> 6) % len(used_ids)]
            target = [hex_id(i), hex_id(i), hex_id(i), hex_id(i), cc.expand(('nobody', arg), 32).hex(), k.self_hex][(arg >> 2) % 6]
            if getattr(k, 'forced_target', None):
                target, k.forced_target = k.forced_target, None
            k.send(('CONNECT %s %s\n' % (k.self_hex, target)).encode())
            k.connecting = True
        elif act == 'IDENTITY':
            ident = bytes.fromhex(k.self_hex)
            k.send(ident if arg % 3 else ident[:1 + arg % 31])
            if arg % 3:
                k.identity_sent = True
        elif act == 'DATA':
            k.send(cc.expand(('d', arg), [1, 31, 4096, 4097, 70000, 300][arg % 6]))
        elif act == 'JUNK':
            k.send([b'PONG\n', b'\n', b'\r\n', b'HELLO\n', b'REGISTER\n', b'CONNECT a\n', b'CONNECT a b c\n', b'PING\n', b'register x\n', b'    \n', b'\t\n', b' \t \r\n', b' PONG\n'][arg % 13])
        elif act == 'LONGLINE':
            n = [4096, 65536, 200000, 5000][arg % 4]
            k.send((b'REGISTER ' if arg & 4 else b'') + b'a' * n + (b'\n' if arg & 8 else b''))
        elif act == 'NULS':
            k.send(b'\0' * (1 + arg % 9) + (b'\n' if arg & 16 else b''))
        elif act == 'HALF':
            line = ('REGISTER %s\n' % hex_id(arg % 4)).encode()
            k.send(line[:1 + arg % (len(line) - 1)])
            used_ids.add(arg % 4)
            risky = True
        elif act == 'LEAVE':
            style = arg % 3
            if style == 1 or getattr(k, 'registered', False) or getattr(k, 'connecting', False):
                risky = True
            k.leave(style)
            ctx.label('leave_' + ['close', 'reset', 'half_close'][style])
        time.sleep(0.005)
        for o in clients:
            got = o.read_some(0.005)
            if b'BEGIN' in got:
                ctx.label('bridge_established')
            if got.startswith(b'OK') and getattr(o, 'connecting', False):
                ctx.label('connect_accepted')
        if not alive():
            fail_dead(ctx, 'step %s of client %d' % (act, idx))
    for n, k in enumerate(clients):
        if not k.gone:
            k.read_some(0.01)
            style = (case['final'] >> n) & 1
            if style == 1:
                risky = True
            k.leave(style)
    if risky:
        ctx.nt('client_left_by_reset_or_mid_command')
    # ---- everything must be given back
    deadline = time.monotonic() + 20.0
    fds = fd_count()
    while fds != base_fds and time.monotonic() < deadline and alive():
        time.sleep(0.02)
        fds = fd_count()
    if not alive():
        fail_dead(ctx, 'all clients had left')
    if fds > base_fds:
        ctx.fail('C26:descriptors-leaked', 'all %d clients have left, yet the relay holds %d open descriptors (%d before the case)' % (len(clients), fds, base_fds))
    for i in sorted(used_ids):
        try:
            # nobody is registered any more: a connector asking for the id must not be accepted
            z = socket.create_connection(('127.0.0.1', R['port']), timeout=5)
            z.sendall(('CONNECT %s %s\n' % (cc.expand(('ghost', i), 32).hex(), hex_id(i))).encode())
            a0 = read_line(z)
            z.close()
            if a0.strip() == b'OK':
                ctx.fail('C26:registrations-leaked', 'every client has left, yet a CONNECT to id #%d is still accepted (the registration of a client that is gone survives)' % i)
            t = socket.create_connection(('127.0.0.1', R['port']), timeout=5)
            t.sendall(('REGISTER %s\n' % hex_id(i)).encode())
            ans = read_line(t)
            if ans.strip() != b'OK':
                ctx.fail('C26:registrations-leaked', 'after every client left, a fresh client cannot register id #%d: the relay answered %r' % (i, ans[:80]))
            x = socket.create_connection(('127.0.0.1', R['port']), timeout=5)
            me = cc.expand(('probe', i), 32)
            x.sendall(('CONNECT %s %s\n' % (me.hex(), hex_id(i))).encode())
            a2 = read_line(x)
            if a2.strip() != b'OK':
                ctx.fail('C26:registrations-leaked', 'after every client left, a fresh connector to the freshly registered id #%d is refused: %r (a stale claim or session survives)' % (i, a2[:80]))
            x.sendall(me)
            b2 = read_line(t)
            if not b2.startswith(b'BEGIN'):
                ctx.fail('C26:registrations-leaked', 'fresh target for id #%d did not get BEGIN after a fresh connector sent its identity: %r' % (i, b2[:80]))
            x.close()
            t.close()
        except OSError as ex:
            if not alive():
                fail_dead(ctx, 'the release probe')
            ctx.fail('C26:relay-not-serving', 'probe for id #%d failed with %s' % (i, type(ex).__name__))
    deadline = time.monotonic() + 20.0
    while fd_count() != base_fds and time.monotonic() < deadline:
        time.sleep(0.02)
    if fd_count() > base_fds:
        ctx.fail('C26:descriptors-leaked', 'after the release probes left, the relay holds %d open descriptors (%d before the case)' % (fd_count(), base_fds))
    with open(R['log'], 'rb') as fh:
        fh.seek(max(0, os.path.getsize(R['log']) - 20000))
        rep = cc.sanitizer_report(fh.read().decode('utf-8', 'replace'))
    if rep:
        ctx.fail('C26:relay-sanitizer-report', rep.replace('\n', ' | '))


def make_strategy():
    from hypothesis import strategies as st
    step = st.fixed_dictionaries({'act': st.sampled_from(ACTIONS), 'arg': st.integers(0, 1 << 16), 'who': st.integers(0, 6)})
    return st.fixed_dictionaries({'steps': st.lists(step, min_size=1, max_size=12), 'final': st.integers(0, 63)})


def setup():
    pass


def teardown():
    stop_relay()


if __name__ == '__main__':
    if not os.path.exists(RELAY):
        print('BROKEN: %s missing' % RELAY, file=sys.stderr)
        sys.exit(3)
    sys.exit(cc.main_entry(PID, RULE, os.path.abspath(__file__), make_strategy, case_fn, lambda: [], setup, teardown, need_eph=False))
