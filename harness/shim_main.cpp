// Internals shim: src/main.cpp with its entry point renamed (the Makefile passes -Dmain=eph_cli_main), so that
// the helpers of its anonymous namespace can be exported as plain functions.
// path relative to the -I$(REPO)/include directory (follows REPO=... overrides)
#include "../src/main.cpp"

#include "shim_main.hpp"

namespace shim_main {

std::size_t cli_leading_zero_bits(const std::uint8_t* p, std::size_t n) {
    return ::count_leading_zero_bits(std::span<const std::uint8_t>(p, n));
}

Id cli_transport_handshake_digest(const Id& initiator, const Id& responder, std::uint32_t initiator_public, std::uint64_t nonce) {
    return ::transport_handshake_digest(initiator, responder, initiator_public, nonce);
}

bool cli_transport_pow_valid(const Id& initiator, const Id& responder, std::uint32_t initiator_public,
                             std::uint64_t nonce, std::uint8_t difficulty) {
    return ::transport_pow_valid(initiator, responder, initiator_public, nonce, difficulty);
}

std::optional<std::uint64_t> cli_compute_transport_pow(const Id& initiator, const Id& responder,
                                                       std::uint32_t initiator_public, std::uint8_t difficulty) {
    return ::compute_transport_pow(initiator, responder, initiator_public, difficulty);
}

std::optional<std::vector<std::uint8_t>> cli_decrypt_chunk_with_manifest(const ManifestKeyFields& m,
                                                                         const std::vector<std::uint8_t>& chunk_data) {
    ephemeralnet::protocol::Manifest manifest;
    manifest.chunk_id = m.chunk_id;
    manifest.chunk_hash = m.chunk_hash;
    manifest.nonce.bytes = m.nonce;
    manifest.threshold = m.threshold;
    manifest.total_shares = m.total_shares;
    for (const auto& [index, value] : m.shards) {
        ephemeralnet::protocol::KeyShard s;
        s.index = index;
        s.value = value;
        manifest.shards.push_back(s);
    }
    ephemeralnet::protocol::ChunkPayload payload;
    payload.chunk_id = m.chunk_id;
    payload.data = chunk_data;
    auto out = ::decrypt_chunk_with_manifest(manifest, payload);
    if (!out.has_value()) return std::nullopt;
    return std::vector<std::uint8_t>(out->begin(), out->end());
}

std::optional<std::vector<std::uint8_t>> cli_decrypt_chunk_with_manifest_uri(const std::string& manifest_uri,
                                                                             const std::vector<std::uint8_t>& chunk_data) {
    const auto manifest = ephemeralnet::protocol::decode_manifest(manifest_uri);
    ephemeralnet::protocol::ChunkPayload payload;
    payload.chunk_id = manifest.chunk_id;
    payload.data = chunk_data;
    auto out = ::decrypt_chunk_with_manifest(manifest, payload);
    if (!out.has_value()) return std::nullopt;
    return std::vector<std::uint8_t>(out->begin(), out->end());
}

int cli_main(const std::vector<std::string>& args) {
    std::vector<std::string> copy = args;
    std::vector<char*> argv;
    for (auto& a : copy) argv.push_back(a.data());
    argv.push_back(nullptr);
    return ::eph_cli_main(static_cast<int>(copy.size()), argv.data());
}
}  // namespace shim_main
