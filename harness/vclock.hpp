// Virtual clock + deterministic random_device by symbol interposition (DESIGN.md 2.2).
// The harness executable defines std::chrono::steady_clock::now, system_clock::now and
// std::random_device::_M_getval; libstdc++ is linked dynamically, so every caller in the
// process (including the repository objects) resolves to these definitions.
#pragma once
#include <chrono>
#include <cstdint>

namespace vclock {
using ns = std::chrono::nanoseconds;

// steady epoch offset / wall epoch used while frozen
constexpr std::int64_t kSteady0 = 1'000'000'000'000'000LL;        // ~11.6 days of "uptime"
constexpr std::int64_t kWall0 = 1'800'000'000'000'000'000LL;      // 2027-01-15 in ns since 1970

void freeze();                     // t := 0, frozen
void unfreeze();                   // back to the real clocks
bool frozen();
void advance(ns d);                // only the harness moves time
void set(ns t);
ns now_offset();                   // t
void set_thread_skew(ns steady_skew, ns wall_skew);  // per-thread skew (C39)

std::chrono::steady_clock::time_point steady_at(ns t);
std::chrono::system_clock::time_point wall_at(ns t);

// deterministic random_device stream (used only while rng_fixed)
void rng_seed(std::uint64_t seed);  // switches random_device to a deterministic stream
void rng_real();                    // back to /dev/urandom
// optional: a queue of values served before the stream (C10 enumerates coefficients with it)
void rng_push(std::uint32_t v);
void rng_clear_queue();
std::uint64_t rng_draws();
}  // namespace vclock

namespace vclock {
// RAII: frozen clock + deterministic random_device for the duration of one case.
struct Frozen {
    explicit Frozen(std::uint64_t rng = 1) { freeze(); rng_seed(rng); }
    ~Frozen() { unfreeze(); rng_real(); }
    Frozen(const Frozen&) = delete;
    Frozen& operator=(const Frozen&) = delete;
};
}  // namespace vclock
