// C15 — protocol messages round-trip through the wire codec
// Oracle: independent encoder/decoder written from the wire description (msg_gen.hpp) + the round trip.
#include "verif.hpp"
#include "refs.hpp"
#include "msg_gen.hpp"

#include "ephemeralnet/protocol/Message.hpp"

// ASan's default 256 MB free-quarantine makes every allocation touch fresh pages (measured 3x slower here);
// cases are short-lived, 16 MB still covers many whole cases.  ASAN_OPTIONS from the environment still apply on top.
extern "C" const char* __asan_default_options() { return "quarantine_size_mb=16"; }

namespace verif {
using namespace msggen;
namespace P = ephemeralnet::protocol;

const PropertyInfo kInfo = {
    "C15", 16, 8, 0,
    "16 tape bytes -> one message: type (announce x4, chunk x2, request/ack/handshake/hsack x1 of 10), version (3/4: 0..5, 1/4: any byte 0..255), "
    "ids expanded from a 32-bit seed, endpoint / manifest / chunk-data lengths from {0,1,2,15..17,63,64,255..257,1024,4096,65535,65536} or uniform <= 48, "
    "strings from 4 alphabets (printable, arbitrary bytes, all NUL, leading+embedded NUL/0xFF), shard list 0..300 (boundaries 254..256,300), "
    "TTL / public values from {0,1,2,60,3600,86400,2^31-1,2^31,2^31+1,2^32-2,2^32-1,...} or 32 random bits, nonces from {0,1,2^32-1,2^32,2^63-1,2^63,2^64-2,2^64-1,...} "
    "or 64 random bits, both booleans, version fields 0..255.  Oracle: decode(encode(m)) has a value and equals m with the version clamped to 1..4 "
    "(announce nonce compared iff clamped version >= 3); encode(m)[0] is the clamped version; encode(m) is byte-identical to the harness's independent encoder; "
    "the independent decoder reads m back from encode(m) and consumes all of it.  Non-trivial: announce with clamped version 3, or version outside 1..4, "
    "or a non-empty variable-length field.  Distinct = hash of the rendered message."};

namespace {
const char* kSigV3 = "C15:v3-announce-nonce-dropped";
}

void run_case(Ctx& c) {
    Cfg g = cfg_at(c.tape, 0);
    RMsg m = gen_message(g);
    // exclusion for the listed finding: version-3 announces are moved to version 2 or 4
    if (m.type == T_ANNOUNCE && clamp_version(m.version) == 3 && c.is_known(kSigV3)) {
        c.count_excluded(kSigV3);
        m.version = (g[2] & 1) ? 2 : 4;
    }
    const RMsg want = on_wire(m);
    c.note(describe(m));

    const bool variable = !m.endpoint.empty() || !m.manifest.empty() || !m.blob.empty();
    if (m.type == T_ANNOUNCE && want.version == 3) c.nt("announce_v3");
    if (m.version < 1 || m.version > 4) c.nt(m.version == 0 ? "version_0" : "version_gt_4");
    if (variable) c.nt("variable_field_nonempty");
    c.label(type_name(m.type));
    if (m.type == T_ANNOUNCE && want.version >= 3) c.label("announce_with_nonce");
    if (m.type == T_ANNOUNCE && want.version < 3) c.label("announce_without_nonce");
    if (m.endpoint.size() >= 65535 || m.manifest.size() >= 65535 || m.blob.size() >= 65535) c.label("field_64k");
    if ((m.type == T_ANNOUNCE || m.type == T_CHUNK) && m.ttl >= 0x80000000u) c.label("ttl_ge_2^31");
    if ((m.type == T_ANNOUNCE || m.type == T_HANDSHAKE) && m.nonce >= 0x8000000000000000ull) c.label("nonce_ge_2^63");
    if (m.type == T_ANNOUNCE && m.blob.size() > 255) c.label("shards_gt_255");
    for (auto* s : {&m.endpoint, &m.manifest})
        if (std::find(s->begin(), s->end(), std::uint8_t(0)) != s->end()) c.label("string_with_nul");

    const P::Message msg = to_repo(m);
    const std::vector<std::uint8_t> wire = P::encode(msg);
    const Bytes ref = ref_encode(m);

    const bool v3_shape = m.type == T_ANNOUNCE && want.version == 3 && wire.size() + 8 == ref.size() &&
                          std::equal(wire.begin(), wire.end(), ref.begin());

    if (wire.empty() || wire[0] != want.version)
        c.fail("C15:first-byte-not-clamped-version",
               "encode() wrote version byte " + (wire.empty() ? std::string("<none>") : std::to_string(wire[0])) + " for message.version " +
                   std::to_string(m.version) + " (nearest supported is " + std::to_string(want.version) + ")");

    // --- the round trip through the repository codec
    std::optional<P::Message> back;
    {
        ExactBuf eb(wire);
        back = P::decode(eb.span());
    }
    if (!back.has_value()) {
        if (v3_shape)
            c.fail(kSigV3, "decode(encode(m)) has no value for a version-3 announce: encode() wrote " + std::to_string(wire.size()) +
                               " bytes without the 8-byte work_nonce that decode() requires from version 3 onward");
        c.fail("C15:encoded-message-rejected", "decode(encode(m)) has no value; wire=" + hex(wire, 48));
    }
    if (auto d = diff(*back, want); !d.empty()) c.fail("C15:roundtrip-field-mismatch", "decode(encode(m)) differs from m: " + d);

    // --- byte-for-byte agreement with the independent encoder, and the independent decoder's view
    if (wire != ref) {
        std::size_t i = 0;
        while (i < wire.size() && i < ref.size() && wire[i] == ref[i]) ++i;
        c.fail(v3_shape ? kSigV3 : "C15:encoding-differs-from-reference",
               "encode(m) (" + std::to_string(wire.size()) + " B) differs from the independent encoder (" + std::to_string(ref.size()) +
                   " B) at offset " + std::to_string(i));
    }
    DecInfo di;
    auto rd = ref_decode(wire, di);
    if (!rd.has_value() || di.consumed != wire.size())
        c.fail("C15:harness-error", "independent decoder does not read back the independent encoding");
    if (auto d = diff(to_repo(*rd), want); !d.empty()) c.fail("C15:harness-error", "independent codec does not round-trip: " + d);
}

std::string run_once(Ctx& c) {
    auto s = refs::self_check();
    if (!s.empty()) c.fail("C15:harness-error", "reference self-check failed: " + s);
    // hand-written vectors for the independent encoder (written out from the wire description)
    RMsg h;
    h.type = T_HANDSHAKE;
    h.version = 9;
    h.pub = 0x01020304;
    h.nonce = 0x1122334455667788ull;
    h.ver_field = 3;
    const Bytes want = {4, 5, 1, 2, 3, 4, 0x11, 0x22, 0x33, 0x44, 0x55, 0x66, 0x77, 0x88, 3};
    if (ref_encode(h) != want) c.fail("C15:harness-error", "independent encoder: handshake vector mismatch");
    RMsg a;
    a.type = T_ANNOUNCE;
    a.version = 3;
    a.ttl = 0x0A0B0C0D;
    a.endpoint = {'e'};
    a.manifest = {'m', 'n'};
    a.blob = {7, 8, 9};
    a.nonce = 0xF1F2F3F4F5F6F7F8ull;
    Bytes aw = {3, 1, 0x0A, 0x0B, 0x0C, 0x0D, 0, 0, 0, 1, 0, 0, 0, 2, 0, 0, 0, 3};
    aw.insert(aw.end(), 64, 0);
    for (std::uint8_t b : {'e', 'm', 'n'}) aw.push_back(b);
    for (std::uint8_t b : {7, 8, 9}) aw.push_back(b);
    for (std::uint8_t b : {0xF1, 0xF2, 0xF3, 0xF4, 0xF5, 0xF6, 0xF7, 0xF8}) aw.push_back(b);
    if (ref_encode(a) != aw) c.fail("C15:harness-error", "independent encoder: announce vector mismatch");
    return "independent encoder checked against two hand-written wire vectors (handshake v9->4, announce v3 with nonce)";
}
}  // namespace verif
