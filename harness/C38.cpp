// C38 — update metadata parsing is total and decodes JSON strings correctly
// Oracles (all independent of the code under test):
//   * round trip: a model Metadata is rendered to strict RFC 8259 JSON by a renderer written here
//     (random escape form per character, whitespace, key order, unknown members) and must come back
//     equal to the model;
//   * a strict, iterative RFC 8259 reference parser written here judges every other accepted
//     document: each reported field must be the UTF-8 value of a same-named JSON string;
//   * metamorphic: the outcome must not depend on the byte that follows the input (an over-read
//     shows up as a difference instead of killing the process); then the exact-size heap copy is
//     parsed under ASan;
//   * totality: deep nesting runs in a forked child so a stack overflow is reported as a signature.
#define VERIF_FUZZ_TARGET 1
#include "verif.hpp"

#include "ephemeralnet/core/UpdateCheck.hpp"

#include <csignal>
#include <cstdlib>
#include <fcntl.h>
#include <memory>
#include <optional>
#include <sys/resource.h>
#include <sys/wait.h>
#include <unistd.h>

extern "C" void __sanitizer_set_death_callback(void (*callback)(void));

namespace verif {
const PropertyInfo kInfo = {
    "C38", 16, 8, 16,
    "tape -> document. mode model (7/16): Metadata model, one record per field (target field, length 0..11, code-point classes "
    "{ASCII, the 8 short-escapables, other controls + DEL, 2-byte incl. U+0080/U+00E9/U+07FF, 3-byte incl. U+0800/U+D7FF/U+E000/U+FFFF, "
    "non-BMP incl. U+10000/U+1F600/U+10FFFF}, render style per character {raw UTF-8, short escape, \\uXXXX in either hex case, "
    "surrogate pair}), rendered with random whitespace, key order, escaped key names, unknown members (numbers, literals, strings, "
    "nested arrays/objects) and optional-field / non-object-download variations; mode mutated (3/16): a model document truncated at any "
    "offset, or with one byte deleted / replaced / inserted; mode nesting (2/16): '[' / '{\"a\":' / alternating, bare or as an unknown "
    "member of a valid document, closed or not, depth from {0,1,2,10,31,32,33,64,65,100,400,500,501,1000,5000,20000,10^5,10^6} or uniform "
    "<= 600; mode raw (1/16): the record bytes are the document; mode token soup (3/16): one JSON token per tape byte. "
    "Oracle: success or (false + non-empty message), no exception, no sanitizer report, no stack overflow (documents with > 600 open "
    "brackets run in a forked child), outcome independent of the byte after the input; canonical documents (strict schema, depth <= 32, "
    "numbers within double range) are accepted and every field equals the model; any accepted document that the strict reference parser "
    "also accepts has each reported field equal to a same-named JSON string. "
    "Non-trivial: document with an escape, or depth > 64, or truncated. Distinct = hash of the decoded case."};

namespace {
using ephemeralnet::update::DownloadInfo;
using ephemeralnet::update::Metadata;

const char* const kSigRecursion = "C38:unbounded-recursion";
const char* const kSigOverread = "C38:eof-overread";
const char* const kSigSurrogate = "C38:surrogate-pair";
const char* const kSigMismatch = "C38:string-decoding-mismatch";

constexpr std::size_t kInProcessBrackets = 600;  // documents with more open brackets are parsed in a forked child
constexpr std::size_t kKnownDepthCap = 500;      // exclusion while C38:unbounded-recursion is listed (DESIGN Appendix B)

// ================================================================================================
// UTF-8 helpers (written from RFC 3629)
// ================================================================================================
void put_utf8(std::string& out, std::uint32_t cp) {
    if (cp < 0x80) {
        out.push_back(static_cast<char>(cp));
    } else if (cp < 0x800) {
        out.push_back(static_cast<char>(0xC0 | (cp >> 6)));
        out.push_back(static_cast<char>(0x80 | (cp & 0x3F)));
    } else if (cp < 0x10000) {
        out.push_back(static_cast<char>(0xE0 | (cp >> 12)));
        out.push_back(static_cast<char>(0x80 | ((cp >> 6) & 0x3F)));
        out.push_back(static_cast<char>(0x80 | (cp & 0x3F)));
    } else {
        out.push_back(static_cast<char>(0xF0 | (cp >> 18)));
        out.push_back(static_cast<char>(0x80 | ((cp >> 12) & 0x3F)));
        out.push_back(static_cast<char>(0x80 | ((cp >> 6) & 0x3F)));
        out.push_back(static_cast<char>(0x80 | (cp & 0x3F)));
    }
}

std::string show(const std::string& s, std::size_t max = 48) {
    std::string o = "\"";
    std::size_t i = 0;
    for (; i < s.size() && i < max; ++i) {
        unsigned char ch = static_cast<unsigned char>(s[i]);
        if (ch >= 0x20 && ch < 0x7F) o.push_back(static_cast<char>(ch));
        else { char b[8]; std::snprintf(b, sizeof b, "\\x%02x", ch); o += b; }
    }
    o += "\"";
    if (i < s.size()) o += "..(" + std::to_string(s.size()) + "B)";
    return o;
}

// ================================================================================================
// Strict RFC 8259 reference parser — iterative (explicit stack), flat arena, no recursion anywhere
// ================================================================================================
enum class K : std::uint8_t { Null, Bool, Num, Str, Arr, Obj };
struct RNode {
    K kind = K::Null;
    bool pair = false;  // a string decoded from at least one surrogate-pair escape
    std::string str;
    struct Member { std::string key; bool key_pair; int node; };
    std::vector<Member> members;
    std::vector<int> items;
};
struct RefJson {
    std::vector<RNode> nodes;
    int root = -1;
    bool ok = false;
    std::string err;
    std::size_t max_depth = 0;
};

struct RefParser {
    std::string_view in;
    std::size_t pos = 0;
    RefJson& out;
    explicit RefParser(std::string_view s, RefJson& o) : in(s), out(o) {}

    struct Bad { std::string why; };
    [[noreturn]] void bad(const char* why) { throw Bad{std::string(why) + " at offset " + std::to_string(pos)}; }
    bool eof() const { return pos >= in.size(); }
    unsigned char cur() const { return static_cast<unsigned char>(in[pos]); }
    void ws() { while (!eof() && (in[pos] == ' ' || in[pos] == '\t' || in[pos] == '\n' || in[pos] == '\r')) ++pos; }

    unsigned hex4() {
        if (pos + 4 > in.size()) bad("truncated \\u escape");
        unsigned v = 0;
        for (int i = 0; i < 4; ++i) {
            unsigned char ch = cur();
            unsigned d;
            if (ch >= '0' && ch <= '9') d = ch - '0';
            else if (ch >= 'a' && ch <= 'f') d = 10 + ch - 'a';
            else if (ch >= 'A' && ch <= 'F') d = 10 + ch - 'A';
            else bad("bad hex digit");
            v = v * 16 + d;
            ++pos;
        }
        return v;
    }

    // one well-formed UTF-8 sequence (Unicode table 3-7), copied through
    void utf8_seq(std::string& o) {
        unsigned char b0 = cur();
        std::size_t need;
        unsigned char lo = 0x80, hi = 0xBF;
        if (b0 < 0x80) need = 0;
        else if (b0 >= 0xC2 && b0 <= 0xDF) need = 1;
        else if (b0 == 0xE0) { need = 2; lo = 0xA0; }
        else if (b0 >= 0xE1 && b0 <= 0xEC) need = 2;
        else if (b0 == 0xED) { need = 2; hi = 0x9F; }
        else if (b0 >= 0xEE && b0 <= 0xEF) need = 2;
        else if (b0 == 0xF0) { need = 3; lo = 0x90; }
        else if (b0 >= 0xF1 && b0 <= 0xF3) need = 3;
        else if (b0 == 0xF4) { need = 3; hi = 0x8F; }
        else bad("invalid UTF-8 lead byte");
        if (need && pos + need >= in.size()) bad("truncated UTF-8 sequence");
        o.push_back(static_cast<char>(b0));
        ++pos;
        for (std::size_t i = 0; i < need; ++i) {
            unsigned char b = cur();
            unsigned char l = i == 0 ? lo : 0x80, h = i == 0 ? hi : 0xBF;
            if (b < l || b > h) bad("invalid UTF-8 continuation");
            o.push_back(static_cast<char>(b));
            ++pos;
        }
    }

    std::string string(bool& pair) {
        if (eof() || cur() != '"') bad("expected string");
        ++pos;
        std::string o;
        for (;;) {
            if (eof()) bad("unterminated string");
            unsigned char ch = cur();
            if (ch == '"') { ++pos; return o; }
            if (ch < 0x20) bad("raw control character in string");
            if (ch != '\\') { utf8_seq(o); continue; }
            ++pos;
            if (eof()) bad("unterminated escape");
            unsigned char e = cur();
            ++pos;
            switch (e) {
                case '"': o.push_back('"'); break;
                case '\\': o.push_back('\\'); break;
                case '/': o.push_back('/'); break;
                case 'b': o.push_back('\b'); break;
                case 'f': o.push_back('\f'); break;
                case 'n': o.push_back('\n'); break;
                case 'r': o.push_back('\r'); break;
                case 't': o.push_back('\t'); break;
                case 'u': {
                    unsigned u = hex4();
                    if (u >= 0xDC00 && u <= 0xDFFF) bad("lone low surrogate");
                    if (u >= 0xD800 && u <= 0xDBFF) {
                        if (pos + 2 > in.size() || in[pos] != '\\' || in[pos + 1] != 'u') bad("lone high surrogate");
                        pos += 2;
                        unsigned l = hex4();
                        if (l < 0xDC00 || l > 0xDFFF) bad("high surrogate not followed by a low surrogate");
                        put_utf8(o, 0x10000 + ((u - 0xD800) << 10) + (l - 0xDC00));
                        pair = true;
                    } else {
                        put_utf8(o, u);
                    }
                    break;
                }
                default: --pos; bad("invalid escape");
            }
        }
    }

    void digits() {
        if (eof() || cur() < '0' || cur() > '9') bad("digit expected");
        while (!eof() && cur() >= '0' && cur() <= '9') ++pos;
    }
    void number() {
        if (!eof() && cur() == '-') ++pos;
        if (eof()) bad("digit expected");
        if (cur() == '0') ++pos;
        else digits();
        if (!eof() && cur() == '.') { ++pos; digits(); }
        if (!eof() && (cur() == 'e' || cur() == 'E')) {
            ++pos;
            if (!eof() && (cur() == '+' || cur() == '-')) ++pos;
            digits();
        }
    }
    void literal(std::string_view lit) {
        if (in.substr(pos, lit.size()) != lit) bad("invalid literal");
        pos += lit.size();
    }

    int fresh(K k) { out.nodes.emplace_back(); out.nodes.back().kind = k; return static_cast<int>(out.nodes.size()) - 1; }

    void run() {
        struct Frame { int node; bool obj; std::string key; bool key_pair; };
        std::vector<Frame> stack;
        ws();
        for (;;) {  // a value is expected at pos
            ws();
            if (eof()) bad("value expected");
            int v = -1;
            bool opened = false;
            unsigned char ch = cur();
            if (ch == '{' || ch == '[') {
                bool obj = ch == '{';
                v = fresh(obj ? K::Obj : K::Arr);
                ++pos;
                ws();
                if (!eof() && cur() == (obj ? '}' : ']')) {
                    ++pos;
                } else {
                    Frame f{v, obj, "", false};
                    if (obj) {
                        f.key = string(f.key_pair);
                        ws();
                        if (eof() || cur() != ':') bad("':' expected");
                        ++pos;
                    }
                    stack.push_back(std::move(f));
                    out.max_depth = std::max(out.max_depth, stack.size());
                    opened = true;
                }
            } else if (ch == '"') {
                v = fresh(K::Str);
                bool pair = false;
                std::string s = string(pair);
                out.nodes[v].str = std::move(s);
                out.nodes[v].pair = pair;
            } else if (ch == 't') { literal("true"); v = fresh(K::Bool); }
            else if (ch == 'f') { literal("false"); v = fresh(K::Bool); }
            else if (ch == 'n') { literal("null"); v = fresh(K::Null); }
            else if (ch == '-' || (ch >= '0' && ch <= '9')) { number(); v = fresh(K::Num); }
            else bad("invalid token");
            if (opened) continue;
            // value v complete: attach upwards
            for (;;) {
                if (stack.empty()) {
                    out.root = v;
                    ws();
                    if (!eof()) bad("trailing data");
                    return;
                }
                Frame& f = stack.back();
                if (f.obj) out.nodes[f.node].members.push_back({std::move(f.key), f.key_pair, v});
                else out.nodes[f.node].items.push_back(v);
                ws();
                if (eof()) bad("unterminated container");
                if (cur() == ',') {
                    ++pos;
                    if (f.obj) {
                        ws();
                        f.key_pair = false;
                        f.key = string(f.key_pair);
                        ws();
                        if (eof() || cur() != ':') bad("':' expected");
                        ++pos;
                    }
                    break;  // next value
                }
                if (cur() == (f.obj ? '}' : ']')) {
                    ++pos;
                    v = f.node;
                    stack.pop_back();
                    continue;
                }
                bad("',' or closing bracket expected");
            }
        }
    }
};

void ref_parse(std::string_view doc, RefJson& out) {
    RefParser p(doc, out);
    try {
        p.run();
        out.ok = true;
    } catch (const RefParser::Bad& b) {
        out.ok = false;
        out.err = b.why;
    }
}

// upper bound of the nesting depth: open brackets outside string literals (string tracking is approximate,
// so fall back to counting every bracket when quotes are unbalanced)
std::size_t bracket_depth(std::string_view d) {
    std::size_t depth = 0, best = 0, all = 0;
    bool in_str = false;
    for (std::size_t i = 0; i < d.size(); ++i) {
        char ch = d[i];
        if (ch == '[' || ch == '{') ++all;
        if (in_str) {
            if (ch == '\\') ++i;
            else if (ch == '"') in_str = false;
            continue;
        }
        if (ch == '"') in_str = true;
        else if (ch == '[' || ch == '{') best = std::max(best, ++depth);
        else if ((ch == ']' || ch == '}') && depth) --depth;
    }
    return in_str ? all : best;
}

// ================================================================================================
// Calling the code under test
// ================================================================================================
struct Outcome {
    bool ok = false;
    bool threw = false;
    std::string err;
    Metadata md;
};

bool same_md(const Metadata& a, const Metadata& b) {
    if (a.version != b.version || a.tag != b.tag || a.commit != b.commit || a.channel != b.channel || a.generated_at != b.generated_at ||
        a.notes_url != b.notes_url || a.downloads.size() != b.downloads.size())
        return false;
    for (std::size_t i = 0; i < a.downloads.size(); ++i) {
        const auto &x = a.downloads[i], &y = b.downloads[i];
        if (x.platform != y.platform || x.url != y.url || x.sha256 != y.sha256 || x.arch != y.arch || x.format != y.format) return false;
    }
    return true;
}
bool same_outcome(const Outcome& a, const Outcome& b) {
    if (a.ok != b.ok || a.threw != b.threw || a.err != b.err) return false;
    return !a.ok || same_md(a.md, b.md);
}

Outcome call(const char* p, std::size_t n) {
    Outcome o;
    try {
        o.ok = ephemeralnet::update::parse_update_metadata(std::string_view(p, n), o.md, o.err);
    } catch (const std::exception& e) {
        o.threw = true;
        o.err = std::string("exception: ") + e.what();
    } catch (...) {
        o.threw = true;
        o.err = "exception of unknown type";
    }
    return o;
}
// exact-size heap copy: ASan guards both ends
Outcome call_exact(const std::string& doc) {
    std::unique_ptr<char[]> buf(new char[doc.size()]);
    if (!doc.empty()) std::memcpy(buf.get(), doc.data(), doc.size());
    return call(buf.get(), doc.size());
}
// the input followed by one more (addressable) byte that is not part of it
Outcome call_followed_by(const std::string& doc, char next) {
    std::unique_ptr<char[]> buf(new char[doc.size() + 1]);
    if (!doc.empty()) std::memcpy(buf.get(), doc.data(), doc.size());
    buf[doc.size()] = next;
    return call(buf.get(), doc.size());
}

// ---- forked execution for deep nesting ----------------------------------------------------------
void put_str(std::string& b, const std::string& s) {
    std::uint32_t n = static_cast<std::uint32_t>(s.size());
    b.append(reinterpret_cast<const char*>(&n), 4);
    b += s;
}
std::string serialize(const Outcome& o) {
    std::string b;
    put_str(b, o.ok ? "1" : "0");
    put_str(b, o.threw ? "1" : "0");
    put_str(b, o.err);
    if (!o.ok) return b;
    put_str(b, o.md.version); put_str(b, o.md.tag); put_str(b, o.md.commit); put_str(b, o.md.channel); put_str(b, o.md.generated_at);
    put_str(b, o.md.notes_url ? "1" : "0"); put_str(b, o.md.notes_url.value_or(""));
    put_str(b, std::to_string(o.md.downloads.size()));
    for (auto& d : o.md.downloads) {
        put_str(b, d.platform); put_str(b, d.url); put_str(b, d.sha256 ? "1" : "0"); put_str(b, d.sha256.value_or(""));
        put_str(b, d.arch); put_str(b, d.format);
    }
    return b;
}
bool deserialize(const std::string& b, Outcome& o) {
    std::size_t pos = 0;
    bool good = true;
    auto get = [&]() -> std::string {
        if (pos + 4 > b.size()) { good = false; return ""; }
        std::uint32_t n;
        std::memcpy(&n, b.data() + pos, 4);
        pos += 4;
        if (pos + n > b.size()) { good = false; return ""; }
        std::string s = b.substr(pos, n);
        pos += n;
        return s;
    };
    o = Outcome{};
    o.ok = get() == "1";
    o.threw = get() == "1";
    o.err = get();
    if (!good) return false;
    if (!o.ok) return true;
    o.md.version = get(); o.md.tag = get(); o.md.commit = get(); o.md.channel = get(); o.md.generated_at = get();
    bool hn = get() == "1";
    std::string nu = get();
    if (hn) o.md.notes_url = nu;
    std::size_t n = static_cast<std::size_t>(std::atol(get().c_str()));
    for (std::size_t i = 0; i < n && good; ++i) {
        DownloadInfo d;
        d.platform = get(); d.url = get();
        bool hs = get() == "1";
        std::string sh = get();
        if (hs) d.sha256 = sh;
        d.arch = get(); d.format = get();
        o.md.downloads.push_back(std::move(d));
    }
    return good;
}

enum class Child { Returned, Crashed, Hang, Broken, Starved };
// Runs the parser on an exact-size copy in a forked child.  `how` describes an abnormal end.
Child call_forked_once(const std::string& doc, Outcome& out, std::string& how);
// A parser that hangs does so every time; a forked child of a sanitizer process can also get stuck by accident (locks
// inherited at fork time).  Only a hang that repeats in two further fresh children is reported.
Child call_forked(const std::string& doc, Outcome& out, std::string& how) {
    Child st = call_forked_once(doc, out, how);
    for (int attempt = 0; attempt < 2 && st == Child::Hang; ++attempt) st = call_forked_once(doc, out, how);
    return st;
}
Child call_forked_once(const std::string& doc, Outcome& out, std::string& how) {
    int fds[2];
    if (pipe(fds) != 0) { how = "pipe failed"; return Child::Broken; }
    std::fflush(nullptr);
    pid_t pid = fork();
    if (pid < 0) { close(fds[0]); close(fds[1]); how = "fork failed"; return Child::Broken; }
    if (pid == 0) {
        close(fds[0]);
        __sanitizer_set_death_callback(nullptr);
        struct sigaction sa {};
        sa.sa_handler = SIG_DFL;
        for (int s : {SIGSEGV, SIGBUS, SIGABRT, SIGILL, SIGFPE}) sigaction(s, &sa, nullptr);
        int dn = open("/dev/null", O_WRONLY);
        if (dn >= 0) { dup2(dn, 2); dup2(dn, 1); }
        std::signal(SIGALRM, SIG_DFL);
        std::signal(SIGXCPU, SIG_DFL);
        {   // the hang verdict is about CPU time the parser burns, never about wall-clock time on a loaded machine
            struct rlimit rl { 20, 25 };
            setrlimit(RLIMIT_CPU, &rl);
        }
        alarm(900);
        Outcome o = call_exact(doc);
        std::string b = serialize(o);
        const char* p = b.data();
        std::size_t n = b.size();
        while (n) { ssize_t w = write(fds[1], p, n); if (w <= 0) break; p += w; n -= static_cast<std::size_t>(w); }
        _exit(0);
    }
    close(fds[1]);
    std::string b;
    char tmp[4096];
    for (;;) {
        ssize_t r = read(fds[0], tmp, sizeof tmp);
        if (r > 0) { b.append(tmp, static_cast<std::size_t>(r)); continue; }
        if (r < 0 && errno == EINTR) continue;
        break;
    }
    close(fds[0]);
    int st = 0;
    while (waitpid(pid, &st, 0) < 0 && errno == EINTR) {}
    if (WIFSIGNALED(st)) {
        int sig = WTERMSIG(st);
        if (sig == SIGXCPU || sig == SIGKILL) { how = "no return after 20 s of CPU time"; return Child::Hang; }
        if (sig == SIGALRM) { how = "starved"; out = Outcome{}; return Child::Starved; }
        how = std::string("killed by signal ") + std::to_string(sig) + (sig == SIGSEGV ? " (SIGSEGV)" : sig == SIGBUS ? " (SIGBUS)" : sig == SIGABRT ? " (SIGABRT)" : "");
        return Child::Crashed;
    }
    if (!WIFEXITED(st) || WEXITSTATUS(st) != 0) {
        how = "exit status " + std::to_string(WIFEXITED(st) ? WEXITSTATUS(st) : -1) + " (sanitizer report / abort)";
        return Child::Crashed;
    }
    if (!deserialize(b, out)) { how = "short result from child"; return Child::Broken; }
    return Child::Returned;
}

// ================================================================================================
// Model and renderer (strict RFC 8259 output by construction)
// ================================================================================================
struct JStr {
    std::u32string cps;
    std::uint8_t style = 0;   // bit0 \u for mandatory escapes, bit1 \u for arbitrary BMP, bit2 surrogate pairs, bit3 upper-case hex, bit4 "\/"
    std::uint64_t seed = 0;
    bool used_pair = false;   // set by render
    bool used_escape = false;
    std::string utf8() const { std::string s; for (char32_t c : cps) put_utf8(s, c); return s; }
};
JStr ascii(const char* s) { JStr j; for (const char* p = s; *p; ++p) j.cps.push_back(static_cast<unsigned char>(*p)); return j; }

struct RenderCtx {
    Ctx& c;
    bool avoid_pairs;  // C38:surrogate-pair is listed: non-BMP characters are written raw
    bool any_escape = false, any_u = false, any_pair = false, any_nonbmp = false, any_multibyte = false;
};

void hex4(std::string& o, unsigned v, bool upper, Prng& p, bool mixed) {
    static const char* lo = "0123456789abcdef";
    static const char* up = "0123456789ABCDEF";
    o += "\\u";
    for (int sh = 12; sh >= 0; sh -= 4) {
        bool u = mixed ? (p.next() & 1) : upper;
        const char* tab = u ? up : lo;  // (g++ 12 + UBSan miscompiles `(u ? up : lo)[v >> sh]`: the shift check reads an uninitialised temporary)
        o.push_back(tab[(v >> sh) & 15]);
    }
}

std::string render(JStr& s, RenderCtx& rc) {
    Prng p(s.seed ^ 0x5712);
    std::string o = "\"";
    bool upper = s.style & 8;
    bool mixed = (s.style & 8) && (s.style & 0x80);
    for (char32_t cp : s.cps) {
        if (cp >= 0x80) rc.any_multibyte = true;
        if (cp >= 0x10000) {
            rc.any_nonbmp = true;
            if ((s.style & 4) && (p.next() & 1)) {
                if (rc.avoid_pairs) {
                    rc.c.count_excluded(kSigSurrogate);
                    put_utf8(o, cp);
                } else {
                    unsigned v = cp - 0x10000;
                    hex4(o, 0xD800 + (v >> 10), upper, p, mixed);
                    hex4(o, 0xDC00 + (v & 0x3FF), upper, p, mixed);
                    s.used_pair = s.used_escape = rc.any_pair = rc.any_escape = rc.any_u = true;
                }
            } else {
                put_utf8(o, cp);
            }
            continue;
        }
        const char* shortform = nullptr;
        switch (cp) {
            case '"': shortform = "\\\""; break;
            case '\\': shortform = "\\\\"; break;
            case '\b': shortform = "\\b"; break;
            case '\f': shortform = "\\f"; break;
            case '\n': shortform = "\\n"; break;
            case '\r': shortform = "\\r"; break;
            case '\t': shortform = "\\t"; break;
            default: break;
        }
        bool must = cp < 0x20 || cp == '"' || cp == '\\';
        if (must) {
            s.used_escape = rc.any_escape = true;
            if (shortform && !((s.style & 1) && p.below(3) == 0)) o += shortform;
            else { hex4(o, cp, upper, p, mixed); rc.any_u = true; }
            continue;
        }
        if (cp == '/' && (s.style & 16) && (p.next() & 1)) { o += "\\/"; s.used_escape = rc.any_escape = true; continue; }
        if ((s.style & 2) && p.below(3) == 0) { hex4(o, cp, upper, p, mixed); s.used_escape = rc.any_escape = rc.any_u = true; continue; }
        put_utf8(o, cp);
    }
    o += "\"";
    return o;
}

char32_t pick_cp(unsigned mask, Prng& p) {
    static const char32_t esc[] = {'"', '\\', '/', '\b', '\f', '\n', '\r', '\t'};
    static const char32_t ctl[] = {0x00, 0x01, 0x0B, 0x1B, 0x1F, 0x7F, 0x0E, 0x10};
    static const char32_t two[] = {0x80, 0xE9, 0xFF, 0x7FF, 0x100, 0x3A9};
    static const char32_t three[] = {0x800, 0x20AC, 0xD7FF, 0xE000, 0xFFFD, 0xFFFF, 0xFEFF, 0x2028};
    static const char32_t four[] = {0x10000, 0x1F600, 0x10FFFF, 0x1D11E, 0xFFFFF, 0x100000};
    if ((mask & 0x3F) == 0) return "abcxyz019-._ABZ"[p.below(15)];
    for (;;) {
        unsigned cls = static_cast<unsigned>(p.below(6));
        if (!(mask & (1u << cls))) continue;
        switch (cls) {
            case 0: { char32_t ch = static_cast<char32_t>(0x20 + p.below(0x5F)); return (ch == '"' || ch == '\\') ? U'{' : ch; }
            case 1: return esc[p.below(8)];
            case 2: return ctl[p.below(8)];
            case 3: return p.below(2) ? two[p.below(6)] : static_cast<char32_t>(0x80 + p.below(0x780));
            case 4: {
                if (p.below(2)) return three[p.below(8)];
                char32_t c = static_cast<char32_t>(0x800 + p.below(0xF800));
                return (c >= 0xD800 && c <= 0xDFFF) ? U'\u4E2D' : c;
            }
            default: return p.below(2) ? four[p.below(6)] : static_cast<char32_t>(0x10000 + p.below(0x100000));
        }
    }
}

JStr gen_jstr(const Rec& r) {
    JStr s;
    Prng p(r.seed());
    std::size_t len = r.a(0) % 12;
    unsigned mask = r.a(1);
    for (std::size_t i = 0; i < len; ++i) s.cps.push_back(pick_cp(mask, p));
    s.style = r.a(2);
    s.seed = r.a32(3);
    return s;
}

struct MDl {
    JStr platform, url;
    std::optional<JStr> arch, format, sha256;
    int odd_arch = 0, odd_format = 0, odd_sha = 0;  // non-string value written for the optional member
};
struct Model {
    JStr version = ascii("1"), tag = ascii("v1"), commit = ascii("c"), channel = ascii("s"), generated_at = ascii("t");
    std::optional<JStr> notes_url;
    int odd_notes = 0;
    std::vector<MDl> dls;
    struct Extra { JStr key; int kind; JStr sval; std::string raw; };
    std::vector<Extra> root_extras;           // unknown members of the root
    std::vector<Extra> skipped_downloads;     // members of "downloads" whose value is not an object
    bool strict_schema = true;                // no odd_* / skipped downloads
    bool escape_keys = false;
};

// a small well-formed value for unknown members; numbers stay far inside double range
std::string gen_value(Prng& p, RenderCtx& rc, int depth, const std::string& ws1) {
    static const char* nums[] = {"0", "-1", "3.25", "1e5", "-0.0", "12E-3", "1234567890123", "0.000001", "2E+2", "-7"};
    switch (p.below(depth >= 3 ? 5 : 8)) {
        case 0: return nums[p.below(10)];
        case 1: return "true";
        case 2: return "false";
        case 3: return "null";
        case 4: {
            JStr s;
            std::size_t n = p.below(5);
            unsigned mask = static_cast<unsigned>(p.next());
            for (std::size_t i = 0; i < n; ++i) s.cps.push_back(pick_cp(mask, p));
            s.style = static_cast<std::uint8_t>(p.next());
            s.seed = p.next();
            return render(s, rc);
        }
        case 5:
        case 6: {
            std::string o = "[" + ws1;
            std::size_t n = p.below(4);
            for (std::size_t i = 0; i < n; ++i) { if (i) o += "," + ws1; o += gen_value(p, rc, depth + 1, ws1); }
            return o + ws1 + "]";
        }
        default: {
            std::string o = "{";
            std::size_t n = p.below(3);
            static const char* keys[] = {"version", "url", "k", "downloads", "", "a b"};
            for (std::size_t i = 0; i < n; ++i) {
                if (i) o += ",";
                o += "\"" + std::string(keys[p.below(6)]) + std::to_string(i) + "\":" + ws1 + gen_value(p, rc, depth + 1, ws1);
            }
            return o + "}";
        }
    }
}

struct Renderer {
    RenderCtx& rc;
    Prng p;
    unsigned ws_level;  // 0 none, 1..3 density
    bool shuffle;
    Renderer(RenderCtx& r, std::uint64_t seed, unsigned wsl, bool sh) : rc(r), p(seed), ws_level(wsl), shuffle(sh) {}
    std::string ws() {
        if (!ws_level) return "";
        std::string o;
        std::size_t n = p.below(ws_level + 1);
        for (std::size_t i = 0; i < n; ++i) o.push_back(" \n\r\t"[p.below(4)]);
        return o;
    }
    std::string key(const char* name, bool esc) {
        JStr k = ascii(name);
        if (esc) { k.style = 2 | (p.next() & 8); k.seed = p.next(); }
        return render(k, rc);
    }
    std::string object(std::vector<std::pair<std::string, std::string>>& members) {
        if (shuffle) for (std::size_t i = members.size(); i > 1; --i) std::swap(members[i - 1], members[p.below(i)]);
        std::string o = "{" + ws();
        for (std::size_t i = 0; i < members.size(); ++i) {
            if (i) o += "," + ws();
            o += members[i].first + ws() + ":" + ws() + members[i].second + ws();
        }
        return o + "}";
    }
};

const char* odd_value(int k) {
    static const char* v[] = {"", "null", "17", "[\"x\"]", "{\"url\":\"u\"}", "true"};
    return v[k % 6];
}

std::string render_model(Model& m, Renderer& r, const std::string* deep_extra /* value of an extra root member */) {
    using Members = std::vector<std::pair<std::string, std::string>>;
    Members root;
    bool ek = m.escape_keys;
    root.emplace_back(r.key("version", ek), render(m.version, r.rc));
    root.emplace_back(r.key("tag", ek), render(m.tag, r.rc));
    root.emplace_back(r.key("commit", ek), render(m.commit, r.rc));
    root.emplace_back(r.key("channel", ek), render(m.channel, r.rc));
    root.emplace_back(r.key("generated_at", ek), render(m.generated_at, r.rc));
    if (m.notes_url) root.emplace_back(r.key("notes_url", ek), render(*m.notes_url, r.rc));
    else if (m.odd_notes) root.emplace_back(r.key("notes_url", ek), odd_value(m.odd_notes));
    Members dls;
    for (auto& d : m.dls) {
        Members one;
        one.emplace_back(r.key("url", ek), render(d.url, r.rc));
        if (d.arch) one.emplace_back(r.key("arch", ek), render(*d.arch, r.rc));
        else if (d.odd_arch) one.emplace_back(r.key("arch", ek), odd_value(d.odd_arch));
        if (d.format) one.emplace_back(r.key("format", ek), render(*d.format, r.rc));
        else if (d.odd_format) one.emplace_back(r.key("format", ek), odd_value(d.odd_format));
        if (d.sha256) one.emplace_back(r.key("sha256", ek), render(*d.sha256, r.rc));
        else if (d.odd_sha) one.emplace_back(r.key("sha256", ek), odd_value(d.odd_sha));
        if (r.p.below(4) == 0 && r.ws_level) one.emplace_back("\"size\"", "12345");
        dls.emplace_back(render(d.platform, r.rc), r.object(one));
    }
    for (auto& e : m.skipped_downloads) dls.emplace_back(render(e.key, r.rc), e.raw);
    root.emplace_back(r.key("downloads", ek), r.object(dls));
    for (auto& e : m.root_extras) root.emplace_back(render(e.key, r.rc), e.kind == 0 ? render(e.sval, r.rc) : e.raw);
    if (deep_extra) root.emplace_back("\"deep\"", *deep_extra);
    return r.ws() + r.object(root) + r.ws();
}

Metadata expected_of(const Model& m) {
    Metadata e;
    e.version = m.version.utf8(); e.tag = m.tag.utf8(); e.commit = m.commit.utf8(); e.channel = m.channel.utf8();
    e.generated_at = m.generated_at.utf8();
    if (m.notes_url) e.notes_url = m.notes_url->utf8();
    for (auto& d : m.dls) {
        DownloadInfo x;
        x.platform = d.platform.utf8();
        x.url = d.url.utf8();
        if (d.arch) x.arch = d.arch->utf8();
        if (d.format) x.format = d.format->utf8();
        if (d.sha256) x.sha256 = d.sha256->utf8();
        e.downloads.push_back(std::move(x));
    }
    return e;
}

// ================================================================================================
// Judging
// ================================================================================================
std::string md_brief(const Metadata& m) {
    std::string s = "version=" + show(m.version) + " tag=" + show(m.tag) + " commit=" + show(m.commit) + " channel=" + show(m.channel) +
                    " generated_at=" + show(m.generated_at) + " notes_url=" + (m.notes_url ? show(*m.notes_url) : "-");
    for (auto& d : m.downloads)
        s += " [" + show(d.platform) + " url=" + show(d.url) + " arch=" + show(d.arch) + " format=" + show(d.format) + " sha256=" + (d.sha256 ? show(*d.sha256) : "-") + "]";
    return s;
}

// exact comparison with the model (documents whose keys are unique by construction)
void judge_model(Ctx& c, const Model& m, const Outcome& o) {
    Metadata e = expected_of(m);
    auto cmp = [&](const char* name, const std::string& want, const std::string& got, bool pair) {
        if (want == got) return;
        c.fail(pair ? kSigSurrogate : kSigMismatch,
               std::string("field ") + name + ": document string decodes (RFC 8259) to " + show(want, 96) + " = " + hex(want, 48) +
                   " but the parser reported " + show(got, 96) + " = " + hex(got, 48));
    };
    cmp("version", e.version, o.md.version, m.version.used_pair);
    cmp("tag", e.tag, o.md.tag, m.tag.used_pair);
    cmp("commit", e.commit, o.md.commit, m.commit.used_pair);
    cmp("channel", e.channel, o.md.channel, m.channel.used_pair);
    cmp("generated_at", e.generated_at, o.md.generated_at, m.generated_at.used_pair);
    if (e.notes_url.has_value() != o.md.notes_url.has_value())
        c.fail("C38:optional-field-presence", std::string("notes_url ") + (e.notes_url ? "is a JSON string in the document but was not reported" : "is not a JSON string in the document but was reported"));
    if (e.notes_url) cmp("notes_url", *e.notes_url, *o.md.notes_url, m.notes_url->used_pair);
    if (e.downloads.size() != o.md.downloads.size())
        c.fail("C38:downloads-mismatch", "document has " + std::to_string(e.downloads.size()) + " object-valued downloads, parser reported " + std::to_string(o.md.downloads.size()));
    for (std::size_t i = 0; i < e.downloads.size(); ++i) {
        // platforms are unique in the model; find the reported entry for this one
        const DownloadInfo* got = nullptr;
        for (auto& d : o.md.downloads) if (d.platform == e.downloads[i].platform) got = &d;
        const MDl& md = m.dls[i];
        if (!got) {
            c.fail(md.platform.used_pair ? kSigSurrogate : kSigMismatch,
                   "download platform key decodes to " + show(e.downloads[i].platform, 96) + " = " + hex(e.downloads[i].platform, 48) + " but no reported download has that platform; reported: " + md_brief(o.md).substr(0, 300));
        }
        cmp("downloads.url", e.downloads[i].url, got->url, md.url.used_pair);
        cmp("downloads.arch", e.downloads[i].arch, got->arch, md.arch && md.arch->used_pair);
        cmp("downloads.format", e.downloads[i].format, got->format, md.format && md.format->used_pair);
        if (e.downloads[i].sha256.has_value() != got->sha256.has_value())
            c.fail("C38:optional-field-presence", std::string("sha256 ") + (e.downloads[i].sha256 ? "is a JSON string in the document but was not reported" : "is not a JSON string in the document but was reported"));
        if (e.downloads[i].sha256) cmp("downloads.sha256", *e.downloads[i].sha256, *got->sha256, md.sha256->used_pair);
    }
}

// any accepted document that is strict JSON: every reported field is a same-named JSON string
void judge_general(Ctx& c, const RefJson& rj, const Outcome& o) {
    const RNode& root = rj.nodes[static_cast<std::size_t>(rj.root)];
    if (root.kind != K::Obj) c.fail("C38:field-without-source", "success reported for a document whose root is not an object");
    struct Cands { std::vector<const std::string*> v; bool pair = false; bool has(const std::string& s) const { for (auto* x : v) if (*x == s) return true; return false; } };
    auto strs = [&](const RNode& obj, std::string_view key) {
        Cands cs;
        for (auto& m : obj.members) {
            if (m.key != key) continue;
            const RNode& n = rj.nodes[static_cast<std::size_t>(m.node)];
            if (n.kind == K::Str) { cs.v.push_back(&n.str); cs.pair = cs.pair || n.pair || m.key_pair; }
        }
        return cs;
    };
    auto need = [&](const char* name, const std::string& got) {
        Cands cs = strs(root, name);
        if (cs.has(got)) return;
        if (cs.v.empty()) c.fail("C38:field-without-source", std::string("field ") + name + " reported as " + show(got, 96) + " but the document has no string member of that name");
        c.fail(cs.pair ? kSigSurrogate : kSigMismatch, std::string("field ") + name + ": document string decodes (RFC 8259) to " + show(*cs.v[0], 96) + " = " + hex(*cs.v[0], 48) +
                                                          " but the parser reported " + show(got, 96) + " = " + hex(got, 48));
    };
    need("version", o.md.version);
    need("tag", o.md.tag);
    need("commit", o.md.commit);
    need("channel", o.md.channel);
    need("generated_at", o.md.generated_at);
    if (o.md.notes_url) need("notes_url", *o.md.notes_url);
    bool dl_pair = false;
    std::vector<const RNode*> entries_all;
    for (auto& m : root.members) {
        if (m.key != "downloads") continue;
        const RNode& dn = rj.nodes[static_cast<std::size_t>(m.node)];
        if (dn.kind != K::Obj) continue;
        for (auto& e : dn.members) {
            dl_pair = dl_pair || e.key_pair;
            const RNode& en = rj.nodes[static_cast<std::size_t>(e.node)];
            if (en.kind != K::Obj) continue;
            for (auto& f : en.members) {
                const RNode& fn = rj.nodes[static_cast<std::size_t>(f.node)];
                dl_pair = dl_pair || f.key_pair || (fn.kind == K::Str && fn.pair);
            }
        }
    }
    for (auto& d : o.md.downloads) {
        bool found = false;
        for (auto& m : root.members) {
            if (m.key != "downloads" || found) continue;
            const RNode& dn = rj.nodes[static_cast<std::size_t>(m.node)];
            if (dn.kind != K::Obj) continue;
            for (auto& e : dn.members) {
                if (e.key != d.platform) continue;
                const RNode& en = rj.nodes[static_cast<std::size_t>(e.node)];
                if (en.kind != K::Obj) continue;
                if (!strs(en, "url").has(d.url)) continue;
                if (!d.arch.empty() && !strs(en, "arch").has(d.arch)) continue;
                if (!d.format.empty() && !strs(en, "format").has(d.format)) continue;
                if (d.sha256 && !strs(en, "sha256").has(*d.sha256)) continue;
                found = true;
                break;
            }
        }
        if (!found)
            c.fail(dl_pair ? kSigSurrogate : "C38:downloads-mismatch",
                   "reported download [" + show(d.platform) + " url=" + show(d.url) + " arch=" + show(d.arch) + " format=" + show(d.format) + " sha256=" + (d.sha256 ? show(*d.sha256) : "-") +
                       "] does not correspond to an object member of \"downloads\" with those JSON strings");
    }
}

struct Plan {
    std::string doc;
    const Model* model = nullptr;   // document rendered from this model with unique keys
    bool canonical = false;         // must be accepted
    std::size_t built_depth = 0;    // nesting depth known by construction (nesting mode)
};

// totality + metamorphic + exact run; returns the outcome used for the field oracles (nullopt = nothing more to check)
std::optional<Outcome> run_total(Ctx& c, const std::string& doc, std::size_t depth_hint) {
    std::size_t brackets = std::max(depth_hint, bracket_depth(doc));
    if (brackets > 64) c.nt("depth_gt_64");
    Outcome o;
    if (brackets > kInProcessBrackets) {
        c.label("forked_child");
        std::string how;
        Child st = call_forked(doc, o, how);
        if (st == Child::Broken) c.fail("C38:harness-error", "forked execution failed: " + how);
        if (st == Child::Starved) { c.label("child_starved_inconclusive"); return std::nullopt; }
        if (st == Child::Hang) c.fail("C38:hang", "parsing a " + std::to_string(doc.size()) + "-byte document (nesting <= " + std::to_string(brackets) + ") did not return: " + how);
        if (st == Child::Crashed)
            c.fail(kSigRecursion, "parsing a " + std::to_string(doc.size()) + "-byte document with nesting depth " + std::to_string(brackets) +
                                      " ended the process (" + how + "): recursion depth is not bounded");
    } else {
        // the outcome may not depend on the byte that follows the input
        static const char nexts[] = {'\0', '"', '7', ' ', 'x'};
        Outcome base = call_followed_by(doc, nexts[0]);
        bool differs = false;
        char which = 0;
        for (std::size_t i = 1; i < sizeof nexts && !differs; ++i) {
            Outcome alt = call_followed_by(doc, nexts[i]);
            if (!same_outcome(base, alt)) {
                differs = true;
                which = nexts[i];
                if (!c.is_known(kSigOverread))
                    c.fail(kSigOverread, std::string("the result depends on the byte after the end of the input: followed by NUL -> ") +
                                             (base.ok ? "success" : "\"" + base.err + "\"") + ", followed by '" + which + "' -> " +
                                             (alt.ok ? "success" : "\"" + alt.err + "\"") + " (read past the end of the string_view)");
            }
        }
        if (differs) {
            c.count_excluded(kSigOverread);
            c.label("tolerated_known_overread");
            o = base;  // NUL-padded buffer while the finding is listed
        } else {
            o = call_exact(doc);  // ASan guards the exact-size copy
            if (!same_outcome(base, o)) c.fail(kSigOverread, "exact-size buffer gives a different outcome than the padded one");
        }
    }
    if (o.threw) c.fail("C38:exception-escapes", o.err);
    if (!o.ok && o.err.empty()) c.fail("C38:failure-without-message", "returned false with an empty error message");
    c.label(o.ok ? "accepted" : "rejected");
    if (!o.ok) c.note("-> error %s", show(o.err, 60).c_str());
    else c.note("-> ok");
    return o;
}

void judge_plan(Ctx& c, const Plan& pl) {
    auto got = run_total(c, pl.doc, pl.built_depth);
    if (!got) return;
    const Outcome& o = *got;
    if (pl.canonical) {
        c.label("canonical");
        if (!o.ok) c.fail("C38:canonical-document-rejected", "a strict RFC 8259 metadata document was rejected with \"" + o.err + "\"");
    }
    if (!o.ok) return;
    if (pl.model) {
        judge_model(c, *pl.model, o);
        return;
    }
    if (pl.doc.size() > (1u << 20)) return;
    RefJson rj;
    ref_parse(pl.doc, rj);
    if (!rj.ok) {
        c.label("accepted_but_not_strict_json");
        if (std::getenv("VERIF_C38_DEBUG")) std::fprintf(stderr, "LENIENT %s | %s\n", rj.err.c_str(), show(pl.doc, 400).c_str());
        return;
    }
    judge_general(c, rj, o);
}

// ================================================================================================
// Case construction
// ================================================================================================
const std::uint8_t kModeTable[16] = {0, 0, 1, 2, 4, 0, 1, 4, 0, 3, 0, 2, 1, 4, 0, 0};
const std::int64_t kDepthTable[] = {0, 1, 2, 10, 31, 32, 33, 64, 65, 100, 400, 500, 501, 1000, 5000, 20000, 100000, 1000000};

const char* const kTokens[] = {
    "{", "}", "[", "]", ":", ",", "\"", "\"\"", "\"a\"", "\"version\"", "\"tag\"", "\"commit\"", "\"channel\"", "\"generated_at\"",
    "\"notes_url\"", "\"downloads\"", "\"url\"", "\"arch\"", "\"format\"", "\"sha256\"", "\"linux\"", "-", "0", "1", "12", ".", "5", "e", "E", "+",
    "true", "false", "null", "tru", "nul", "\\", "\\u", "\\u00e9", "\\ud83d", "\\ude00", "\\n", "\\/", "\\x", " ", "\n", "\t", "\r", "a", "\xc3\xa9",
    "\xf0\x9f\x98\x80", "\x01", "\xff", "{\"", "\":", "\":\"", "\",\"", "\"}", "\":{\"", "\"}}", ":\"x\"", "-0", "1e5", "1.", "[[", "]]", "{}", "[]"};
constexpr std::size_t kNumTokens = sizeof kTokens / sizeof kTokens[0];

Model build_model(Ctx& c, RenderCtx& rc, std::string& fields_desc) {
    const Tape& t = c.tape;
    Model m;
    MDl first;
    first.platform = ascii("linux");
    first.url = ascii("u");
    m.dls.push_back(first);
    for (std::size_t i = 0; i < t.nrec() && i < 48; ++i) {
        Rec r = t.r(i);
        JStr s = gen_jstr(r);
        unsigned target = r.op() % 16;
        const char* name = "";
        switch (target) {
            case 0: m.version = s; name = "version"; break;
            case 1: m.tag = s; name = "tag"; break;
            case 2: m.commit = s; name = "commit"; break;
            case 3: m.channel = s; name = "channel"; break;
            case 4: m.generated_at = s; name = "generated_at"; break;
            case 5: m.notes_url = s; m.odd_notes = 0; name = "notes_url"; break;
            case 6: {
                if (m.dls.size() >= 4) { m.dls.back().url = s; name = "url"; break; }
                MDl d;
                d.platform = s;
                d.url = ascii("u2");
                m.dls.push_back(d);
                name = "platform";
                break;
            }
            case 7: m.dls.back().url = s; name = "url"; break;
            case 8: m.dls.back().arch = s; m.dls.back().odd_arch = 0; name = "arch"; break;
            case 9: m.dls.back().format = s; m.dls.back().odd_format = 0; name = "format"; break;
            case 10: m.dls.back().sha256 = s; m.dls.back().odd_sha = 0; name = "sha256"; break;
            case 11: {
                Model::Extra e;
                e.key = ascii(("x" + std::to_string(m.root_extras.size())).c_str());
                e.kind = 0;
                e.sval = s;
                m.root_extras.push_back(e);
                name = "extra";
                break;
            }
            case 12: m.escape_keys = true; name = "escape-keys"; break;
            case 13: {  // member of "downloads" whose value is not an object: to be skipped
                Model::Extra e;
                e.key = s;
                e.kind = 1;
                e.raw = odd_value(1 + r.a(0) % 3);
                if (e.raw[0] == '{') e.raw = "17";
                m.skipped_downloads.push_back(e);
                m.strict_schema = false;
                name = "non-object-download";
                break;
            }
            case 14: {  // an optional member with a non-string value: not reported
                int k = 1 + r.a(0) % 5;
                switch (r.a(1) % 4) {
                    case 0: m.notes_url.reset(); m.odd_notes = k; name = "notes_url:non-string"; break;
                    case 1: m.dls.back().arch.reset(); m.dls.back().odd_arch = k; name = "arch:non-string"; break;
                    case 2: m.dls.back().format.reset(); m.dls.back().odd_format = k; name = "format:non-string"; break;
                    default: m.dls.back().sha256.reset(); m.dls.back().odd_sha = k; name = "sha256:non-string"; break;
                }
                m.strict_schema = false;
                break;
            }
            default: m.version = s; name = "version"; break;
        }
        if (fields_desc.size() < 300) {
            fields_desc += name;
            if (target <= 11 || target == 13 || target == 15) fields_desc += "=" + show(s.utf8(), 24) + "/s" + std::to_string(s.style);
            fields_desc += ";";
        }
    }
    // platform keys (and skipped keys) must be unique so that "the corresponding JSON string" is unambiguous
    std::set<std::string> seen;
    auto uniq = [&](JStr& k) {
        while (!seen.insert(k.utf8()).second) k.cps.push_back(U'0' + static_cast<char32_t>(seen.size() % 10));
    };
    for (auto& d : m.dls) uniq(d.platform);
    for (auto& e : m.skipped_downloads) uniq(e.key);
    (void)rc;
    return m;
}

void add_header_extras(Ctx& c, Model& m, RenderCtx& rc, Prng& p, const std::string& ws1) {
    unsigned n = c.tape.h(3) % 4;
    for (unsigned i = 0; i < n; ++i) {
        Model::Extra e;
        e.key = ascii(("y" + std::to_string(i)).c_str());
        e.kind = 1;
        e.raw = gen_value(p, rc, 0, ws1);
        m.root_extras.push_back(e);
    }
    if (n) c.label("unknown_members");
}

std::string nest(unsigned kind, std::size_t depth, bool closed) {
    std::string d;
    auto open = [&](std::size_t i) -> const char* { return kind == 0 ? "[" : kind == 1 ? "{\"a\":" : (i % 2 ? "{\"a\":" : "["); };
    d.reserve(depth * 6 + 8);
    for (std::size_t i = 0; i < depth; ++i) d += open(i);
    if (closed) {
        d += depth && (kind == 1 || (kind == 2 && (depth - 1) % 2)) ? "0" : "";
        if (depth == 0) d += "0";
        for (std::size_t i = depth; i-- > 0;) d += (kind == 0 || (kind == 2 && i % 2 == 0)) ? "]" : "}";
    }
    return d;
}

void finish_labels(Ctx& c, const RenderCtx& rc) {
    if (rc.any_escape) c.nt("has_escape");
    if (rc.any_u) c.label("u_escape");
    if (rc.any_pair) c.label("surrogate_pair_escape");
    if (rc.any_nonbmp) c.label("non_bmp_char");
    if (rc.any_multibyte) c.label("multibyte_char");
}
}  // namespace

void run_case(Ctx& c) {
    const Tape& t = c.tape;
    unsigned mode = kModeTable[t.h(0) % 16];
    RenderCtx rc{c, c.is_known(kSigSurrogate)};
    Prng hp(t.h32(12) ^ 0xC38);
    unsigned ws_level = t.h(1) % 4;
    std::string ws1 = ws_level ? " " : "";

    if (mode == 0 || mode == 1) {
        std::string fields;
        Model m = build_model(c, rc, fields);
        add_header_extras(c, m, rc, hp, ws1);
        Renderer r(rc, t.h32(12) ^ 0x9E3, ws_level, t.h(2) != 0);
        Plan pl;
        pl.doc = render_model(m, r, nullptr);
        c.note("%s ws=%u shuffle=%u fields{%s}", mode == 0 ? "model" : "mutated", ws_level, t.h(2) != 0, fields.c_str());
        finish_labels(c, rc);
        if (m.escape_keys) c.label("escaped_key_names");
        if (!m.strict_schema) c.label("non_string_optional_or_skipped_download");
        if (mode == 0) {
            c.label("mode_model");
            c.note("doc=%s", show(pl.doc, 160).c_str());
            pl.model = &m;
            pl.canonical = m.strict_schema;
            judge_plan(c, pl);
            return;
        }
        c.label("mode_mutated");
        std::string& d = pl.doc;
        std::size_t off = d.empty() ? 0 : (t.h(5) | (t.h(6) << 8)) % (d.size() + 1);
        static const char repl[] = "\"{}[]:,\\u-0e.t \x80";
        char ch = repl[t.h(7) % (sizeof repl - 1)];
        switch (t.h(4) % 4) {
            case 0: d.resize(off); c.nt("truncated"); c.note("truncate@%zu", off); break;
            case 1: if (off < d.size()) d.erase(off, 1); c.label("byte_deleted"); c.note("delete@%zu", off); break;
            case 2: if (off < d.size()) d[off] = ch; c.label("byte_replaced"); c.note("replace@%zu:%02x", off, static_cast<unsigned char>(ch)); break;
            default: d.insert(off, 1, ch); c.label("byte_inserted"); c.note("insert@%zu:%02x", off, static_cast<unsigned char>(ch)); break;
        }
        c.note("doc=%s", show(d.size() > 120 ? d.substr(d.size() - 120) : d, 160).c_str());
        judge_plan(c, pl);
        return;
    }

    if (mode == 2) {
        c.label("mode_nesting");
        unsigned kind = t.h(7) % 3;
        bool embedded = (t.h(7) / 3) % 2;
        bool closed = (t.h(11) & 3) != 3 || embedded;
        std::size_t depth = (t.h(8) & 0x80) ? static_cast<std::size_t>(kDepthTable[(t.h(8) & 0x7F) % 18]) : t.h16(9) % 601;
        if (c.is_known(kSigRecursion) && depth > kKnownDepthCap - 4) {
            c.count_excluded(kSigRecursion);
            depth = kKnownDepthCap - 4 - (depth % 7);
        }
        Plan pl;
        Model m;
        MDl first;
        first.platform = ascii("linux");
        first.url = ascii("u");
        m.dls.push_back(first);
        std::string deep = nest(kind, depth, closed);
        if (embedded) {
            Renderer r(rc, t.h32(12), ws_level, t.h(2) != 0);
            pl.doc = render_model(m, r, &deep);
            pl.model = &m;
            pl.built_depth = depth + 1;
            pl.canonical = depth + 1 <= 32;
        } else {
            pl.doc = deep;
            pl.built_depth = depth;
        }
        if (!closed) c.nt("truncated");
        c.note("nesting kind=%u depth=%zu %s %s bytes=%zu", kind, depth, embedded ? "as-unknown-member" : "bare", closed ? "closed" : "unclosed", pl.doc.size());
        judge_plan(c, pl);
        return;
    }

    Plan pl;
    if (mode == 3) {
        c.label("mode_raw");
        if (t.bytes.size() > t.header) pl.doc.assign(reinterpret_cast<const char*>(t.bytes.data()) + t.header, t.bytes.size() - t.header);
    } else {
        c.label("mode_token_soup");
        // h(4)&1: start like an object so that more of the parser is reached
        if (t.h(4) & 1) pl.doc = "{\"version\":";
        for (std::size_t i = t.header; i < t.bytes.size() && pl.doc.size() < 4096; ++i) pl.doc += kTokens[t.bytes[i] % kNumTokens];
    }
    if (c.is_known(kSigRecursion) && bracket_depth(pl.doc) > kKnownDepthCap) {
        c.count_excluded(kSigRecursion);
        throw CaseExcluded{kSigRecursion};
    }
    if (pl.doc.find('\\') != std::string::npos) c.nt("has_escape");
    c.note("doc=%s", show(pl.doc, 200).c_str());
    judge_plan(c, pl);
}

std::string run_once(Ctx& c) {
    if (std::getenv("VERIF_SKIP_ONCE")) return "";
    // --- reference parser self-check (JSONTestSuite-style mini vectors)
    struct V { const char* doc; bool valid; const char* str; };
    const V vs[] = {
        {"\"\\u00e9\"", true, "\xc3\xa9"}, {"\"\\ud83d\\ude00\"", true, "\xf0\x9f\x98\x80"}, {"\"\\uD834\\uDD1E\"", true, "\xf0\x9d\x84\x9e"},
        {"\"\\/\\\\\\\"\\b\\f\\n\\r\\t\"", true, "/\\\"\b\f\n\r\t"}, {"\"\\u20AC\"", true, "\xe2\x82\xac"}, {"\"\xe2\x82\xac\"", true, "\xe2\x82\xac"},
        {"\"\\ud800\"", false, ""}, {"\"\\udc00\"", false, ""}, {"\"\\ud800\\u0041\"", false, ""}, {"\"\\x\"", false, ""}, {"\"\\u12\"", false, ""},
        {"\"a\nb\"", false, ""}, {"\"\xff\"", false, ""}, {"\"\xc0\xaf\"", false, ""}, {"\"\xed\xa0\x80\"", false, ""}, {"\"abc", false, ""},
        {"[1,]", false, ""}, {"{\"a\":1,}", false, ""}, {"01", false, ""}, {"-", false, ""}, {"1.", false, ""}, {"1e", false, ""}, {"truE", false, ""},
        {"[] x", false, ""}, {"", false, ""}, {"{", false, ""}, {"{\"a\"}", false, ""}, {"[1 2]", false, ""}, {"+1", false, ""}, {".5", false, ""},
        {" [ ] ", true, nullptr}, {"{}", true, nullptr}, {"[[[]]]", true, nullptr}, {"-0.5e+10", true, nullptr}, {"{\"a\":{\"b\":[1,true,null,\"x\"]}}", true, nullptr},
        {"\t\r\n 0", true, nullptr}};
    for (auto& v : vs) {
        RefJson rj;
        ref_parse(v.doc, rj);
        if (rj.ok != v.valid) c.fail("C38:harness-error", std::string("reference parser ") + (rj.ok ? "accepts " : "rejects ") + show(v.doc));
        if (v.valid && v.str && rj.nodes[static_cast<std::size_t>(rj.root)].str != v.str) c.fail("C38:harness-error", std::string("reference parser decodes ") + show(v.doc) + " wrongly");
    }
    // --- the repository's own sample document through the general oracle
    {
        const std::string sample =
            "{\n  \"version\": \"1.2.3\",\n  \"tag\": \"v1.2.3\",\n  \"commit\": \"abc123\",\n  \"channel\": \"stable\",\n  \"generated_at\": \"2025-11-24T00:00:00Z\",\n"
            "  \"notes_url\": \"https://example.com/release\",\n  \"downloads\": {\n    \"linux\": {\n      \"url\": \"https://example.com/linux\",\n      \"arch\": \"x64\",\n"
            "      \"format\": \"tar.gz\",\n      \"sha256\": \"deadbeef\"\n    }\n  }\n}";
        Outcome o = call_exact(sample);
        RefJson rj;
        ref_parse(sample, rj);
        if (!rj.ok) c.fail("C38:harness-error", "reference parser rejects the repository sample: " + rj.err);
        if (!o.ok) c.fail("C38:canonical-document-rejected", "the repository's sample metadata was rejected: " + o.err);
        judge_general(c, rj, o);
    }
    // --- nesting ladder in forked children
    std::string note = "reference JSON parser passed 36 mini vectors; ";
    std::size_t first_crash = 0;
    unsigned crash_kind = 0;
    std::string crash_how;
    for (std::size_t depth : {100u, 500u, 1000u, 5000u, 20000u, 100000u, 1000000u}) {
        for (unsigned kind = 0; kind < 2 && !first_crash; ++kind) {
            Outcome o;
            std::string how;
            Child st = call_forked(nest(kind, depth, true), o, how);
            if (st == Child::Broken) c.fail("C38:harness-error", "forked execution failed: " + how);
            if (st == Child::Starved) continue;
            if (st == Child::Hang) c.fail("C38:hang", "nesting depth " + std::to_string(depth) + ": " + how);
            if (st == Child::Crashed) { first_crash = depth; crash_kind = kind; crash_how = how; }
        }
        if (first_crash) break;
    }
    if (first_crash) {
        // not failed here: the same shape is generated by the nesting mode of run_case (about 2 % of the cases),
        // which yields a replayable, shrinkable tape; this part only records where the process ends
        c.note("ladder: %s x %zu", crash_kind ? "{\"a\":" : "[", first_crash);
        note += "nesting ladder 100..10^6 ('[' and '{\"a\":', forked children): process ends at depth " + std::to_string(first_crash) + " (" + crash_how + ")";
        if (c.is_known(kSigRecursion)) {
            c.count_excluded(kSigRecursion);
            note += "; listed finding, generator capped at depth " + std::to_string(kKnownDepthCap);
        }
    } else {
        note += "nesting ladder 100, 500, 1000, 5000, 20000, 10^5, 10^6 ('[' and '{\"a\":', forked children): every depth returned";
    }
    return note;
}

std::vector<std::vector<std::uint8_t>> seed_tapes() {
    std::vector<std::vector<std::uint8_t>> out;
    auto raw = [&](const std::string& doc) {
        std::vector<std::uint8_t> t(16, 0);
        t[0] = 9;  // kModeTable[9] == 3: raw
        t.insert(t.end(), doc.begin(), doc.end());
        out.push_back(t);
    };
    raw("{\"version\":\"1.2.3\",\"tag\":\"v1.2.3\",\"commit\":\"abc123\",\"channel\":\"stable\",\"generated_at\":\"2025-11-24T00:00:00Z\","
        "\"notes_url\":\"https://example.com/release\",\"downloads\":{\"linux\":{\"url\":\"https://example.com/linux\",\"arch\":\"x64\",\"format\":\"tar.gz\",\"sha256\":\"deadbeef\"}}}");
    raw("{\"version\":\"\\u00e9\\n\\/\",\"tag\":\"\xf0\x9f\x98\x80\",\"commit\":\"\",\"channel\":\"s\",\"generated_at\":\"t\",\"x\":[1,-2.5e3,true,false,null,{\"k\":[]}],"
        "\"downloads\":{\"w\":{\"url\":\"u\"},\"skip\":7}}");
    raw("[[[[[[[[[[0]]]]]]]]]]");
    raw("{\"a\":{\"a\":{\"a\":{\"a\":{\"a\":0}}}}}");
    // nesting mode: every table depth, both kinds, bare
    for (std::uint8_t sel = 0; sel < 18; ++sel)
        for (std::uint8_t kind = 0; kind < 2; ++kind) {
            std::vector<std::uint8_t> t(16, 0);
            t[0] = 3;  // nesting
            t[7] = kind;
            t[8] = static_cast<std::uint8_t>(0x80 | sel);
            out.push_back(t);
        }
    // model mode: one record per class/style
    for (std::uint8_t k = 0; k < 6; ++k) out.push_back({0, 1, 1, 1, 0, 0, 0, 0, 0, 0, 0, 0, k, 0, 0, 0, /*rec*/ k, 5, static_cast<std::uint8_t>(1u << k), 0xFF, k, 1, 2, 3});
    return out;
}
}  // namespace verif
