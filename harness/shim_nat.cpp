// Internals shim: reaches the anonymous-namespace STUN parser of NatTraversal.cpp by including the
// repository source.  This object is
// libeph.a, so the archive member NatTraversal.o is not pulled in; NatTraversalManager (and its
// set_test_hooks, used by C34) comes from this TU unchanged.
// Resolved through the Makefile's -I$(REPO)/include (a macro-expanded #include cannot concatenate
// VERIF_REPO with a path), so REPO=/tmp/... scratch copies are honoured as well.
#include "../src/network/NatTraversal.cpp"

#include "shim_nat.hpp"

namespace shim_nat {
StunResult parse_stun_response(const std::uint8_t* data, std::size_t length,
                               const std::array<std::uint8_t, 12>& transaction_id) {
    StunResult out;
    auto r = ephemeralnet::network::parse_stun_response(data, length, transaction_id);
    if (r.has_value()) {
        out.has_value = true;
        out.address = r->address;
        out.port = r->port;
    }
    return out;
}

std::uint32_t magic_cookie() { return ephemeralnet::network::kStunMagicCookie; }
}  // namespace shim_nat
