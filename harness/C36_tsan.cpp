// C36 — daemon threads never race on shared node state (DESIGN.md 5/C36).
//
// ThreadSanitizer workload: this executable (g++ -fsanitize=thread, linked against build/tsan/libeph.a)
// decodes ONE workload tape and reproduces, in one process, the thread structure of `eph serve` for 2-4
// daemons:
//   * per daemon a "main" thread that does what src/main.cpp does: start_transport under the node mutex,
//     then tick() under the node mutex at a generated cadence until asked to stop, then stop_transport under
//     the mutex and ControlServer::stop();
//   * per daemon a real daemon::ControlServer (its accept thread runs the handlers under the node mutex);
//   * the real transport accept thread and one reader thread per session (SessionManager);
//   * control clients on their own threads (raw TCP, like the CLI): STORE/FETCH/LIST/STATUS/DEFAULTS/METRICS/
//     DIAGNOSTICS/PING/STOP;
//   * "ghost" peers: harness threads that speak the transport protocol over TCP (identity, PoW handshake,
//     encrypted+signed announce/request/chunk/ack/garbage frames, reconnects) exactly as a remote process would.
// The harness touches node state only in the ways the daemon's own threads do.  All harness-side bookkeeping
// shared with repository threads uses relaxed atomics (no happens-before edges are added that the daemon would
// not have).  The oracle is ThreadSanitizer's happens-before detector; its reports are written to
// TSAN_OPTIONS=log_path=... and reduced to signatures by harness/C36_run.py.
//
// Time: steady_clock/system_clock are interposed with a *scaled* clock (virtual = real x speed, speed from the
// tape) so that key rotation (>= 5 s), handshake cooldown, TTL expiry and sweeps happen inside a workload of
// about a second.  The scale returns to 1 before the shutdown sequence.
//
// usage: C36_tsan --tape FILE --out RESULT.json [--keep-stderr] | --describe --tape FILE
#include "ephemeralnet/core/Node.hpp"
#include "ephemeralnet/crypto/ChaCha20.hpp"
#include "ephemeralnet/daemon/ControlPlane.hpp"
#include "ephemeralnet/network/SessionManager.hpp"
#include "ephemeralnet/protocol/Manifest.hpp"
#include "ephemeralnet/protocol/Message.hpp"

#include "verif.hpp"

#include <arpa/inet.h>
#include <atomic>
#include <cerrno>
#include <chrono>
#include <cstdarg>
#include <cstdio>
#include <csignal>
#include <cstdlib>
#include <fcntl.h>
#include <memory>
#include <mutex>
#include <netinet/in.h>
#include <netinet/tcp.h>
#include <poll.h>
#include <string>
#include <sys/socket.h>
#include <thread>
#include <time.h>
#include <unistd.h>
#include <vector>

// ------------------------------------------------------------------------------------------------------
// scaled virtual clock (symbol interposition, as harness/vclock.cpp does for the frozen clock)
// ------------------------------------------------------------------------------------------------------
namespace vt {
constexpr std::int64_t kSteady0 = 1'000'000'000'000'000LL;
constexpr std::int64_t kWall0 = 1'800'000'000'000'000'000LL;
std::atomic<std::int64_t> g_speed{1};
std::atomic<std::int64_t> g_real0{0};
std::atomic<std::int64_t> g_real_unscale{INT64_MAX};  // after this real instant time runs at 1x again

inline std::int64_t real_ns() {
    timespec ts{};
    clock_gettime(CLOCK_MONOTONIC, &ts);
    return static_cast<std::int64_t>(ts.tv_sec) * 1'000'000'000LL + ts.tv_nsec;
}
inline std::int64_t virt_ns() {
    const std::int64_t r = real_ns();
    const std::int64_t r0 = g_real0.load(std::memory_order_relaxed);
    if (r0 == 0) return 0;
    const std::int64_t cap = g_real_unscale.load(std::memory_order_relaxed);
    const std::int64_t sp = g_speed.load(std::memory_order_relaxed);
    const std::int64_t scaled_part = (r < cap ? r : cap) - r0;
    const std::int64_t tail = r > cap ? r - cap : 0;
    return scaled_part * sp + tail;
}
void start(std::int64_t speed) {  // before any other thread exists
    g_speed.store(speed, std::memory_order_relaxed);
    g_real0.store(real_ns(), std::memory_order_relaxed);
}
void unscale() { g_real_unscale.store(real_ns(), std::memory_order_relaxed); }
}  // namespace vt

namespace std {
namespace chrono {
inline namespace _V2 {
steady_clock::time_point steady_clock::now() noexcept { return time_point(nanoseconds(vt::kSteady0 + vt::virt_ns())); }
system_clock::time_point system_clock::now() noexcept { return time_point(nanoseconds(vt::kWall0 + vt::virt_ns())); }
}  // namespace _V2
}  // namespace chrono
}  // namespace std

// ------------------------------------------------------------------------------------------------------
namespace ephemeralnet::test {
class NodeTestAccess {
public:
    static bool apply_announce_pow(Node& n, protocol::AnnouncePayload& p) { return n.apply_announce_pow(p); }
};
}  // namespace ephemeralnet::test

namespace {
using namespace ephemeralnet;
using verif::Prng;

void real_sleep_us(std::int64_t us) {
    if (us <= 0) return;
    timespec ts{};
    ts.tv_sec = us / 1'000'000;
    ts.tv_nsec = (us % 1'000'000) * 1000;
    while (nanosleep(&ts, &ts) != 0 && errno == EINTR) {
    }
}

void actor_wait(int delay_us, bool align) {
    real_sleep_us(delay_us);
    if (!align) return;
    timespec ts{};
    clock_gettime(CLOCK_MONOTONIC, &ts);
    const std::int64_t now_us = static_cast<std::int64_t>(ts.tv_sec) * 1'000'000 + ts.tv_nsec / 1000;
    real_sleep_us(16000 - now_us % 16000);
}

// ---- activity bookkeeping (relaxed atomics only: must not create happens-before edges) ---------------
enum Kind { K_CTL = 0, K_TICK = 1, K_HS = 2, K_MSG = 3, K_N = 4 };
const char* kKindName[K_N] = {"ctl", "tick", "hs", "msg"};
struct Activity {
    std::atomic<int> in[K_N]{};
    std::atomic<std::uint64_t> count[K_N]{};
    std::atomic<unsigned> pairs{0};  // bit (a*4+b), a<b : kinds a and b were in progress on this node at the same time
    void check(int k) {
        for (int o = 0; o < K_N; ++o) {
            if (o == k) continue;
            if (in[o].load(std::memory_order_relaxed) > 0) {
                int a = k < o ? k : o, b = k < o ? o : k;
                pairs.fetch_or(1u << (a * 4 + b), std::memory_order_relaxed);
            }
        }
    }
    void begin(int k) {
        count[k].fetch_add(1, std::memory_order_relaxed);
        in[k].fetch_add(1, std::memory_order_relaxed);
        check(k);
    }
    void end(int k) { in[k].fetch_sub(1, std::memory_order_relaxed); }
    void point(int k) {
        count[k].fetch_add(1, std::memory_order_relaxed);
        check(k);
    }
};

struct Counters {
    std::atomic<std::uint64_t> ctl_ok[16]{};
    std::atomic<std::uint64_t> ctl_err[16]{};
    std::atomic<std::uint64_t> ctl_noresp{0};
    std::atomic<std::uint64_t> ghost_hs_ok{0}, ghost_hs_fail{0}, ghost_sent[8]{}, ghost_reply_bytes{0};
    std::atomic<std::uint64_t> hs_pow_success{0}, ann_pow_success{0};
    std::atomic<std::uint64_t> stopped_midrun{0};
} g_cnt;

// ---- workload ---------------------------------------------------------------------------------------------
constexpr std::size_t kHeader = 16, kRec = 8, kMaxRecs = 64;
enum CtlOp { C_STATUS, C_STORE, C_LIST, C_FETCH, C_DEFAULTS, C_METRICS, C_DIAGNOSTICS, C_PING, C_STOP, C_NOPS };
const char* kCtlName[C_NOPS] = {"STATUS", "STORE", "LIST", "FETCH", "DEFAULTS", "METRICS", "DIAGNOSTICS", "PING", "STOP"};
enum GhostOp { G_CONNECT, G_ANNOUNCE, G_CHUNK, G_REQUEST, G_ACK, G_ANNOUNCE_ASSIGNED, G_CLOSE, G_GARBAGE, G_NOPS };
const char* kGhostName[G_NOPS] = {"CONNECT", "ANNOUNCE", "CHUNK", "REQUEST", "ACK", "ANNOUNCE+shards", "CLOSE", "GARBAGE"};

struct Action {
    bool ghost = false;
    int actor = 0;  // client index or ghost index
    int op = 0;
    int target = 0;
    int a = 0, b = 0;
    int delay_us = 0;
    bool align = false;  // after the delay, wait for the next 16 ms boundary of the real clock: actors fire together
    std::uint64_t seed = 0;
};
struct Workload {
    int nodes = 2, ghosts = 0, clients = 1;
    int personas = 1;  // peer identities per ghost thread (each has its own key pair, sessions and chunks)
    int speed = 1, tick_ms = 20;
    int rotation_s = 3600, cooldown_s = 5, pow_hs = 0, pow_ann = 0, cleanup_s = 300, min_ttl_s = 30;
    bool ghost_bootstrap = false;  // daemons list the ghosts as bootstrap peers (id, 127.0.0.1:9, public identity)
    int topology = 0, retry_backoff_s = 3, upload_parallel = 3, replicas = 3, linger_ms = 100;
    bool allow_midrun_stop = false, final_stop_cmd = false;
    bool focus = false;  // three quarters of the actions go to node 0
    int final_stop_node = 0;
    std::uint64_t seed = 0;
    std::vector<std::vector<Action>> per_actor;  // clients first, then ghosts
    std::string desc;
};

void appendf(std::string& s, const char* fmt, ...) {
    char buf[256];
    va_list ap;
    va_start(ap, fmt);
    int n = vsnprintf(buf, sizeof buf, fmt, ap);
    va_end(ap);
    if (n > 0) s.append(buf, std::min<std::size_t>(static_cast<std::size_t>(n), sizeof buf - 1));
}

Workload decode(const std::vector<std::uint8_t>& bytes) {
    verif::Tape t;
    t.bytes = bytes;
    t.header = kHeader;
    t.rec = kRec;
    Workload w;
    static const int kNodes[4] = {2, 3, 3, 4};
    static const int kSpeed[4] = {1, 8, 32, 32};
    static const int kTick[4] = {20, 10, 5, 2};
    static const int kRot[4] = {3600, 5, 5, 7};
    static const int kCool[4] = {5, 1, 0, 2};
    static const int kPowHs[3] = {0, 2, 4};
    static const int kPowAnn[3] = {0, 3, 6};
    static const int kCleanup[4] = {300, 1, 2, 5};
    static const int kMinTtl[4] = {30, 1, 2, 5};
    static const int kBackoff[2] = {3, 1};
    static const int kUpPar[3] = {3, 1, 0};
    static const int kRepl[3] = {3, 1, 2};
    static const int kLinger[4] = {100, 300, 600, 1000};
    w.nodes = kNodes[t.h(0) % 4];
    w.ghosts = t.h(1) % 4;
    w.clients = 1 + t.h(2) % 3;
    w.speed = kSpeed[t.h(3) % 4];
    w.tick_ms = kTick[t.h(4) % 4];
    w.rotation_s = kRot[t.h(5) % 4];
    w.cooldown_s = kCool[t.h(6) % 4];
    w.pow_hs = kPowHs[t.h(7) % 3];
    w.pow_ann = kPowAnn[(t.h(7) / 3) % 3];
    w.cleanup_s = kCleanup[t.h(8) % 4];
    w.min_ttl_s = kMinTtl[t.h(9) % 4];
    w.topology = t.h(10) % 3;
    w.ghost_bootstrap = ((t.h(10) / 3) % 2) != 0;
    w.retry_backoff_s = kBackoff[t.h(11) % 2];
    w.upload_parallel = kUpPar[(t.h(11) / 2) % 3];
    w.replicas = kRepl[(t.h(11) / 6) % 3];
    w.linger_ms = kLinger[t.h(12) % 4];
    w.final_stop_cmd = (t.h(13) & 1) != 0;
    w.allow_midrun_stop = (t.h(13) & 2) != 0;
    w.final_stop_node = (t.h(13) >> 2) % w.nodes;
    w.focus = (t.h(14) % 4) >= 2;
    w.personas = 1 + t.h(15) % 4;
    w.seed = t.header_seed();
    const int actors = w.clients + w.ghosts;
    w.per_actor.resize(static_cast<std::size_t>(actors));
    appendf(w.desc, "nodes=%d ghosts=%dx%d clients=%d speed=%dx tick=%dms rot=%ds cooldown=%ds pow=%d/%d cleanup=%ds minttl=%ds topo=%s%s backoff=%ds uppar=%d repl=%d linger=%dms final=%s%s |",
            w.nodes, w.ghosts, w.personas, w.clients, w.speed, w.tick_ms, w.rotation_s, w.cooldown_s, w.pow_hs, w.pow_ann, w.cleanup_s, w.min_ttl_s,
            w.topology == 0 ? "mesh" : (w.topology == 1 ? "star" : "chain"), w.ghost_bootstrap ? "+ghosts" : "", w.retry_backoff_s, w.upload_parallel, w.replicas, w.linger_ms,
            w.final_stop_cmd ? "STOP-cmd" : "signal", w.focus ? " focus=n0" : "");
    std::size_t n = std::min(t.nrec(), kMaxRecs);
    bool stop_used = false;
    for (std::size_t i = 0; i < n; ++i) {
        verif::Rec r = t.r(i);
        Action a;
        int actor = r.at(0) % actors;
        a.ghost = actor >= w.clients;
        a.actor = a.ghost ? actor - w.clients : actor;
        a.target = w.focus ? ((r.at(2) & 3) == 3 ? (r.at(2) >> 2) % w.nodes : 0) : r.at(2) % w.nodes;
        a.a = r.at(3);
        a.b = r.at(4);
        a.delay_us = (r.at(5) >> 1) * 400;
        a.align = (r.at(5) & 1) != 0;
        a.seed = r.seed();
        if (a.ghost) {
            a.op = r.at(1) % G_NOPS;
            appendf(w.desc, " g%d.%d>n%d:%s(%d,%d)+%dus%s", a.actor, (a.b >> 4) % w.personas, a.target, kGhostName[a.op], a.a % 4, a.b % 16, a.delay_us, a.align ? "^" : "");
        } else {
            static const int kMap[12] = {C_STATUS, C_STORE, C_LIST, C_FETCH, C_STORE, C_DEFAULTS, C_METRICS, C_DIAGNOSTICS, C_STORE, C_PING, C_STOP, C_FETCH};
            a.op = kMap[r.at(1) % 12];
            if (a.op == C_STOP && (!w.allow_midrun_stop || stop_used)) a.op = C_STATUS;
            if (a.op == C_STOP) stop_used = true;
            appendf(w.desc, " c%d>n%d:%s(%d,%d)+%dus%s", a.actor, a.target, kCtlName[a.op], a.a % 4, a.b % 8, a.delay_us, a.align ? "^" : "");
        }
        w.per_actor[static_cast<std::size_t>(actor)].push_back(a);
    }
    return w;
}

// ---- sockets ------------------------------------------------------------------------------------------------
// Listening ports are taken below the kernel's ephemeral range (so no client socket of this or another process can sit
// on them), from a window that depends on the pid (parallel workers probe different windows), and probed with bind().
std::uint16_t free_port() {
    static unsigned next = 0;
    const unsigned base = 10000u + (static_cast<unsigned>(::getpid()) * 61u) % 20000u;
    for (int attempt = 0; attempt < 400; ++attempt) {
        const std::uint16_t port = static_cast<std::uint16_t>(10000u + (base - 10000u + next++) % 22000u);
        int s = ::socket(AF_INET, SOCK_STREAM, 0);
        if (s < 0) continue;
        int one = 1;
        ::setsockopt(s, SOL_SOCKET, SO_REUSEADDR, &one, sizeof one);
        sockaddr_in a{};
        a.sin_family = AF_INET;
        a.sin_addr.s_addr = htonl(INADDR_ANY);
        a.sin_port = htons(port);
        const bool ok = ::bind(s, reinterpret_cast<sockaddr*>(&a), sizeof a) == 0 && ::listen(s, 1) == 0;
        ::close(s);
        if (ok) return port;
    }
    return 0;
}
int tcp_connect(std::uint16_t port) {
    int fd = ::socket(AF_INET, SOCK_STREAM, 0);
    if (fd < 0) return -1;
    sockaddr_in a{};
    a.sin_family = AF_INET;
    a.sin_addr.s_addr = htonl(INADDR_LOOPBACK);
    a.sin_port = htons(port);
    if (::connect(fd, reinterpret_cast<sockaddr*>(&a), sizeof a) != 0) {
        ::close(fd);
        return -1;
    }
    int one = 1;
    ::setsockopt(fd, IPPROTO_TCP, TCP_NODELAY, &one, sizeof one);
    return fd;
}
bool send_all(int fd, const void* p, std::size_t n) {
    const char* c = static_cast<const char*>(p);
    std::size_t off = 0;
    while (off < n) {
        ssize_t w = ::send(fd, c + off, n - off, MSG_NOSIGNAL);
        if (w <= 0) return false;
        off += static_cast<std::size_t>(w);
    }
    return true;
}
bool recv_exact(int fd, std::uint8_t* p, std::size_t n, int timeout_ms) {
    std::size_t off = 0;
    while (off < n) {
        pollfd pf{fd, POLLIN, 0};
        if (::poll(&pf, 1, timeout_ms) <= 0) return false;
        ssize_t r = ::recv(fd, p + off, n - off, 0);
        if (r <= 0) return false;
        off += static_cast<std::size_t>(r);
    }
    return true;
}

// ---- control client (what the CLI does: one connection, one request) --------------------------------------------
struct CtlResponse {
    bool got = false;
    std::string code;
    std::string manifest;
    std::string raw;
};
CtlResponse ctl_request(std::uint16_t port, const std::string& command, const std::vector<std::pair<std::string, std::string>>& headers,
                        const std::vector<std::uint8_t>* payload) {
    CtlResponse r;
    int fd = tcp_connect(port);
    if (fd < 0) return r;
    std::string s = "COMMAND:" + command + "\n";
    for (auto& kv : headers) s += kv.first + ":" + kv.second + "\n";
    if (payload) s += "PAYLOAD-LENGTH:" + std::to_string(payload->size()) + "\n";
    s += "\n";
    bool ok = send_all(fd, s.data(), s.size());
    if (ok && payload && !payload->empty()) ok = send_all(fd, payload->data(), payload->size());
    char buf[65536];
    while (ok) {
        pollfd pf{fd, POLLIN, 0};
        if (::poll(&pf, 1, 30000) <= 0) break;
        ssize_t n = ::recv(fd, buf, sizeof buf, 0);
        if (n <= 0) break;
        if (r.raw.size() < (1u << 20)) r.raw.append(buf, static_cast<std::size_t>(n));
    }
    ::close(fd);
    if (r.raw.empty()) return r;
    r.got = true;
    auto field = [&](const char* key) {
        std::string k = std::string("\n") + key + ":";
        auto pos = r.raw.find(k);
        if (pos == std::string::npos) return std::string();
        pos += k.size();
        auto end = r.raw.find('\n', pos);
        return r.raw.substr(pos, end == std::string::npos ? std::string::npos : end - pos);
    };
    r.code = field("CODE");
    r.manifest = field("MANIFEST");
    return r;
}

// ---- the daemons -------------------------------------------------------------------------------------------------
struct Daemon {
    int index = 0;
    PeerId id{};
    Config cfg{};
    std::uint32_t public_identity = 0;
    std::uint16_t tport = 0, cport = 0;
    std::unique_ptr<Node> node;
    std::mutex node_mutex;
    std::unique_ptr<daemon::ControlServer> control;
    std::atomic<bool> run{true};
    std::atomic<bool> started{false}, start_failed{false}, finished{false};
    std::thread main_thread;
    Activity act;
    std::atomic<std::uint64_t> ticks{0};
    int tick_us = 20000;
    std::uint64_t seed = 0;
};
std::atomic<bool> g_stop{false};
std::vector<std::unique_ptr<Daemon>> g_daemons;

thread_local Daemon* tl_reader_daemon = nullptr;
thread_local bool tl_msg_open = false;
network::SessionManager::TestHooks g_hooks;

// What src/main.cpp's serve branch does on the process main thread.
void daemon_main(Daemon* d) {
    try {
        std::scoped_lock lock(d->node_mutex);
        d->node->start_transport(d->tport);
    } catch (const std::exception&) {
        d->start_failed.store(true, std::memory_order_relaxed);
    }
    d->started.store(true, std::memory_order_release);
    Prng jitter(d->seed ^ 0x71C4ull);
    while (d->run.load(std::memory_order_acquire) && !g_stop.load(std::memory_order_acquire)) {
        {
            std::scoped_lock lock(d->node_mutex);
            d->act.begin(K_TICK);
            d->node->tick();
            d->act.end(K_TICK);
        }
        d->ticks.fetch_add(1, std::memory_order_relaxed);
        real_sleep_us(d->tick_us / 2 + static_cast<std::int64_t>(jitter.below(static_cast<std::uint64_t>(d->tick_us))));
    }
    {
        std::scoped_lock lock(d->node_mutex);
        d->node->stop_transport();
    }
    d->control->stop();
    d->finished.store(true, std::memory_order_release);
}

PeerId make_id(std::uint64_t seed, std::uint8_t tag) {
    PeerId p{};
    Prng g(seed * 131 + tag);
    g.fill(p.data(), p.size());
    p[0] = tag;
    return p;
}

Config base_config(const Workload& w, std::uint32_t identity_seed) {
    using std::chrono::seconds;
    Config c;
    c.identity_seed = identity_seed;
    c.nat_stun_enabled = false;
    c.relay_enabled = false;
    c.storage_persistent_enabled = false;
    c.control_host = "127.0.0.1";
    c.key_rotation_interval = seconds(w.rotation_s);
    c.handshake_cooldown = seconds(w.cooldown_s);
    c.handshake_pow_difficulty = static_cast<std::uint8_t>(w.pow_hs);
    c.announce_pow_difficulty = static_cast<std::uint8_t>(w.pow_ann);
    c.store_pow_difficulty = 0;
    c.cleanup_interval = seconds(w.cleanup_s);
    c.min_manifest_ttl = seconds(w.min_ttl_s);
    c.max_manifest_ttl = seconds(3600);
    c.default_chunk_ttl = seconds(w.min_ttl_s * 2);
    c.announce_min_interval = seconds(1);
    c.announce_burst_limit = 64;
    c.announce_burst_window = seconds(10);
    c.fetch_retry_initial_backoff = seconds(w.retry_backoff_s);
    c.fetch_retry_max_backoff = seconds(w.retry_backoff_s * 2);
    c.fetch_retry_success_interval = seconds(1);
    c.fetch_availability_refresh = seconds(1);
    c.upload_max_parallel_transfers = static_cast<std::uint16_t>(w.upload_parallel);
    c.upload_reconsider_interval = seconds(1);
    c.upload_transfer_timeout = seconds(5);
    c.swarm_target_replicas = static_cast<std::uint16_t>(w.replicas);
    c.swarm_rebalance_interval = seconds(3);
    return c;
}

bool knows(const Workload& w, int i, int j) {  // does daemon i list daemon j as a bootstrap node?
    if (i == j) return false;
    if (w.topology == 0) return true;                      // mesh
    if (w.topology == 1) return i == 0 || j == 0;          // star around node 0
    return j == i + 1 || i == j + 1;                       // chain
}

// ---- manifests known to the clients / ghosts (harness-only state, touched by harness threads only) ------------------
std::mutex g_manifest_mutex;
std::vector<std::string> g_manifests;

// ---- ghosts ---------------------------------------------------------------------------------------------------------------
struct GhostChunk {
    ChunkId id{};
    std::string manifest_uri;
    std::vector<std::uint8_t> ciphertext;
    std::vector<std::uint8_t> shard_indices;
};
struct Ghost {
    int index = 0;
    PeerId id{};
    std::unique_ptr<Node> calc;  // never started; used only by this ghost's thread as a calculator (PoW, manifests)
    std::uint32_t public_identity = 0;
    std::vector<std::array<std::uint8_t, 32>> key;  // per target daemon
    std::vector<std::uint64_t> hs_nonce;            // per target daemon
    std::vector<int> fd;                             // per target daemon
    std::vector<GhostChunk> chunks;
};

void ghost_drain(Ghost& g, int t) {
    if (g.fd[static_cast<std::size_t>(t)] < 0) return;
    std::uint8_t buf[65536];
    for (;;) {
        ssize_t r = ::recv(g.fd[static_cast<std::size_t>(t)], buf, sizeof buf, MSG_DONTWAIT);
        if (r > 0) {
            g_cnt.ghost_reply_bytes.fetch_add(static_cast<std::uint64_t>(r), std::memory_order_relaxed);
            continue;
        }
        if (r == 0) {  // closed by the node
            ::close(g.fd[static_cast<std::size_t>(t)]);
            g.fd[static_cast<std::size_t>(t)] = -1;
        }
        break;
    }
}
void ghost_close(Ghost& g, int t) {
    int& fd = g.fd[static_cast<std::size_t>(t)];
    if (fd >= 0) {
        ::close(fd);
        fd = -1;
    }
}
bool ghost_connect(Ghost& g, int t) {
    Daemon& d = *g_daemons[static_cast<std::size_t>(t)];
    ghost_close(g, t);
    d.act.begin(K_HS);
    bool ok = false;
    int fd = tcp_connect(d.tport);
    if (fd >= 0) {
        protocol::Message m{};
        m.version = protocol::kCurrentMessageVersion;
        m.type = protocol::MessageType::TransportHandshake;
        protocol::TransportHandshakePayload p{};
        p.public_identity = g.public_identity;
        p.work_nonce = g.hs_nonce[static_cast<std::size_t>(t)];
        p.requested_version = protocol::kCurrentMessageVersion;
        m.payload = p;
        const auto enc = protocol::encode(m);
        std::vector<std::uint8_t> frame(32 + 4 + enc.size());
        std::copy(g.id.begin(), g.id.end(), frame.begin());
        const auto len = static_cast<std::uint32_t>(enc.size());
        frame[32] = static_cast<std::uint8_t>(len >> 24);
        frame[33] = static_cast<std::uint8_t>(len >> 16);
        frame[34] = static_cast<std::uint8_t>(len >> 8);
        frame[35] = static_cast<std::uint8_t>(len);
        std::copy(enc.begin(), enc.end(), frame.begin() + 36);
        std::uint8_t head[16];
        if (send_all(fd, frame.data(), frame.size()) && recv_exact(fd, head, 16, 5000)) {
            std::uint32_t alen = (std::uint32_t(head[12]) << 24) | (std::uint32_t(head[13]) << 16) | (std::uint32_t(head[14]) << 8) | head[15];
            if (alen > 0 && alen < 4096) {
                std::vector<std::uint8_t> ct(alen), pt(alen);
                if (recv_exact(fd, ct.data(), alen, 5000)) {
                    crypto::Key k{};
                    k.bytes = g.key[static_cast<std::size_t>(t)];
                    crypto::Nonce nn{};
                    std::copy(head, head + 12, nn.bytes.begin());
                    crypto::ChaCha20::apply(k, nn, ct, pt, 0u);
                    auto ack = protocol::decode_signed(pt, std::span<const std::uint8_t>(k.bytes.data(), k.bytes.size()));
                    ok = ack.has_value() && ack->type == protocol::MessageType::HandshakeAck;
                }
            }
        }
        if (ok) g.fd[static_cast<std::size_t>(t)] = fd;
        else ::close(fd);
    }
    d.act.end(K_HS);
    (ok ? g_cnt.ghost_hs_ok : g_cnt.ghost_hs_fail).fetch_add(1, std::memory_order_relaxed);
    return ok;
}
bool ghost_send_frame(Ghost& g, int t, const std::vector<std::uint8_t>& plaintext, Prng& rng) {
    int fd = g.fd[static_cast<std::size_t>(t)];
    if (fd < 0) return false;
    crypto::Key k{};
    k.bytes = g.key[static_cast<std::size_t>(t)];
    crypto::Nonce nn{};
    rng.fill(nn.bytes.data(), nn.bytes.size());
    std::vector<std::uint8_t> ct(plaintext.size());
    crypto::ChaCha20::apply(k, nn, plaintext, ct, 0u);
    std::vector<std::uint8_t> frame(16 + ct.size());
    std::copy(nn.bytes.begin(), nn.bytes.end(), frame.begin());
    const auto len = static_cast<std::uint32_t>(ct.size());
    frame[12] = static_cast<std::uint8_t>(len >> 24);
    frame[13] = static_cast<std::uint8_t>(len >> 16);
    frame[14] = static_cast<std::uint8_t>(len >> 8);
    frame[15] = static_cast<std::uint8_t>(len);
    std::copy(ct.begin(), ct.end(), frame.begin() + 16);
    if (!send_all(fd, frame.data(), frame.size())) {
        ghost_close(g, t);
        return false;
    }
    return true;
}
// The signed plaintext frames of one ghost action, built before the action's start time so that the bytes of several
// actors can leave at the same instant.
std::vector<std::vector<std::uint8_t>> ghost_prepare(Ghost* g, const Action& a, Prng& rng) {
    std::vector<std::vector<std::uint8_t>> frames;
    const auto& key = g->key[static_cast<std::size_t>(a.target)];
    const std::span<const std::uint8_t> key_span(key.data(), key.size());
    const GhostChunk& ch = g->chunks[static_cast<std::size_t>(a.a) % g->chunks.size()];
    protocol::Message m{};
    m.version = protocol::kCurrentMessageVersion;
    switch (a.op) {
        case G_ANNOUNCE:
        case G_ANNOUNCE_ASSIGNED: {
            // one announce per action: the node rate-limits a peer to one announce per (virtual) second and locks it out
            // after three rejections, so bursts would only switch the announce path off
            const int burst = 1;
            for (int k = 0; k < burst; ++k) {
                const GhostChunk& bc = g->chunks[(static_cast<std::size_t>(a.a) + static_cast<std::size_t>(k)) % g->chunks.size()];
                protocol::AnnouncePayload p{};
                p.chunk_id = bc.id;
                p.peer_id = g->id;
                p.endpoint = (a.b & 1) ? std::string("127.0.0.1:9") : std::string();
                p.ttl = std::chrono::seconds(60);
                p.manifest_uri = bc.manifest_uri;
                if (a.op == G_ANNOUNCE_ASSIGNED && !bc.shard_indices.empty()) p.assigned_shards.push_back(bc.shard_indices[(static_cast<std::size_t>(a.b) >> 1) % bc.shard_indices.size()]);
                if (!ephemeralnet::test::NodeTestAccess::apply_announce_pow(*g->calc, p)) break;
                m.type = protocol::MessageType::Announce;
                m.payload = std::move(p);
                frames.push_back(protocol::encode_signed(m, key_span));
            }
            break;
        }
        case G_CHUNK: {
            protocol::ChunkPayload p{};
            p.chunk_id = ch.id;
            p.data = ch.ciphertext;
            p.ttl = std::chrono::seconds(60);
            m.type = protocol::MessageType::Chunk;
            m.payload = std::move(p);
            frames.push_back(protocol::encode_signed(m, key_span));
            break;
        }
        case G_REQUEST: {
            protocol::RequestPayload p{};
            p.chunk_id = ch.id;
            if (a.b & 1) {  // a chunk stored through some daemon's control plane, if any is known yet
                std::string uri;
                {
                    std::scoped_lock lock(g_manifest_mutex);
                    if (!g_manifests.empty()) uri = g_manifests[(static_cast<std::size_t>(a.b) >> 1) % g_manifests.size()];
                }
                if (!uri.empty()) {
                    try {
                        p.chunk_id = protocol::decode_manifest(uri).chunk_id;
                    } catch (const std::exception&) {
                    }
                }
            }
            p.requester = g->id;
            m.type = protocol::MessageType::Request;
            m.payload = p;
            frames.push_back(protocol::encode_signed(m, key_span));
            break;
        }
        case G_ACK: {
            protocol::AcknowledgePayload p{};
            p.chunk_id = ch.id;
            p.peer_id = g->id;
            p.accepted = (a.b & 1) != 0;
            m.type = protocol::MessageType::Acknowledge;
            m.payload = p;
            frames.push_back(protocol::encode_signed(m, key_span));
            break;
        }
        case G_GARBAGE: {
            std::vector<std::uint8_t> junk(1 + rng.below(200));
            rng.fill(junk.data(), junk.size());
            frames.push_back(std::move(junk));
            break;
        }
        default:
            break;
    }
    return frames;
}

void ghost_thread(std::vector<Ghost*> personas, const std::vector<Action>* actions) {
    for (const Action& a : *actions) {
        if (g_stop.load(std::memory_order_relaxed)) break;
        Ghost* g = personas[(static_cast<std::size_t>(a.b) >> 4) % personas.size()];
        const int t = a.target;
        Prng rng(a.seed);
        const bool is_message = a.op != G_CLOSE && a.op != G_CONNECT;
        std::vector<std::vector<std::uint8_t>> frames;
        if (is_message) {
            frames = ghost_prepare(g, a, rng);
            ghost_drain(*g, t);
            if (g->fd[static_cast<std::size_t>(t)] < 0) ghost_connect(*g, t);  // implicit (re)connect happens before the start time
        }
        actor_wait(a.delay_us, a.align);
        ghost_drain(*g, t);
        if (a.op == G_CLOSE) {
            ghost_close(*g, t);
            g_cnt.ghost_sent[G_CLOSE].fetch_add(1, std::memory_order_relaxed);
            continue;
        }
        if (a.op == G_CONNECT) {
            if (ghost_connect(*g, t)) g_cnt.ghost_sent[G_CONNECT].fetch_add(1, std::memory_order_relaxed);
            continue;
        }
        bool sent = false;
        for (auto& f : frames) sent = ghost_send_frame(*g, t, f, rng) || sent;
        if (sent) g_cnt.ghost_sent[a.op].fetch_add(1, std::memory_order_relaxed);
    }
    // the connections stay open during the linger period; the operator closes them
}

// ---- control clients ---------------------------------------------------------------------------------------------------
void client_thread(int index, const Workload* w, const std::vector<Action>* actions) {
    int counter = 0;
    for (const Action& a : *actions) {
        actor_wait(a.delay_us, a.align);
        if (g_stop.load(std::memory_order_relaxed)) break;
        Daemon& d = *g_daemons[static_cast<std::size_t>(a.target)];
        Prng rng(a.seed);
        std::vector<std::pair<std::string, std::string>> headers;
        std::vector<std::uint8_t> payload;
        const std::vector<std::uint8_t>* body = nullptr;
        if (a.op == C_STORE) {
            static const std::size_t kSizes[4] = {64, 700, 4096, 12000};
            payload.resize(kSizes[a.a % 4]);
            rng.fill(payload.data(), payload.size());
            body = &payload;
            const int ttls[4] = {0, w->min_ttl_s, w->min_ttl_s * 2, 60};
            if (ttls[a.b % 4] > 0) headers.push_back({"TTL", std::to_string(ttls[a.b % 4])});
            if (a.b & 4) headers.push_back({"PATH", "file" + std::to_string(a.a) + ".bin"});
            headers.push_back({"TOKEN", "c" + std::to_string(index) + "-" + std::to_string(counter++ / 4)});
        } else if (a.op == C_FETCH) {
            std::string uri;
            {
                std::scoped_lock lock(g_manifest_mutex);
                if (!g_manifests.empty()) uri = g_manifests[static_cast<std::size_t>(a.a) % g_manifests.size()];
            }
            if (uri.empty()) uri = "eph://not-a-manifest";
            headers.push_back({"MANIFEST", uri});
            headers.push_back({"STREAM", "client"});
            headers.push_back({"TOKEN", "f" + std::to_string(index) + "-" + std::to_string(counter++ / 8)});
        }
        d.act.begin(K_CTL);
        CtlResponse r = ctl_request(d.cport, kCtlName[a.op], headers, body);
        d.act.end(K_CTL);
        if (!r.got) {
            g_cnt.ctl_noresp.fetch_add(1, std::memory_order_relaxed);
            continue;
        }
        const bool ok = r.raw.rfind("STATUS:OK", 0) == 0;
        (ok ? g_cnt.ctl_ok : g_cnt.ctl_err)[a.op].fetch_add(1, std::memory_order_relaxed);
        if (ok && a.op == C_STORE && !r.manifest.empty()) {
            std::scoped_lock lock(g_manifest_mutex);
            g_manifests.push_back(r.manifest);
        }
        if (ok && a.op == C_STOP) g_cnt.stopped_midrun.fetch_add(1, std::memory_order_relaxed);
    }
}

std::uint64_t metric(const std::string& raw, const char* name) {
    std::string k = std::string("\n") + name + " ";
    auto pos = raw.find(k);
    if (pos == std::string::npos) return 0;
    return std::strtoull(raw.c_str() + pos + k.size(), nullptr, 10);
}

std::string json_escape(const std::string& s) {
    std::string o;
    for (unsigned char c : s) {
        if (c == '"' || c == '\\') {
            o.push_back('\\');
            o.push_back(static_cast<char>(c));
        } else if (c < 0x20) {
            char b[8];
            snprintf(b, sizeof b, "\\u%04x", c);
            o += b;
        } else {
            o.push_back(static_cast<char>(c));
        }
    }
    return o;
}

int count_threads() {  // kernel threads of this process (includes TSan's background thread and the watchdog)
    int n = 0;
    FILE* f = fopen("/proc/self/status", "r");
    if (!f) return -1;
    char line[256];
    while (fgets(line, sizeof line, f)) {
        if (sscanf(line, "Threads: %d", &n) == 1) break;
    }
    fclose(f);
    return n;
}

std::string g_out_path;
bool g_reader_outlived_shutdown = false;
std::int64_t g_t_begin = 0, g_t_started = 0, g_t_actors_done = 0, g_t_stopped = 0;
void write_result(const Workload& w, const char* status) {
    std::string j = "{";
    {
        char tb[160];
        snprintf(tb, sizeof tb, "\"phase_ms\":{\"setup\":%lld,\"actors\":%lld,\"linger_shutdown\":%lld},", (long long)(g_t_started ? (g_t_started - g_t_begin) / 1000000 : 0),
                 (long long)((g_t_actors_done - g_t_started) / 1000000), (long long)((g_t_stopped - g_t_actors_done) / 1000000));
        j += tb;
    }
    j += "\"status\":\"" + std::string(status) + "\",";
    j += "\"desc\":\"" + json_escape(w.desc) + "\",";
    unsigned any_pairs = 0;
    std::string labels;
    auto add_label = [&](const std::string& l) {
        if (!labels.empty()) labels += ",";
        labels += "\"" + l + "\"";
    };
    std::string per_node = "[";
    for (std::size_t i = 0; i < g_daemons.size(); ++i) {
        Daemon& d = *g_daemons[i];
        unsigned p = d.act.pairs.load(std::memory_order_relaxed);
        any_pairs |= p;
        if (i) per_node += ",";
        char b[256];
        snprintf(b, sizeof b, "{\"ticks\":%llu,\"ctl\":%llu,\"hs\":%llu,\"msg\":%llu,\"pairs\":%u}", (unsigned long long)d.ticks.load(),
                 (unsigned long long)d.act.count[K_CTL].load(), (unsigned long long)d.act.count[K_HS].load(), (unsigned long long)d.act.count[K_MSG].load(), p);
        per_node += b;
    }
    per_node += "]";
    for (int a = 0; a < K_N; ++a)
        for (int b = a + 1; b < K_N; ++b)
            if (any_pairs & (1u << (a * 4 + b))) add_label(std::string("overlap:") + kKindName[a] + "+" + kKindName[b]);
    if (g_cnt.ctl_ok[C_STORE].load()) add_label("ctl_store_ok");
    if (g_cnt.ctl_ok[C_FETCH].load()) add_label("ctl_fetch_ok");
    if (g_cnt.ctl_err[C_FETCH].load()) add_label("ctl_fetch_err");
    if (g_cnt.ghost_hs_ok.load()) add_label("ghost_handshake_ok");
    if (g_cnt.ghost_hs_ok.load() > 1) add_label("ghost_rehandshake");
    if (g_cnt.hs_pow_success.load()) add_label("node_handshake_validated");
    if (g_cnt.ann_pow_success.load()) add_label("announce_pow_validated");
    if (g_cnt.stopped_midrun.load()) add_label("node_stopped_midrun");
    if (g_reader_outlived_shutdown) add_label("reader_outlived_shutdown(not judged)");
    if (w.ghost_bootstrap && w.ghosts > 0) add_label("ghosts_are_bootstrap_peers");
    std::uint64_t msgs = 0;
    for (auto& d : g_daemons) msgs += d->act.count[K_MSG].load();
    if (msgs) add_label("session_messages");
    if (msgs >= 10) add_label("session_messages>=10");
    if (g_cnt.ghost_reply_bytes.load()) add_label("ghost_got_replies");
    if (w.speed > 1 && w.rotation_s < 3600) add_label("key_rotation_possible");
    add_label("nodes=" + std::to_string(w.nodes));
    add_label("ghosts=" + std::to_string(w.ghosts));
    j += "\"nontrivial\":" + std::string(any_pairs ? "true" : "false") + ",";
    j += "\"labels\":[" + labels + "],";
    j += "\"per_node\":" + per_node + ",";
    char b[512];
    snprintf(b, sizeof b,
             "\"counters\":{\"store_ok\":%llu,\"store_err\":%llu,\"fetch_ok\":%llu,\"fetch_err\":%llu,\"ctl_noresp\":%llu,\"ghost_hs_ok\":%llu,\"ghost_hs_fail\":%llu,"
             "\"ghost_announce\":%llu,\"ghost_chunk\":%llu,\"ghost_request\":%llu,\"ghost_ack\":%llu,\"ghost_reply_bytes\":%llu,\"hs_validated\":%llu,\"announce_validated\":%llu,\"messages\":%llu}",
             (unsigned long long)g_cnt.ctl_ok[C_STORE].load(), (unsigned long long)g_cnt.ctl_err[C_STORE].load(), (unsigned long long)g_cnt.ctl_ok[C_FETCH].load(),
             (unsigned long long)g_cnt.ctl_err[C_FETCH].load(), (unsigned long long)g_cnt.ctl_noresp.load(), (unsigned long long)g_cnt.ghost_hs_ok.load(),
             (unsigned long long)g_cnt.ghost_hs_fail.load(), (unsigned long long)(g_cnt.ghost_sent[G_ANNOUNCE].load() + g_cnt.ghost_sent[G_ANNOUNCE_ASSIGNED].load()),
             (unsigned long long)g_cnt.ghost_sent[G_CHUNK].load(), (unsigned long long)g_cnt.ghost_sent[G_REQUEST].load(), (unsigned long long)g_cnt.ghost_sent[G_ACK].load(),
             (unsigned long long)g_cnt.ghost_reply_bytes.load(), (unsigned long long)g_cnt.hs_pow_success.load(), (unsigned long long)g_cnt.ann_pow_success.load(),
             (unsigned long long)msgs);
    j += b;
    j += "}\n";
    if (g_out_path.empty()) {
        fputs(j.c_str(), stdout);
        fflush(stdout);
        return;
    }
    FILE* f = fopen(g_out_path.c_str(), "w");
    if (f) {
        fputs(j.c_str(), f);
        fclose(f);
    }
}

// What happens when src/main.cpp returns: the Node and the ControlServer are destroyed.  SessionManager detaches its reader
// threads and waits at most 2 s for them, so ThreadSanitizer has no happens-before edge from a reader that was replaced or
// timed out to these destructors.  Reports whose stack contains this function are classified "exit-time destruction" by
// C36_run.py and are not judged (no stable shape; see the C36 notes).
__attribute__((noinline)) void destroy_daemons() {
    for (auto& dptr : g_daemons) {
        dptr->control.reset();
        dptr->node.reset();
    }
}

int run(const Workload& w) {
    g_t_begin = vt::real_ns();
    vt::start(w.speed);
    const int n = w.nodes;
    const int baseline_threads = count_threads();
    // ghost identities (a calculator Node per ghost, never started)
    std::vector<std::unique_ptr<Ghost>> ghosts;
    const int n_ghost_ids = w.ghosts * w.personas;
    for (int gi = 0; gi < n_ghost_ids; ++gi) {
        auto g = std::make_unique<Ghost>();
        g->index = gi;
        g->id = make_id(w.seed, static_cast<std::uint8_t>(0x80 + gi));
        Config gc = base_config(w, static_cast<std::uint32_t>(0xC36F0000u + (w.seed & 0xFFF) * 16 + static_cast<std::uint32_t>(gi)));
        g->calc = std::make_unique<Node>(g->id, gc);
        g->public_identity = g->calc->public_identity();
        ghosts.push_back(std::move(g));
    }
    // identities first: every daemon needs the others' public identity for its bootstrap list
    for (int i = 0; i < n; ++i) {
        auto d = std::make_unique<Daemon>();
        d->index = i;
        d->id = make_id(w.seed, static_cast<std::uint8_t>(0x10 + i));
        d->cfg = base_config(w, static_cast<std::uint32_t>(0xC3600000u + (w.seed & 0xFFFF) * 16 + static_cast<std::uint32_t>(i)));
        d->tport = free_port();
        d->cport = free_port();
        d->cfg.transport_listen_port = d->tport;
        d->cfg.control_port = d->cport;
        d->tick_us = w.tick_ms * 1000;
        d->seed = w.seed * 977 + static_cast<std::uint64_t>(i);
        {
            Node probe(d->id, d->cfg);
            d->public_identity = probe.public_identity();
        }
        g_daemons.push_back(std::move(d));
    }
    for (int i = 0; i < n; ++i) {
        Daemon& d = *g_daemons[static_cast<std::size_t>(i)];
        for (int j = 0; j < n; ++j) {
            if (!knows(w, i, j)) continue;
            Daemon& o = *g_daemons[static_cast<std::size_t>(j)];
            Config::BootstrapNode b{};
            b.id = o.id;
            b.host = "127.0.0.1";
            b.port = o.tport;
            b.public_identity = o.public_identity;
            d.cfg.bootstrap_nodes.push_back(b);
        }
        if (w.ghost_bootstrap) {
            for (auto& g : ghosts) {  // a configured bootstrap peer that is not listening (port 9 refuses)
                Config::BootstrapNode b{};
                b.id = g->id;
                b.host = "127.0.0.1";
                b.port = 9;
                b.public_identity = g->public_identity;
                d.cfg.bootstrap_nodes.push_back(b);
            }
        }
        d.node = std::make_unique<Node>(d.id, d.cfg);
        Daemon* dp = &d;
        // per-node observer on the reader threads (runs after Node::handle_transport_message)
        d.node->set_message_handler([dp](const network::TransportMessage&) {
            tl_reader_daemon = dp;
            if (tl_msg_open) {
                dp->act.end(K_MSG);
                tl_msg_open = false;
            } else {
                dp->act.point(K_MSG);
            }
        });
    }
    g_hooks.drop_receive = [](const network::TransportMessage&) {
        if (tl_reader_daemon != nullptr && !tl_msg_open) {
            tl_reader_daemon->act.begin(K_MSG);
            tl_msg_open = true;
        }
        return false;
    };
    network::SessionManager::set_test_hooks(&g_hooks);

    // ghosts: keys, PoW nonces, manifests are computed here, before any thread exists
    for (int gi = 0; gi < n_ghost_ids; ++gi) {
        Ghost* g = ghosts[static_cast<std::size_t>(gi)].get();
        for (int t = 0; t < n; ++t) {
            Daemon& d = *g_daemons[static_cast<std::size_t>(t)];
            const auto to_target = g->calc->generate_handshake_work(d.id);
            const auto from_target = d.node->generate_handshake_work(g->id);
            bool ok = to_target.has_value() && from_target.has_value() && g->calc->perform_handshake(d.id, d.public_identity, *from_target);
            std::array<std::uint8_t, 32> key{};
            if (ok) key = g->calc->session_key(d.id).value_or(key);
            g->key.push_back(key);
            g->hs_nonce.push_back(to_target.value_or(0));
            g->fd.push_back(-1);
        }
        static const std::size_t kSizes[3] = {100, 1500, 6000};
        for (int k = 0; k < 3; ++k) {
            GhostChunk ch;
            Prng pr(w.seed * 31 + static_cast<std::uint64_t>(gi * 8 + k));
            pr.fill(ch.id.data(), ch.id.size());
            ChunkData data(kSizes[k]);
            pr.fill(data.data(), data.size());
            auto manifest = g->calc->store_chunk(ch.id, data, std::chrono::seconds(600));
            ch.manifest_uri = protocol::encode_manifest(manifest);
            for (auto& s : manifest.shards) ch.shard_indices.push_back(s.index);
            if (auto rec = g->calc->export_chunk_record(ch.id)) ch.ciphertext = rec->data;
            g->chunks.push_back(std::move(ch));
        }
    }

    // control servers first, then the daemon main threads (same order as src/main.cpp)
    for (auto& dptr : g_daemons) {
        Daemon* d = dptr.get();
        d->control = std::make_unique<daemon::ControlServer>(*d->node, d->node_mutex, [d] { d->run.store(false, std::memory_order_release); });
        try {
            d->control->start("127.0.0.1", d->cport);
        } catch (const std::exception&) {
            write_result(w, "setup_failed");
            _exit(4);
        }
    }
    for (auto& dptr : g_daemons) dptr->main_thread = std::thread(daemon_main, dptr.get());
    for (auto& dptr : g_daemons) {
        for (int i = 0; i < 20000 && !dptr->started.load(std::memory_order_acquire); ++i) real_sleep_us(100);
        if (dptr->start_failed.load(std::memory_order_relaxed)) {
            write_result(w, "setup_failed");
            _exit(4);
        }
    }

    g_t_started = vt::real_ns();
    std::vector<std::thread> actors;
    for (int c = 0; c < w.clients; ++c) actors.emplace_back(client_thread, c, &w, &w.per_actor[static_cast<std::size_t>(c)]);
    for (int gi = 0; gi < w.ghosts; ++gi) {
        std::vector<Ghost*> mine;
        for (int pi = 0; pi < w.personas; ++pi) mine.push_back(ghosts[static_cast<std::size_t>(gi * w.personas + pi)].get());
        actors.emplace_back(ghost_thread, mine, &w.per_actor[static_cast<std::size_t>(w.clients + gi)]);
    }
    for (auto& t : actors) t.join();
    g_t_actors_done = vt::real_ns();
    real_sleep_us(static_cast<std::int64_t>(w.linger_ms) * 1000);

    // final METRICS on every daemon that is still up: handshake / announce validation counters for the evidence
    for (auto& dptr : g_daemons) {
        if (!dptr->run.load(std::memory_order_acquire)) continue;
        dptr->act.begin(K_CTL);
        CtlResponse r = ctl_request(dptr->cport, "METRICS", {}, nullptr);
        dptr->act.end(K_CTL);
        if (r.got) {
            g_cnt.hs_pow_success.fetch_add(metric(r.raw, "ephemeralnet_handshake_pow_success_total"), std::memory_order_relaxed);
            g_cnt.ann_pow_success.fetch_add(metric(r.raw, "ephemeralnet_announce_pow_success_total"), std::memory_order_relaxed);
        }
    }
    vt::unscale();  // the shutdown waits (2 s per session) are real seconds again
    if (w.final_stop_cmd) {
        Daemon& d = *g_daemons[static_cast<std::size_t>(w.final_stop_node)];
        if (d.run.load(std::memory_order_acquire)) ctl_request(d.cport, "STOP", {}, nullptr);
    }
    g_stop.store(true, std::memory_order_release);
    for (auto& dptr : g_daemons) dptr->main_thread.join();
    for (auto& g : ghosts)
        for (std::size_t t = 0; t < g->fd.size(); ++t) ghost_close(*g, static_cast<int>(t));
    g_t_stopped = vt::real_ns();
    // src/main.cpp returns here and the Node is destroyed.  SessionManager::stop() gives a reader thread 2 s to leave; if one
    // is still inside a handler after that, destroying the Node under it is a different defect (exit-time use after free)
    // with no stable shape, so it is not judged here: wait for the detached readers, and if one really is stuck skip the
    // destructors and say so in the result.
    for (int i = 0; i < 500 && count_threads() > baseline_threads; ++i) real_sleep_us(10000);
    g_reader_outlived_shutdown = count_threads() > baseline_threads;
    write_result(w, "ok");
    if (g_reader_outlived_shutdown) _exit(0);
    network::SessionManager::set_test_hooks(nullptr);
    real_sleep_us(20000);
    destroy_daemons();
    return 0;
}
}  // namespace

int main(int argc, char** argv) {
    std::string tape_path;
    bool describe = false, keep_stderr = false;
    for (int i = 1; i < argc; ++i) {
        std::string a = argv[i];
        if (a == "--tape" && i + 1 < argc) tape_path = argv[++i];
        else if (a == "--out" && i + 1 < argc) g_out_path = argv[++i];
        else if (a == "--describe") describe = true;
        else if (a == "--keep-stderr") keep_stderr = true;
    }
    if (tape_path.empty()) {
        fprintf(stderr, "usage: C36_tsan --tape FILE [--out RESULT.json] [--describe] [--keep-stderr]\n");
        return 2;
    }
    std::vector<std::uint8_t> bytes;
    {
        FILE* f = fopen(tape_path.c_str(), "rb");
        if (!f) {
            fprintf(stderr, "cannot read %s\n", tape_path.c_str());
            return 2;
        }
        std::uint8_t buf[4096];
        std::size_t n;
        while ((n = fread(buf, 1, sizeof buf, f)) > 0) bytes.insert(bytes.end(), buf, buf + n);
        fclose(f);
    }
    static Workload w = decode(bytes);
    if (describe) {
        printf("%s\n", w.desc.c_str());
        return 0;
    }
    // `eph serve` leaves SIGPIPE at its default, so a peer that closes while the daemon writes would end the process
    // (a robustness matter for C35, not a race); the workload must survive it to keep exercising the threads.
    std::signal(SIGPIPE, SIG_IGN);
    if (!keep_stderr) {  // the repository logs every session state change to std::cerr; TSan reports go to log_path
        int dn = ::open("/dev/null", O_WRONLY);
        if (dn >= 0) {
            ::dup2(dn, 2);
            ::close(dn);
        }
    }
    std::thread([] {  // watchdog: real sockets + threads; a stuck workload is inconclusive, not a verdict
        real_sleep_us(120LL * 1000 * 1000);
        write_result(w, "timeout");
        _exit(3);
    }).detach();
    const int rc = run(w);
    fflush(nullptr);
    _exit(rc);  // no static destructors: detached reader threads may still be leaving
}
