# Shared helpers for the black-box CLI checks (C30 / C31 / C32), driven by Hypothesis.
#
# Everything in here is written from the wire formats documented in the repository (src/protocol/Manifest.cpp,
# src/protocol/Message.cpp, src/daemon/ControlClient.cpp, docs/) and from RFC 8439 / Shamir over GF(2^8); none
# of it calls repository code.  The only thing under test is the real binary build/bin/eph.
#
#   * Manifest / encode_manifest / decode_manifest : independent eph:// codec (version 4 layout)
#   * chacha20, shamir_split/combine, dh_*          : what a publishing peer needs to serve a chunk
#   * ControlEndpoint                               : a fake control-plane endpoint (honest or dishonest answers)
#   * TransportPeer                                 : a fake transport peer (optionally behind a relay CONNECT line)
#   * run_cli, snapshot_tree, PortAlloc             : process / filesystem helpers
#   * Reporter, hypothesis_run, main_entry          : the worker report `check` expects + the parallel driver
import array, base64, dataclasses, hashlib, hmac, json, os, shutil, socket, struct, subprocess, sys, tempfile, threading, time

ROOT = os.environ.get('VERIF_ROOT') or os.path.dirname(os.path.dirname(os.path.abspath(__file__)))
BUILD = os.environ.get('VERIF_BUILD') or os.path.join(ROOT, 'build')
EPH = os.environ.get('VERIF_EPH') or os.path.join(BUILD, 'bin', 'eph')

MASK32 = 0xFFFFFFFF


def sha256(b):
    return hashlib.sha256(b).digest()


def hmac256(key, msg):
    return hmac.new(key, msg, hashlib.sha256).digest()


def expand(seed, n, tag=b''):
    """deterministic bulk bytes from a drawn integer seed"""
    return hashlib.shake_256(tag + b'|' + str(seed).encode()).digest(n)


# ------------------------------------------------------------------------------------------------ ChaCha20 (RFC 8439)
def _chacha_block(key_words, counter, nonce_words):
    init = [0x61707865, 0x3320646E, 0x79622D32, 0x6B206574] + key_words + [counter & MASK32] + nonce_words
    x = list(init)

    def qr(a, b, c, d):
        xa, xb, xc, xd = x[a], x[b], x[c], x[d]
        xa = (xa + xb) & MASK32; xd ^= xa; xd = ((xd << 16) | (xd >> 16)) & MASK32
        xc = (xc + xd) & MASK32; xb ^= xc; xb = ((xb << 12) | (xb >> 20)) & MASK32
        xa = (xa + xb) & MASK32; xd ^= xa; xd = ((xd << 8) | (xd >> 24)) & MASK32
        xc = (xc + xd) & MASK32; xb ^= xc; xb = ((xb << 7) | (xb >> 25)) & MASK32
        x[a], x[b], x[c], x[d] = xa, xb, xc, xd

    for _ in range(10):
        qr(0, 4, 8, 12); qr(1, 5, 9, 13); qr(2, 6, 10, 14); qr(3, 7, 11, 15)
        qr(0, 5, 10, 15); qr(1, 6, 11, 12); qr(2, 7, 8, 13); qr(3, 4, 9, 14)
    return struct.pack('<16I', *[(a + b) & MASK32 for a, b in zip(x, init)])


def chacha20(key, nonce, counter, data):
    """IETF ChaCha20: 32-byte key, 12-byte nonce, 32-bit block counter (wrapping), XOR over data"""
    assert len(key) == 32 and len(nonce) == 12
    kw = list(struct.unpack('<8I', key))
    nw = list(struct.unpack('<3I', nonce))
    out = bytearray()
    for off in range(0, len(data), 64):
        ks = _chacha_block(kw, counter, nw)
        counter = (counter + 1) & MASK32
        chunk = data[off:off + 64]
        out += bytes(a ^ b for a, b in zip(chunk, ks))
    return bytes(out)


def chacha20_selfcheck():
    # RFC 8439 section 2.4.2
    key = bytes(range(32))
    nonce = bytes.fromhex('000000000000004a00000000')
    pt = (b"Ladies and Gentlemen of the class of '99: If I could offer you only one tip for the future, sunscreen would be it.")
    ct = chacha20(key, nonce, 1, pt)
    return ct[:16].hex() == '6e2e359a2568f98041ba0728dd0d6981' and ct[-4:].hex() == '5e42874d'


# ------------------------------------------------------------------------------------------------ Shamir over GF(2^8), x^8+x^4+x^3+x^2+1
def _gf_tables():
    exp, log = [0] * 512, [0] * 256
    x = 1
    for i in range(255):
        exp[i] = x
        log[x] = i
        x <<= 1
        if x & 0x100:
            x ^= 0x11D
    for i in range(255, 512):
        exp[i] = exp[i - 255]
    return exp, log


_EXP, _LOG = _gf_tables()


def gf_mul(a, b):
    if a == 0 or b == 0:
        return 0
    return _EXP[_LOG[a] + _LOG[b]]


def gf_div(a, b):
    if a == 0:
        return 0
    return _EXP[(_LOG[a] - _LOG[b]) % 255]


def shamir_split(secret, threshold, indices, coeff_seed):
    """shares (index, 32-byte value); polynomial coefficients expanded from coeff_seed"""
    coeffs = expand(coeff_seed, len(secret) * max(0, threshold - 1), b'shamir')
    shares = []
    for x in indices:
        val = bytearray()
        for i, s in enumerate(secret):
            acc, power = s, 1
            for d in range(threshold - 1):
                power = gf_mul(power, x)
                acc ^= gf_mul(coeffs[i * (threshold - 1) + d], power)
            val.append(acc)
        shares.append((x, bytes(val)))
    return shares


def shamir_combine(shares, threshold):
    sub = shares[:threshold]
    out = bytearray()
    for byte in range(len(sub[0][1])):
        v = 0
        for i, (xi, yi) in enumerate(sub):
            num, den = 1, 1
            for j, (xj, _) in enumerate(sub):
                if i == j:
                    continue
                num = gf_mul(num, xj)
                den = gf_mul(den, xj ^ xi)
            v ^= gf_mul(yi[byte], gf_div(num, den))
        out.append(v)
    return bytes(out)


# ------------------------------------------------------------------------------------------------ manifest codec (version 4)
@dataclasses.dataclass
class Manifest:
    chunk_id: bytes = b'\0' * 32
    chunk_hash: bytes = b'\0' * 32
    nonce: bytes = b'\0' * 12
    expires: int = 0                       # seconds since the epoch
    threshold: int = 1
    total_shares: int = 1
    shards: list = dataclasses.field(default_factory=list)          # [(index, 32 bytes)]
    metadata: dict = dataclasses.field(default_factory=dict)        # bytes -> bytes (sorted by key on the wire, like std::map)
    discovery: list = dataclasses.field(default_factory=list)       # [(scheme, transport, endpoint, priority)] as bytes/int
    token_bits: int = 0
    advisory: bytes = b''
    attestation: bytes = None                                       # 32 bytes or None
    fallback: list = dataclasses.field(default_factory=list)        # [(uri bytes, priority)]


def _b(x):
    return x if isinstance(x, (bytes, bytearray)) else str(x).encode()


def encode_manifest(m, version=4):
    out = bytearray([version])
    out += m.chunk_id + m.chunk_hash + m.nonce
    out += struct.pack('>Q', m.expires & 0xFFFFFFFFFFFFFFFF)
    out += bytes([m.threshold & 255, m.total_shares & 255, len(m.shards)])
    for idx, val in m.shards:
        out += bytes([idx]) + val
    if version >= 2:
        items = sorted((_b(k), _b(v)) for k, v in m.metadata.items())
        out.append(len(items))
        for k, v in items:
            out += bytes([len(k)]) + k + struct.pack('>H', len(v)) + v
    if version >= 3:
        out.append(len(m.discovery))
        for scheme, transport, endpoint, prio in m.discovery:
            scheme, transport, endpoint = _b(scheme), _b(transport), _b(endpoint)
            if version >= 4:
                out += bytes([len(scheme)]) + scheme
            out += bytes([len(transport)]) + transport + struct.pack('>H', len(endpoint)) + endpoint + bytes([prio])
        out.append(m.token_bits)
        out += struct.pack('>H', len(m.advisory)) + m.advisory
        if m.attestation is not None:
            out += b'\x01' + m.attestation
        else:
            out += b'\x00'
        out.append(len(m.fallback))
        for uri, prio in m.fallback:
            uri = _b(uri)
            out += struct.pack('>H', len(uri)) + uri + bytes([prio])
    return 'eph://' + base64.b64encode(bytes(out)).decode()


def decode_manifest(uri):
    if not uri.startswith('eph://'):
        raise ValueError('scheme')
    p = base64.b64decode(uri[6:], validate=True)
    pos = 0

    def take(n):
        nonlocal pos
        if pos + n > len(p):
            raise ValueError('truncated')
        v = p[pos:pos + n]
        pos += n
        return v

    version = take(1)[0]
    if version not in (1, 2, 3, 4):
        raise ValueError('version')
    m = Manifest()
    m.chunk_id, m.chunk_hash, m.nonce = take(32), take(32), take(12)
    m.expires = struct.unpack('>Q', take(8))[0]
    m.threshold, m.total_shares, n = take(3)
    m.shards = [(take(1)[0], take(32)) for _ in range(n)]
    if version >= 2:
        for _ in range(take(1)[0]):
            k = take(take(1)[0])
            v = take(struct.unpack('>H', take(2))[0])
            m.metadata.setdefault(k, v)
    if version >= 3:
        for _ in range(take(1)[0]):
            scheme = take(take(1)[0]) if version >= 4 else b''
            transport = take(take(1)[0])
            endpoint = take(struct.unpack('>H', take(2))[0])
            m.discovery.append((scheme or transport, transport, endpoint, take(1)[0]))
        m.token_bits = take(1)[0]
        m.advisory = take(struct.unpack('>H', take(2))[0])
        m.attestation = take(32) if take(1)[0] else None
        for _ in range(take(1)[0]):
            uri_b = take(struct.unpack('>H', take(2))[0])
            m.fallback.append((uri_b, take(1)[0]))
    return m


# ------------------------------------------------------------------------------------------------ peer identity / transport session
DH_PRIME = 2147483647
DH_GEN = 5


def dh_public(private):
    return pow(DH_GEN, private, DH_PRIME)


def dh_session_key(private, local_public, remote_public):
    shared = pow(remote_public % DH_PRIME, private, DH_PRIME)
    secret = sha256(struct.pack('>I', shared))
    a, b = sorted((local_public, remote_public))
    return hmac256(secret, struct.pack('>II', a, b))


MSG_REQUEST, MSG_CHUNK, MSG_ACK, MSG_HANDSHAKE, MSG_HANDSHAKE_ACK = 2, 3, 4, 5, 6


def seal_message(session_key, body, nonce):
    """signed (HMAC appended) then encrypted transport frame: nonce | len | ciphertext"""
    signed = body + hmac256(session_key, body)
    return nonce + struct.pack('>I', len(signed)) + chacha20(session_key, nonce, 0, signed)


def make_chunk_ciphertext(chunk_key, chunk_id, nonce, plaintext):
    counter = struct.unpack('<I', chunk_id[:4])[0]
    return chacha20(chunk_key, nonce, counter, plaintext)


class Published:
    """A payload as a publishing node would describe it: key, nonce, shards, manifest and the stored ciphertext."""

    def __init__(self, payload, seed, threshold=1, nshards=1, peer_private=None, filename=None, expires_in=3600, now=None, chunk_id=None):
        self.payload = payload
        self.chunk_id = chunk_id if chunk_id is not None else sha256(payload)   # (a node may store under any id; `eph store` uses the content hash)
        self.key = expand(seed, 32, b'key')
        self.nonce = expand(seed, 12, b'nonce')
        self.peer_private = peer_private if peer_private is not None else 2 + int.from_bytes(expand(seed, 4, b'priv'), 'big') % (DH_PRIME - 4)
        self.peer_public = dh_public(self.peer_private)
        self.peer_id = expand(seed, 32, b'peer')
        idx = list(range(1, nshards + 1))
        m = Manifest()
        m.chunk_id = self.chunk_id
        m.chunk_hash = sha256(payload)
        m.nonce = self.nonce
        m.expires = int(now if now is not None else time.time()) + expires_in
        m.threshold = threshold
        m.total_shares = nshards
        m.shards = shamir_split(self.key, threshold, idx, seed)
        if filename is not None:
            m.metadata[b'filename'] = filename
        m.metadata[b'publisher_peer'] = self.peer_id.hex().encode()
        m.metadata[b'publisher_public'] = str(self.peer_public).encode()
        self.manifest = m
        self.ciphertext = make_chunk_ciphertext(self.key, self.chunk_id, self.nonce, payload)


# ------------------------------------------------------------------------------------------------ fake endpoints
class _Server:
    """one listening loopback socket served by a daemon thread; handle(conn) runs per connection (sequentially)"""

    def __init__(self):
        self.sock = socket.socket(socket.AF_INET, socket.SOCK_STREAM)
        self.sock.setsockopt(socket.SOL_SOCKET, socket.SO_REUSEADDR, 1)
        self.sock.bind(('127.0.0.1', 0))
        self.sock.listen(16)
        self.port = self.sock.getsockname()[1]
        self.contacts = []          # filled by handle()
        self.lock = threading.Lock()
        self.closed = False
        self.thread = threading.Thread(target=self._loop, daemon=True)
        self.thread.start()

    def _loop(self):
        while not self.closed:
            try:
                conn, _ = self.sock.accept()
            except OSError:
                return
            try:
                conn.settimeout(10)
                self.handle(conn)
            except Exception as ex:  # a broken connection is the CLI's business, not ours
                with self.lock:
                    self.contacts.append({'error': repr(ex)})
            finally:
                try:
                    conn.close()
                except OSError:
                    pass

    def close(self):
        self.closed = True
        try:
            self.sock.close()
        except OSError:
            pass

    def reset(self):
        with self.lock:
            self.contacts = []

    def note(self, **kw):
        kw['t'] = time.monotonic()
        with self.lock:
            self.contacts.append(kw)


def _recv_exact(conn, n):
    buf = bytearray()
    while len(buf) < n:
        d = conn.recv(n - len(buf))
        if not d:
            raise ConnectionError('eof after %d of %d bytes' % (len(buf), n))
        buf += d
    return bytes(buf)


def _recv_line(conn, limit=70000):
    buf = bytearray()
    while True:
        d = conn.recv(1)
        if not d:
            raise ConnectionError('eof in line')
        if d == b'\n':
            return bytes(buf)
        if d != b'\r':
            buf += d
        if len(buf) > limit:
            raise ConnectionError('line too long')


CONTROL_BEHAVIOURS = ('honest', 'other', 'truncated', 'extended', 'empty', 'hash_prefix', 'hash_suffix', 'short_body', 'wrong_size', 'error', 'ok_nofile', 'close')
# behaviours whose streamed bytes differ from the stored payload (must never become the output file)
CONTROL_DISHONEST_BYTES = ('other', 'truncated', 'extended', 'empty', 'hash_prefix', 'hash_suffix')


def dishonest_bytes(payload, kind, arg):
    """the bytes a dishonest endpoint streams instead of `payload` (arg: drawn integer)"""
    if kind == 'other':
        alt = bytearray(expand(arg, len(payload), b'other'))
        if bytes(alt) == payload and alt:
            alt[0] ^= 1
        if not alt:
            alt = bytearray(b'X')
        return bytes(alt)
    if kind == 'truncated':
        if len(payload) <= 1:
            return b''
        return payload[:arg % len(payload)]          # strictly shorter (may be empty)
    if kind == 'extended':
        return payload + expand(arg, 1 + arg % 40, b'ext')
    if kind == 'empty':
        return b''
    if kind in ('hash_prefix', 'hash_suffix'):
        # other bytes whose SHA-256 agrees with the payload's in the first / last two bytes (a partial comparison would accept them)
        want = sha256(payload)
        for i in range(1 << 22):
            alt = b'collide-%d-%d' % (arg, i)
            h = sha256(alt)
            if alt != payload and (h[:2] == want[:2] if kind == 'hash_prefix' else h[-2:] == want[-2:]):
                return alt
        return b'collide-none'
    raise ValueError(kind)


class ControlEndpoint(_Server):
    """Speaks the line-based control protocol.  self.plan = dict(behaviour=..., payload=bytes, arg=int, omit_len_when_empty=bool)"""

    def __init__(self):
        self.plan = None
        super().__init__()

    def handle(self, conn):
        fields = {}
        order = []
        while True:
            line = _recv_line(conn)
            if line == b'':
                break
            k, sep, v = line.partition(b':')
            if sep:
                fields[k.upper()] = v
                order.append(k.upper())
        body = b''
        if b'PAYLOAD-LENGTH' in fields:
            body = _recv_exact(conn, int(fields[b'PAYLOAD-LENGTH']))
        cmd = fields.get(b'COMMAND', b'').upper()
        plan = self.plan or {'behaviour': 'error'}
        self.note(command=cmd.decode('latin1'), behaviour=plan['behaviour'], fields={k.decode('latin1'): v.decode('latin1')[:80] for k, v in fields.items() if k != b'MANIFEST'},
                  manifest=fields.get(b'MANIFEST', b'').decode('latin1'))
        if cmd != b'FETCH':
            conn.sendall(b'STATUS:ERROR\nCODE:ERR_UNSUPPORTED_COMMAND\nMESSAGE:fake endpoint only serves FETCH\n\n')
            return
        beh = plan['behaviour']
        payload = plan.get('payload', b'')
        arg = plan.get('arg', 0)

        def ok(data, size=None, with_len=True):
            head = 'STATUS:OK\nCODE:OK_FETCH\nSIZE:%d\nSTREAM:CLIENT\n' % (len(data) if size is None else size)
            if with_len:
                head += 'PAYLOAD-LENGTH:%d\n' % len(data)
            conn.sendall(head.encode() + b'\n' + data)

        if beh == 'honest':
            # the real daemon omits PAYLOAD-LENGTH for an empty chunk; both forms are offered
            ok(payload, with_len=not (len(payload) == 0 and plan.get('omit_len_when_empty', True)))
        elif beh in CONTROL_DISHONEST_BYTES:
            ok(dishonest_bytes(payload, beh, arg), size=len(payload) if arg & 1 else None)
        elif beh == 'wrong_size':
            ok(payload, size=len(payload) + 1 + arg % 1000)
        elif beh == 'short_body':
            head = 'STATUS:OK\nCODE:OK_FETCH\nSIZE:%d\nSTREAM:CLIENT\nPAYLOAD-LENGTH:%d\n\n' % (len(payload), len(payload) + 1 + arg % 50)
            conn.sendall(head.encode() + payload)
        elif beh == 'ok_nofile':
            conn.sendall(b'STATUS:OK\nCODE:OK_FETCH\nSIZE:%d\nOUTPUT:/nonexistent/daemon-side/file\n\n' % len(payload))
        elif beh == 'close':
            pass
        else:
            conn.sendall(b'STATUS:ERROR\nCODE:ERR_FETCH_CHUNK_MISSING\nMESSAGE:Chunk not available locally\n\n')
        try:
            conn.shutdown(socket.SHUT_WR)
        except OSError:
            pass


TRANSPORT_BEHAVIOURS = ('honest', 'other', 'truncated', 'extended', 'empty', 'plaintext', 'other_key', 'hash_prefix', 'hash_suffix', 'reject', 'handshake_reject',
                        'close_after_handshake', 'garbage_frame', 'relay_refuse')
TRANSPORT_DISHONEST_BYTES = ('other', 'truncated', 'extended', 'empty', 'plaintext', 'other_key', 'hash_prefix', 'hash_suffix')


class TransportPeer(_Server):
    """A publishing peer on the transport protocol (plain handshake frame, encrypted+signed ACK / REQUEST / CHUNK).
    With relay=True the connection starts with the relay's `CONNECT <from> <to>` line answered by `OK`.
    self.plan = dict(behaviour=..., pub=Published, arg=int)"""

    def __init__(self, relay=False):
        self.relay = relay
        self.plan = None
        super().__init__()

    def handle(self, conn):
        plan = self.plan
        if plan is None:
            return
        beh, pub, arg = plan['behaviour'], plan['pub'], plan.get('arg', 0)
        rec = {'behaviour': beh, 'relay': self.relay, 'stage': 'connected'}
        try:
            if self.relay:
                line = _recv_line(conn)
                rec['connect_line'] = line.decode('latin1')
                parts = line.split(b' ')
                if len(parts) != 3 or parts[0] != b'CONNECT' or parts[2] != pub.peer_id.hex().encode():
                    rec['stage'] = 'bad_connect'
                    conn.sendall(b'ERR\n')
                    return
                if beh == 'relay_refuse':
                    rec['stage'] = 'relay_refused'
                    conn.sendall(b'ERR target offline\n')
                    return
                conn.sendall(b'OK\n')
            client_id = _recv_exact(conn, 32)
            n = struct.unpack('>I', _recv_exact(conn, 4))[0]
            if n > 4096:
                rec['stage'] = 'bad_handshake_len'
                return
            hs = _recv_exact(conn, n)
            if len(hs) < 2 + 13 or hs[1] != MSG_HANDSHAKE:
                rec['stage'] = 'bad_handshake'
                return
            client_public = struct.unpack('>I', hs[2:6])[0]
            version = min(max(hs[14], 1), 4)
            key = dh_session_key(pub.peer_private, pub.peer_public, client_public)
            nonce_src = iter(range(1 << 30))

            def send(body):
                conn.sendall(seal_message(key, body, expand((arg, next(nonce_src)), 12, b'tn')))

            accepted = beh != 'handshake_reject'
            send(bytes([version, MSG_HANDSHAKE_ACK, 1 if accepted else 0, version]) + struct.pack('>I', pub.peer_public))
            rec['stage'] = 'acked'
            if not accepted or beh == 'close_after_handshake':
                return
            head = _recv_exact(conn, 16)
            ln = struct.unpack('>I', head[12:16])[0]
            if ln > (1 << 20):
                rec['stage'] = 'bad_request_len'
                return
            pt = chacha20(key, head[:12], 0, _recv_exact(conn, ln))
            body, mac = pt[:-32], pt[-32:]
            rec['request_mac_ok'] = hmac.compare_digest(mac, hmac256(key, body))
            rec['request_type'] = body[1] if len(body) > 1 else None
            req_chunk = body[2:34]
            rec['request_chunk_matches'] = req_chunk == pub.chunk_id
            rec['stage'] = 'requested'
            if beh == 'reject':
                send(bytes([version, MSG_ACK, 0]) + req_chunk + client_id)
                rec['stage'] = 'rejected'
                return
            if beh == 'garbage_frame':
                conn.sendall(expand(arg, 12, b'gn') + struct.pack('>I', 48) + expand(arg, 48, b'gf'))
                rec['stage'] = 'garbage'
                return
            if beh == 'honest':
                data = pub.ciphertext
            elif beh == 'plaintext':
                data = pub.payload
            elif beh == 'other_key':
                data = make_chunk_ciphertext(expand(arg, 32, b'otherkey'), pub.chunk_id, pub.nonce, pub.payload)
            elif beh in ('other', 'hash_prefix', 'hash_suffix'):
                data = make_chunk_ciphertext(pub.key, pub.chunk_id, pub.nonce, dishonest_bytes(pub.payload, beh, arg))
            else:  # truncated / extended / empty stored bytes
                data = dishonest_bytes(pub.ciphertext, beh, arg)
            send(bytes([version, MSG_CHUNK]) + struct.pack('>II', 600, len(data)) + pub.chunk_id + data)
            rec['stage'] = 'served'
            rec['served_len'] = len(data)
            try:
                conn.settimeout(2)
                conn.recv(1)      # wait for the client to hang up so the frame is not reset away
            except OSError:
                pass
        finally:
            self.note(**rec)


class DeadPort:
    """a bound but never listening socket: connecting is refused at once"""

    def __init__(self):
        self.sock = socket.socket(socket.AF_INET, socket.SOCK_STREAM)
        self.sock.bind(('127.0.0.1', 0))
        self.port = self.sock.getsockname()[1]

    def close(self):
        self.sock.close()


class PortAlloc:
    """ports for real daemons: a per-worker slice of 11000..30999 (below the ephemeral range), each probed before use"""

    def __init__(self, slot=0):
        self.base = 11000 + ((os.getppid() * 8 + slot) % 40) * 500
        self.next = (os.getpid() * 37) % 500

    def take(self):
        for _ in range(500):
            port = self.base + self.next
            self.next = (self.next + 1) % 500
            try:
                for host in ('127.0.0.1', '0.0.0.0'):
                    s = socket.socket(socket.AF_INET, socket.SOCK_STREAM)
                    try:
                        s.bind((host, port))
                    finally:
                        s.close()
                return port
            except OSError:
                continue
        raise RuntimeError('no free port')


# ------------------------------------------------------------------------------------------------ processes / files
def cli_env():
    e = dict(os.environ)
    e['ASAN_OPTIONS'] = 'detect_leaks=0:abort_on_error=0:allocator_may_return_null=1:max_allocation_size_mb=1024'
    e['UBSAN_OPTIONS'] = 'print_stacktrace=1'
    e.pop('LD_PRELOAD', None)
    return e


def run_cli(args, cwd=None, timeout=60, stdin=b''):
    """-> dict(rc, out, err, hung, secs).  args are bytes or str (argv may carry arbitrary non-NUL bytes)."""
    t0 = time.monotonic()
    p = subprocess.Popen([EPH] + list(args), cwd=cwd, env=cli_env(), stdin=subprocess.PIPE, stdout=subprocess.PIPE, stderr=subprocess.PIPE)
    hung = False
    try:
        out, err = p.communicate(stdin, timeout=timeout)
    except subprocess.TimeoutExpired:
        hung = True
        p.kill()
        out, err = p.communicate()
    return {'rc': p.returncode, 'out': out.decode('utf-8', 'replace'), 'err': err.decode('utf-8', 'replace'), 'hung': hung, 'secs': time.monotonic() - t0}


def sanitizer_report(text):
    for marker in ('ERROR: AddressSanitizer', 'runtime error:', 'ERROR: LeakSanitizer', 'UndefinedBehaviorSanitizer'):
        if marker in text:
            i = text.index(marker)
            return text[max(0, i - 100):i + 600]
    return None


def snapshot_tree(root):
    """{relative path bytes: ('d'|'l'|'f', sha256 hex or link target)} — byte paths, symlinks not followed"""
    snap = {}
    rootb = os.fsencode(root)
    for dirpath, dirnames, filenames in os.walk(rootb):
        rel = os.path.relpath(dirpath, rootb)
        for d in dirnames:
            p = os.path.join(dirpath, d)
            key = os.path.normpath(os.path.join(rel, d))
            snap[key] = ('l', os.readlink(p)) if os.path.islink(p) else ('d', '')
        for f in filenames:
            p = os.path.join(dirpath, f)
            key = os.path.normpath(os.path.join(rel, f))
            if os.path.islink(p):
                snap[key] = ('l', os.readlink(p))
            else:
                with open(p, 'rb') as fh:
                    snap[key] = ('f', hashlib.sha256(fh.read()).hexdigest())
    return snap


def name_ok(name):
    """the C31 predicate on a file name (bytes)"""
    if name in (b'', b'.', b'..') or len(name) > 255:
        return False
    for ch in name:
        if ch < 0x20 or ch == 0x7F or ch in b'/\\:*?"<>|':
            return False
    return True


def show(b, limit=60):
    """printable rendering of bytes for descriptions"""
    s = ''.join(chr(c) if 0x20 <= c < 0x7F and c != 0x5C else '\\x%02x' % c for c in b[:limit])
    return s + ('..(%dB)' % len(b) if len(b) > limit else '')


# ------------------------------------------------------------------------------------------------ worker report
def fnv64(s):
    h = 1469598103934665603
    for c in s.encode('utf-8', 'replace'):
        h = ((h ^ c) * 1099511628211) & 0xFFFFFFFFFFFFFFFF
    return h


class CaseFailure(Exception):
    def __init__(self, signature, message):
        super().__init__(signature + ': ' + message)
        self.signature, self.message = signature, message


class CaseExcluded(Exception):
    def __init__(self, signature):
        super().__init__(signature)
        self.signature = signature


class Ctx:
    """per-case context mirroring verif::Ctx"""

    def __init__(self, known):
        self.known = known
        self.desc = []
        self.labels = []
        self.nontrivial = False
        self.excluded = {}

    def note(self, s):
        self.desc.append(s)

    def label(self, l):
        if l not in self.labels:
            self.labels.append(l)

    def nt(self, l):
        self.nontrivial = True
        self.label(l)

    def is_known(self, sig):
        return sig in self.known

    def count_excluded(self, sig):
        self.excluded[sig] = self.excluded.get(sig, 0) + 1

    def fail(self, sig, msg):
        if self.is_known(sig):
            self.count_excluded(sig)
            raise CaseExcluded(sig)
        raise CaseFailure(sig, msg)

    def text(self):
        return ' '.join(self.desc)


class Reporter:
    def __init__(self, pid, rule):
        self.pid, self.rule = pid, rule
        self.known = set(x for x in os.environ.get('VERIF_KNOWN', '').split(',') if x)
        self.evaluations = 0
        self.nontrivial = 0
        self.hashes = set()
        self.labels = {}
        self.excluded = {}
        self.samples = []
        self.failed = None            # dict(signature, message, desc, case)
        self.shrinking = False
        self.t0 = time.time()
        self.notes = []

    def run(self, case, fn):
        """fn(ctx, case); returns after book-keeping; re-raises CaseFailure (for Hypothesis to shrink)"""
        ctx = Ctx(self.known)
        try:
            fn(ctx, case)
            res = 'pass'
        except CaseExcluded:
            res = 'excluded'
        except CaseFailure as f:
            res = 'fail'
            self.failed = {'signature': f.signature, 'message': f.message, 'desc': ctx.text()[:4000], 'case': case}
        if not self.shrinking:
            self.evaluations += 1
            for l in ctx.labels:
                self.labels[l] = self.labels.get(l, 0) + 1
            for k, v in ctx.excluded.items():
                self.excluded[k] = self.excluded.get(k, 0) + v
            if ctx.nontrivial and res != 'excluded':
                self.nontrivial += 1
                h = fnv64(ctx.text())
                if h not in self.hashes:
                    self.hashes.add(h)
                    n = len(self.hashes)
                    if n <= 3 or (n & (n - 1)) == 0:
                        if len(self.samples) < 8:
                            self.samples.append(ctx.text()[:700])
                        else:
                            self.samples[3 + n % 5] = ctx.text()[:700]
        self.last = (res, ctx)
        if res == 'fail':
            self.shrinking = True
            raise CaseFailure(self.failed['signature'], self.failed['message'])
        return ctx

    def report(self):
        r = {'id': self.pid, 'evaluations': self.evaluations, 'nontrivial': self.nontrivial, 'distinct_nontrivial': len(self.hashes),
             'labels': self.labels, 'excluded': self.excluded, 'samples': self.samples, 'once': '', 'rule': self.rule, 'failed': bool(self.failed),
             'wall_s': round(time.time() - self.t0, 2), 'notes': self.notes, 'hashes': sorted(self.hashes)}
        if self.failed:
            r.update(signature=self.failed['signature'], message=self.failed['message'], fail_desc=self.failed['desc'], fail_case=self.failed['case'])
        return r


def hypothesis_run(reporter, strategy, case_fn, examples, seed_value, explicit=()):
    """Run `examples` generated cases (plus the explicit ones first) through case_fn under Hypothesis."""
    from hypothesis import HealthCheck, Phase, given, seed, settings
    try:  # keep shrinking of slow CLI cases bounded
        import hypothesis.internal.conjecture.engine as eng
        if hasattr(eng, 'MAX_SHRINKING_SECONDS'):
            eng.MAX_SHRINKING_SECONDS = int(os.environ.get('VERIF_SHRINK_SECS', '45'))
        if hasattr(eng, 'MAX_SHRINKS'):
            eng.MAX_SHRINKS = int(os.environ.get('VERIF_MAX_SHRINKS', '100'))
    except Exception:
        pass
    for case in explicit:
        try:
            reporter.run(case, case_fn)
        except CaseFailure:
            return

    @seed(seed_value)
    @settings(database=None, deadline=None, report_multiple_bugs=False, max_examples=examples, derandomize=False,
              suppress_health_check=list(HealthCheck), phases=[Phase.generate, Phase.shrink], print_blob=False)
    @given(strategy)
    def test(case):
        reporter.run(case, case_fn)

    try:
        test()
    except CaseFailure:
        pass
    except BaseException as ex:  # Hypothesis wraps nothing here, but a flaky failure is reported by it as Flaky
        name = type(ex).__name__
        if reporter.failed is None or name not in ('Flaky', 'FlakyFailure', 'ExceptionGroup'):
            if isinstance(ex, (KeyboardInterrupt, SystemExit)):
                raise
            reporter.notes.append('hypothesis raised %s: %s' % (name, str(ex)[:300]))
            if reporter.failed is None:
                raise
        else:
            reporter.notes.append('failure did not reproduce during shrinking (%s)' % name)


def parse_opts(argv):
    """<script> [--cases N] [--workers W]          run (W worker processes of N/W cases each), write VERIF_OUT / VERIF_HASHES
       <script> --worker I --cases N --report F    one worker (internal)
       <script> --replay FILE [--faildir D]        re-run one saved case without Hypothesis"""
    opts = {'cases': 64, 'workers': 8, 'worker': None, 'report': None, 'replay': None}
    i = 0
    while i < len(argv):
        a = argv[i]
        if a in ('--cases', '--workers', '--worker'):
            opts[a[2:]] = int(argv[i + 1]); i += 2
        elif a in ('--report', '--replay', '--faildir'):
            opts[a[2:]] = argv[i + 1]; i += 2
        else:
            i += 1
    return opts


def merge_and_write(pid, rule, parts, faildir):
    """merge worker reports into the single report `check` reads; returns the merged dict"""
    out = {'id': pid, 'evaluations': 0, 'nontrivial': 0, 'labels': {}, 'excluded': {}, 'samples': [], 'once': '', 'rule': rule, 'failed': False, 'notes': []}
    hashes = set()
    fails = []
    for r in parts:
        out['evaluations'] += r['evaluations']
        out['nontrivial'] += r['nontrivial']
        for k, v in r['labels'].items():
            out['labels'][k] = out['labels'].get(k, 0) + v
        for k, v in r['excluded'].items():
            out['excluded'][k] = out['excluded'].get(k, 0) + v
        hashes.update(r.get('hashes', []))
        out['notes'] += r.get('notes', [])
        if r.get('failed'):
            fails.append(r)
    for j in range(3):
        for r in parts:
            if j < len(r['samples']) and len(out['samples']) < 12:
                out['samples'].append(r['samples'][j])
    out['distinct_nontrivial'] = len(hashes)
    if fails:
        f = min(fails, key=lambda r: len(json.dumps(r['fail_case'])))
        os.makedirs(faildir, exist_ok=True)
        path = os.path.join(faildir, 'fail.json')
        with open(path, 'w') as fh:
            json.dump({'property': pid, 'signature': f['signature'], 'message': f['message'], 'case': f['fail_case']}, fh, indent=1)
        out.update(failed=True, signature=f['signature'], message=f['message'], fail_desc=f['fail_desc'], fail_tape=path)
    vo = os.environ.get('VERIF_OUT')
    if vo:
        with open(vo, 'w') as fh:
            json.dump(out, fh)
    vh = os.environ.get('VERIF_HASHES')
    if vh:
        with open(vh, 'wb') as fh:
            array.array('Q', sorted(hashes)).tofile(fh)
    return out


def main_entry(pid, rule, script_path, make_strategy, case_fn, explicit_cases=lambda: [], setup=lambda: None, teardown=lambda: None, need_eph=True):
    """Common main().  make_strategy() -> Hypothesis strategy of JSON-able case dicts; case_fn(ctx, case)."""
    opts = parse_opts(sys.argv[1:])
    os.environ['VERIF_WORKER_SLOT'] = str(opts['worker'] or 0)
    if need_eph and not os.path.exists(EPH):
        print('BROKEN: %s missing (make -C %s build/bin/eph)' % (EPH, ROOT), file=sys.stderr)
        return 3
    if not chacha20_selfcheck():
        print('BROKEN: ChaCha20 self-check failed', file=sys.stderr)
        return 3
    seed_value = int(os.environ.get('VERIF_SEED', '1') or 1)
    if opts['replay']:
        with open(opts['replay']) as fh:
            doc = json.load(fh)
        case = doc.get('case', doc)
        rep = Reporter(pid, rule)
        setup()
        try:
            try:
                rep.run(case, case_fn)
            except CaseFailure:
                pass
        finally:
            teardown()
        status, ctx = rep.last
        print('CASE ' + ctx.text()[:4000])
        if status == 'fail':
            print('RESULT fail signature=%s\nMESSAGE %s' % (rep.failed['signature'], rep.failed['message']))
            return 2
        if status == 'excluded':
            print('RESULT excluded')
            return 0
        print('RESULT pass nontrivial=%d' % (1 if ctx.nontrivial else 0))
        return 0
    if opts['worker'] is not None:
        rep = Reporter(pid, rule)
        setup()
        try:
            hypothesis_run(rep, make_strategy(), case_fn, opts['cases'], seed_value * 1000003 + opts['worker'] * 7919 + 1,
                           explicit=explicit_cases() if opts['worker'] == 0 else ())
        finally:
            teardown()
        with open(opts['report'], 'w') as fh:
            json.dump(rep.report(), fh)
        return 0
    # driver
    faildir = os.environ.get('VERIF_FAILDIR') or tempfile.mkdtemp(prefix='verif_' + pid + '_')
    os.makedirs(faildir, exist_ok=True)
    workers = max(1, min(opts['workers'], opts['cases']))
    per = (opts['cases'] + workers - 1) // workers
    procs = []
    for w in range(workers):
        rp = os.path.join(faildir, 'worker%d.json' % w)
        cmd = [sys.executable, script_path, '--worker', str(w), '--cases', str(per), '--report', rp]
        procs.append((w, rp, subprocess.Popen(cmd, stdout=open(os.path.join(faildir, 'worker%d.log' % w), 'w'), stderr=subprocess.STDOUT)))
    parts = []
    broken = False
    for w, rp, p in procs:
        rc = p.wait()
        if rc != 0 or not os.path.exists(rp):
            broken = True
            with open(os.path.join(faildir, 'worker%d.log' % w), errors='replace') as fh:
                print('worker %d exited %s:\n%s' % (w, rc, fh.read()[-3000:]), file=sys.stderr)
            continue
        with open(rp) as fh:
            parts.append(json.load(fh))
    out = merge_and_write(pid, rule, parts, faildir)
    print('%s evaluations=%d nontrivial=%d distinct=%d failed=%s %s' % (pid, out['evaluations'], out['nontrivial'], out['distinct_nontrivial'], out['failed'], out.get('signature', '')))
    print('labels', json.dumps(out['labels'], sort_keys=True))
    if out['excluded']:
        print('excluded', json.dumps(out['excluded']))
    if out['failed']:
        print('FAIL', out['signature'], out['message'][:600])
        print('case', out['fail_desc'][:1200])
        print('replay file', out['fail_tape'])
    return 3 if broken else 0
