#!/usr/bin/env python3-vt
# C31 (CLI part) — when `eph fetch` targets a directory the file it creates is a direct child of that directory with
# a sanitised name, whatever filename the manifest suggests (black-box, Hypothesis drives the real binary).
#
# A case = filename metadata bytes built from a grammar (traversal sequences, separators, reserved characters,
# control bytes incl. NUL, empty, dots, dots around control bytes, > 255 bytes, non-UTF-8, absolute paths that point
# at real directories of the sentinel tree), a way of choosing the directory (existing directory / new directory with a
# trailing slash / --fetch-default-dir / profile cli.fetch.default_directory / current directory) and a payload.  The
# manifest comes from the independent Python encoder; an honest fake local daemon streams the payload.
# Oracle: the sentinel tree is diffed: exactly one new regular file, a direct child of the chosen directory, whose
# name satisfies the predicate of the property statement and whose content is the payload; nothing else changes.
import os, shutil, sys, tempfile

sys.path.insert(0, os.path.dirname(os.path.abspath(__file__)))
import cli_common as cc

PID = 'C31'
RULE = ('Hypothesis case -> filename metadata = pieces from {safe token, "..", ".", "/", "\\\\", control byte (0..31, 127), reserved :*?"<>|, byte >= 0x80, 300 x "A", "../"*k, '
        '"..\\\\"*k, ".<ctl>.", "..<ctl>", space, absolute path of a real directory outside / inside the chosen one} (also: no filename entry at all); directory chosen by '
        '--out <existing dir> | --out <new dir>/ | positional <existing dir> | --fetch-default-dir | profile cli.fetch.default_directory (YAML --config) | current directory; '
        'flags --fetch-use-manifest-name / --fetch-ignore-manifest-name; payload 1..64 bytes streamed by an honest fake local daemon. Oracle: tree diff shows exactly one new '
        'regular file, a direct child of the chosen directory (realpath), name non-empty, not "."/"..", <= 255 bytes, without / \\\\ : * ? " < > | or bytes < 0x20 / 0x7F, content == '
        'payload, exit 0; no other entry created, changed or removed. Non-trivial: the metadata contains a separator, a dot segment or a control byte. Distinct = hash of the rendered case.')

SAFE = [b'a', b'file', b'name.txt', b'x y', b'report.tar.gz', '日本'.encode(), b'UPPER', b'-rf', b'~', b'$HOME', b'%2e%2e', b'con', b'keep|me']
RESERVED = b':*?"<>|'
STATE = {}


def setup():
    STATE['local'] = cc.ControlEndpoint()
    STATE['tmp'] = tempfile.mkdtemp(prefix='hK_c31_')


def teardown():
    STATE['local'].close()
    shutil.rmtree(STATE['tmp'], ignore_errors=True)


def make_strategy():
    from hypothesis import strategies as st
    ctl = st.integers(0, 32).map(lambda v: 0x7F if v == 32 else v)
    piece = st.one_of(
        st.sampled_from(range(len(SAFE))).map(lambda i: ['safe', i]),
        st.sampled_from(range(len(SAFE))).map(lambda i: ['safe', i]),
        st.just(['lit', '2e2e']), st.just(['lit', '2e']), st.just(['lit', '2f']), st.just(['lit', '5c']),
        ctl.map(lambda v: ['lit', '%02x' % v]),
        st.integers(0, 6).map(lambda i: ['lit', '%02x' % RESERVED[i]]),
        st.integers(0x80, 0xFF).map(lambda v: ['lit', '%02x' % v]),
        st.integers(200, 400).map(lambda n: ['long', n]),
        st.integers(1, 4).map(lambda k: ['lit', (b'../' * k).hex()]),
        st.integers(1, 4).map(lambda k: ['lit', (b'..\\' * k).hex()]),
        ctl.map(lambda v: ['lit', (b'.' + bytes([v]) + b'.').hex()]),
        ctl.map(lambda v: ['lit', (b'..' + bytes([v])).hex()]),
        st.just(['lit', '20']),
        st.sampled_from(['outside', 'outside/evil.txt', 'in', 'in/t', 'in/t/sub/x']).map(lambda p: ['abs', p]),
    )
    name = st.one_of(st.none(), st.lists(piece, min_size=0, max_size=6))
    return st.fixed_dictionaries({
        'name': name,
        'mode': st.sampled_from(['out_existing', 'out_existing', 'out_new_slash', 'positional_existing', 'default_dir_flag', 'profile_default_dir', 'cwd']),
        'name_flag': st.sampled_from([None, None, None, '--fetch-use-manifest-name', '--fetch-ignore-manifest-name']),
        'payload_hex': st.binary(min_size=1, max_size=64).map(lambda b: b.hex()),
        'seed': st.integers(0, 2 ** 32),
    })


def explicit_cases():
    def c(pieces, mode='out_existing'):
        return {'name': pieces, 'mode': mode, 'name_flag': None, 'payload_hex': b'payload'.hex(), 'seed': 3}
    return [c([['lit', (b'.\x01.').hex()]]), c([['lit', (b'../' * 2).hex()], ['safe', 1]]), c([['abs', 'outside/evil.txt']]), c([['lit', '2f'], ['safe', 0], ['lit', '2f2e2e']], 'out_new_slash'),
            c([['long', 300]], 'default_dir_flag'), c(None, 'cwd'), c([['lit', '2e2e09']], 'profile_default_dir')]


def build_name(case, root):
    if case['name'] is None:
        return None
    out = b''
    for kind, v in case['name']:
        if kind == 'safe':
            out += SAFE[v % len(SAFE)]
        elif kind == 'lit':
            out += bytes.fromhex(v)
        elif kind == 'long':
            out += b'A' * v
        elif kind == 'abs':
            out += os.fsencode(os.path.join(root, v))
    return out


def segments_have_dots(name):
    for seg in name.replace(b'\\', b'/').split(b'/'):
        bare = bytes(ch for ch in seg if not (ch < 0x20 or ch == 0x7F))
        if bare in (b'.', b'..'):
            return True
    return False


def run_case(ctx, case):
    payload = bytes.fromhex(case['payload_hex'])
    root = tempfile.mkdtemp(prefix='case_', dir=STATE['tmp'])
    try:
        # sentinel tree:  root/outside/sentinel.txt  root/in/sibling.txt  root/in/t (the chosen directory)  root/cwd
        os.makedirs(os.path.join(root, 'outside'))
        os.makedirs(os.path.join(root, 'in'))
        os.makedirs(os.path.join(root, 'cwd'))
        os.makedirs(os.path.join(root, 'cfg'))
        with open(os.path.join(root, 'outside', 'sentinel.txt'), 'w') as fh:
            fh.write('sentinel')
        with open(os.path.join(root, 'in', 'sibling.txt'), 'w') as fh:
            fh.write('sibling')
        target = os.path.join(root, 'in', 't')
        mode = case['mode']
        if mode != 'out_new_slash':
            os.makedirs(target)
        name = build_name(case, root)
        pub = cc.Published(payload, case['seed'], filename=name)
        uri = cc.encode_manifest(pub.manifest)
        local = STATE['local']
        local.reset()
        local.plan = {'behaviour': 'honest', 'payload': payload}
        ctx.note('name=%s mode=%s flag=%s payload=%dB' % ('<absent>' if name is None else "'" + cc.show(name.replace(os.fsencode(root), b'{ROOT}'), 90) + "'(%dB)" % len(name),
                                                         mode, case['name_flag'], len(payload)))
        if name is not None:
            if b'/' in name or b'\\' in name:
                ctx.nt('has_separator')
            if segments_have_dots(name):
                ctx.nt('has_dot_segment')
            if any(ch < 0x20 or ch == 0x7F for ch in name):
                ctx.nt('has_control_byte')
            if len(name) > 255:
                ctx.label('longer_than_255')
            if any(k == 'abs' for k, _ in case['name']):
                ctx.label('absolute_real_path')
            last = name.rsplit(b'/', 1)[-1]
            bare = bytes(ch for ch in last if not (ch < 0x20 or ch == 0x7F))
            if bare in (b'.', b'..') and bare != last:
                ctx.nt('last_segment_dots_around_control')
        else:
            ctx.label('no_filename_entry')
        ctx.label('mode_' + mode)

        glob = ['--control-host', '127.0.0.1', '--control-port', str(local.port), '--yes']
        tail = []
        cwd = os.path.join(root, 'cwd')
        if mode == 'out_existing':
            tail = ['--out', target]
        elif mode == 'out_new_slash':
            tail = ['--out', target + '/']
        elif mode == 'positional_existing':
            tail = [target]
        elif mode == 'default_dir_flag':
            glob += ['--fetch-default-dir', target]
        elif mode == 'profile_default_dir':
            cfgp = os.path.join(root, 'cfg', 'eph.yaml')
            with open(cfgp, 'w') as fh:
                fh.write('profiles:\n  default:\n    cli:\n      fetch:\n        default_directory: "%s"\n' % target)
            glob += ['--config', cfgp]
        elif mode == 'cwd':
            cwd = target
        if case['name_flag']:
            glob.append(case['name_flag'])
        before = cc.snapshot_tree(root)
        r = cc.run_cli(glob + ['fetch', uri] + tail, cwd=cwd, timeout=60)
        after = cc.snapshot_tree(root)
        created = sorted(k for k in after if k not in before)
        changed = sorted(k for k in before if k not in after or after[k] != before[k])
        ctx.note('-> rc=%s created=[%s]' % (r['rc'], ', '.join(cc.show(k, 70) for k in created)))
        if r['hung']:
            ctx.label('timeout_inconclusive')
            return
        san = cc.sanitizer_report(r['err'])
        if san:
            ctx.fail('C31:sanitizer-report', san)
        if r['rc'] is not None and r['rc'] < 0:
            ctx.fail('C31:cli-killed-by-signal', 'exit status %s; stderr: %s' % (r['rc'], r['err'][-400:]))
        if changed:
            ctx.fail('C31:cli-output-escapes-directory', 'an existing entry was changed or removed: %s' % cc.show(changed[0], 120))
        tprefix = b'in/t/'
        files = [k for k in created if not (k == b'in/t' and mode == 'out_new_slash')]
        real_target = os.path.realpath(os.fsencode(target))
        for k in files:
            full = os.path.join(os.fsencode(root), k)
            if os.path.dirname(os.path.realpath(full)) != real_target or not k.startswith(tprefix) or b'/' in k[len(tprefix):]:
                ctx.fail('C31:cli-output-escapes-directory', "created '%s' which is not a direct child of the chosen directory in/t (filename metadata %s; all created: %s)" % (
                    cc.show(k, 120), cc.show(name or b'', 120), [cc.show(x, 60) for x in created]))
            if after[k][0] != 'f':
                ctx.fail('C31:cli-output-escapes-directory', "created '%s' which is not a regular file" % cc.show(k, 120))
        if len(files) == 1:
            leaf = files[0][len(tprefix):]
            if not cc.name_ok(leaf):
                ctx.fail('C31:cli-unsanitised-name', "created a file named '%s' for filename metadata '%s'" % (cc.show(leaf, 120), cc.show(name or b'', 120)))
            if after[files[0]][1] != cc.sha256(payload).hex():
                ctx.fail('C31:cli-wrong-content', 'the created file does not hold the payload')
            ctx.label('name_kept' if leaf == name else 'name_rewritten')
        served = any(c.get('command') == 'FETCH' for c in local.contacts)
        if not served:
            ctx.label('daemon_not_contacted')
        if r['rc'] != 0 or len(files) != 1:
            ctx.fail('C31:cli-no-output-file', 'eph fetch exited %s and created %d entries %s for filename metadata %s (honest daemon %s); stderr: %s' % (
                r['rc'], len(files), [cc.show(x, 60) for x in created], cc.show(name or b'', 120), 'served the payload' if served else 'was not contacted', r['err'][-300:]))
    finally:
        shutil.rmtree(root, ignore_errors=True)


if __name__ == '__main__':
    sys.exit(cc.main_entry(PID, RULE, os.path.abspath(__file__), make_strategy, run_case, explicit_cases, setup, teardown))
