// C35 — no remote input can crash the node or the daemon (three surfaces, ASan+UBSan, liveness probe)
#define VERIF_FUZZ_TARGET 1
#include "verif.hpp"
#include "vclock.hpp"
#include "node_access.hpp"
#include "control_harness.hpp"

#include <sys/socket.h>
#include <sys/stat.h>

namespace verif {
const PropertyInfo kInfo = {
    "C35", 8, 16, 14,
    "tape -> header selects the surface. (a) pre-handshake: arbitrary / structured bytes (identity + length-prefixed handshake frames with generated lengths, types, truncations) written to a "
    "socketpair that the node adopts as an inbound connection. (b) post-handshake: a fake peer with a registered session key delivers validly SIGNED messages to the transport handler: "
    "ANNOUNCE with manifests built by the harness with adversarial shard sets (duplicate indices, index 0, threshold 0 / 255 / > shards, 255 shards), expired / far-future expiry, "
    "assigned shards present or not, huge TTLs; CHUNK (random bytes, genuine ciphertext, empty) for chunks whose manifest was just announced; REQUEST / ACK for unknown chunks; wrong "
    "message/payload combinations; truncated / length-patched encodings carrying a VALID MAC; unsigned garbage; handshake payloads with arbitrary keys; ticks and clock advances in between. (c) control plane: grammar-built requests with adversarial "
    "values (empty / relative / directory OUT:, MANIFEST of adversarial manifests for a locally stored chunk, huge / negative / non-numeric PAYLOAD-LENGTH and TTL, very long lines, missing "
    "blank line, binary bytes) and raw bytes to the in-process ControlServer (stream cap generated incl. 0 = unlimited). Oracle: no sanitizer report, no exception out of a handler (an "
    "exception on a daemon thread is std::terminate), no hang (watchdog); after every case a liveness probe: control PING is answered and a benign peer's REQUEST for a stored chunk still "
    "yields the CHUNK. Non-trivial: >= 1 message passed signature checks and reached a handler body, or a control request that parsed."};

namespace {
using namespace ephemeralnet;
using std::chrono::seconds;
using WP = std::chrono::system_clock::time_point;

ChunkId cid(int i) { ChunkId c{}; Prng g(3500 + i); g.fill(c.data(), c.size()); c[0] = static_cast<std::uint8_t>(0x90 + i); return c; }

protocol::Manifest adversarial_manifest(const protocol::Manifest& base, Rec r, Prng& g, std::string& what) {
    protocol::Manifest m = base;
    switch (r.a(2) % 12) {
        case 0: what = "genuine"; break;
        case 1: if (m.shards.size() >= 2) m.shards[1].index = m.shards[0].index; what = "dup-index-in-first-t"; break;
        case 2: for (auto& s : m.shards) s.index = 7; what = "all-same-index"; break;
        case 3: m.shards[0].index = 0; what = "index-0"; break;
        case 4: m.threshold = 0; what = "threshold-0"; break;
        case 5: m.threshold = 255; what = "threshold-255"; break;
        case 6: { m.shards.resize(255, m.shards[0]); for (std::size_t i = 0; i < m.shards.size(); ++i) m.shards[i].index = static_cast<std::uint8_t>(i + 1); m.threshold = 255; m.total_shares = 255; what = "255-shards"; break; }
        case 7: m.expires_at = std::chrono::system_clock::now() - seconds(10); what = "expired"; break;
        case 8: m.expires_at = std::chrono::system_clock::now() + seconds(7000000000LL); what = "far-future"; break;
        case 9: { if (m.shards.size() >= 2) { m.shards[1] = m.shards[0]; } what = "dup-share-value-and-index"; break; }
        case 10: { for (auto& s : m.shards) s.value.fill(0); if (m.shards.size() >= 2) m.shards[1].index = m.shards[0].index; what = "dup-zero-shares"; break; }
        case 11: { m.shards.resize(1); m.threshold = 1; m.total_shares = 1; what = "single-share"; break; }
    }
    (void)g;
    return m;
}

void liveness_probe(Ctx& c, Node& node, vctl::Server* server, vnode::FakePeer& benign, const ChunkId& stored, const char* after) {
    if (server) {
        vctl::Request ping;
        ping.command = "PING";
        ping.with_payload_length = false;
        auto resp = server->roundtrip(ping, 5000);
        // a loaded machine can stall a thread for seconds: only a server that stays silent for a further 2 x 20 s is judged
        for (int attempt = 0; attempt < 2 && !resp.ok; ++attempt) { c.label("ping_retried_after_timeout"); resp = server->roundtrip(ping, 20000); }
        if (!resp.ok || resp.field("CODE") != "OK_PING") c.fail("C35:daemon-stopped-serving", std::string("control PING not answered after ") + after);
    }
    benign.drain();
    protocol::Message m{};
    m.type = protocol::MessageType::Request;
    m.payload = protocol::RequestPayload{stored, benign.id};
    benign.deliver(m);
    bool got_chunk = false;
    for (auto& msg : benign.drain()) if (std::get_if<protocol::ChunkPayload>(&msg.payload)) got_chunk = true;
    // release the upload slot again
    protocol::Message ack{};
    ack.type = protocol::MessageType::Acknowledge;
    protocol::AcknowledgePayload ap{};
    ap.chunk_id = stored;
    ap.peer_id = benign.id;
    ap.accepted = true;
    ack.payload = ap;
    benign.deliver(ack);
    if (!got_chunk) c.fail("C35:node-stopped-serving", std::string("a benign peer's REQUEST for a stored chunk got no CHUNK after ") + after);
    (void)node;
}

template <typename F>
void guarded(Ctx& c, const char* where, F&& f) {
    try {
        f();
    } catch (const CaseFailure&) {
        throw;
    } catch (const CaseExcluded&) {
        throw;
    } catch (const std::exception& e) {
        std::string type = typeid(e).name();
        c.fail(std::string("C35:exception-escapes-") + where, std::string("an exception escaped the ") + where + " (on a daemon thread this is std::terminate): " + e.what());
    }
}
}  // namespace

void run_case(Ctx& c) {
    vclock::Frozen frozen(c.tape.header_seed());
    vnode::silence_streams();
    const Tape& t = c.tape;
    const unsigned surface = t.h(0) % 3;
    Config cfg;
    cfg.min_manifest_ttl = seconds(2);
    cfg.max_manifest_ttl = seconds(86400);
    cfg.announce_min_interval = seconds(1);
    cfg.announce_burst_limit = 1000;
    cfg.announce_burst_window = seconds(1);
    cfg.announce_pow_difficulty = 0;
    cfg.handshake_pow_difficulty = static_cast<std::uint8_t>(t.h(1) % 3);
    cfg.upload_max_parallel_transfers = 0;
    cfg.upload_max_transfers_per_peer = 0;
    cfg.key_rotation_interval = seconds(3600);
    cfg.fetch_retry_attempt_limit = 2;
    cfg.nat_stun_enabled = false;
    cfg.relay_enabled = false;
    cfg.identity_seed = 35;
    static const std::size_t kCaps[] = {32ull << 20, 0, 1024, 65536};
    cfg.control_stream_max_bytes = kCaps[t.h(2) % 4];
    Config pcfg = cfg;
    pcfg.identity_seed = 36;
    Node node(vnode::make_id(351, 0x35), cfg);
    Node publisher(vnode::make_id(352, 0x36), pcfg);
    vnode::FakePeer benign, evil;
    if (!benign.attach(node, vnode::make_id(353, 0x37), 351) || !evil.attach(node, vnode::make_id(354, 0x38), 352)) c.fail("C35:harness-error", "attach failed");
    vnode::QuiesceGuard guard{node, {&benign, &evil}};
    const ChunkId stored = cid(0);
    node.store_chunk(stored, Prng(1).bytes(48), seconds(80000));
    protocol::Manifest base[3];
    std::vector<std::uint8_t> cipher[3];
    for (int k = 1; k <= 2; ++k) {
        base[k] = publisher.store_chunk(cid(k), Prng(10 + k).bytes(40), seconds(3600));
        cipher[k] = publisher.export_chunk_record(cid(k))->data;
    }
    // a foreign manifest for the LOCALLY stored chunk id (data poisoning is not judged, crashes are)
    base[0] = publisher.store_chunk(stored, Prng(1).bytes(48), seconds(3600));
    cipher[0] = publisher.export_chunk_record(stored)->data;
    c.note(surface == 0 ? "surface=pre-handshake" : surface == 1 ? "surface=signed-messages" : "surface=control");

    std::unique_ptr<vctl::Server> server;
    if (surface == 2) {
        server = std::make_unique<vctl::Server>(node);
        if (!server->ok()) c.fail("C35:harness-error", "control server did not start");
    }
    std::string scratch = "/tmp/verif_C35_" + std::to_string(::getpid());
    ::mkdir(scratch.c_str(), 0755);
    // relative OUT: paths are resolved by the daemon against its working directory: keep them inside the scratch dir
    struct Cwd { char old[4096]; Cwd(const std::string& d) { if (!::getcwd(old, sizeof old)) old[0] = 0; (void)!::chdir(d.c_str()); } ~Cwd() { if (old[0]) (void)!::chdir(old); } } cwd_guard(scratch);

    for (std::size_t i = 0; i < t.nrec(); ++i) {
        Rec r = t.r(i);
        Prng g(r.seed());
        if (surface == 0) {
            // ---------------- (a) bytes on a fresh inbound connection
            int sv[2];
            if (::socketpair(AF_UNIX, SOCK_STREAM, 0, sv) != 0) continue;
            std::vector<std::uint8_t> bytes;
            unsigned kind = r.op() % 8;
            if (kind >= 1) { auto idb = g.bytes(32); if (kind == 2) idb.assign(evil.id.begin(), evil.id.end()); bytes.insert(bytes.end(), idb.begin(), idb.end()); }
            if (kind == 0) bytes = g.bytes(r.a(0) % 80);
            if (kind >= 3) {
                // length-prefixed handshake frame
                protocol::Message hs{};
                hs.version = static_cast<std::uint8_t>(r.a(1) % 6);
                hs.type = (kind == 5) ? protocol::MessageType::Request : protocol::MessageType::TransportHandshake;
                protocol::TransportHandshakePayload p{};
                p.public_identity = static_cast<std::uint32_t>(g.next());
                p.work_nonce = g.next();
                p.requested_version = static_cast<std::uint8_t>(r.a(2));
                if (kind == 5) hs.payload = protocol::RequestPayload{cid(1), evil.id}; else hs.payload = p;
                auto enc = protocol::encode(hs);
                if (kind >= 6) {
                    // the first frame of a connection is decoded before anything is authenticated: an ANNOUNCE / CHUNK
                    // typed frame whose 32-bit length fields are huge or sum past 2^32
                    protocol::Message am{};
                    am.version = static_cast<std::uint8_t>(1 + r.a(1) % 4);
                    static const std::uint32_t kTriples[][3] = {{0xFFFFFFF0u, 0x10u, 1u}, {0x80000000u, 0x80000000u, 0u}, {0xFFFFFFFFu, 1u, 0u}, {0xFFFFFFFFu, 0xFFFFFFFFu, 2u},
                                                                {0u, 0xFFFFFFFFu, 1u}, {0x7FFFFFFFu, 0x7FFFFFFFu, 2u}, {0xFFFFFF00u, 0x80u, 0x80u}, {1u, 0xFFFFFFFEu, 1u}};
                    if (kind == 6) {
                        am.type = protocol::MessageType::Announce;
                        protocol::AnnouncePayload a{};
                        a.chunk_id = cid(1);
                        a.peer_id = evil.id;
                        a.endpoint = "127.0.0.1:9";
                        a.manifest_uri = "eph://x";
                        a.assigned_shards = {1};
                        am.payload = a;
                        enc = protocol::encode(am);
                        const auto& tr = kTriples[r.a(2) % 8];
                        for (int f = 0; f < 3 && enc.size() >= 18; ++f)
                            for (int b = 0; b < 4; ++b) enc[6 + 4 * f + b] = static_cast<std::uint8_t>(tr[f] >> (24 - 8 * b));
                    } else {
                        am.type = protocol::MessageType::Chunk;
                        protocol::ChunkPayload cp{};
                        cp.chunk_id = cid(1);
                        cp.data = g.bytes(r.a(2) % 40);
                        am.payload = cp;
                        enc = protocol::encode(am);
                        static const std::uint32_t kLens[] = {0xFFFFFFFFu, 0xFFFFFFF8u, 0x80000000u, 0x7FFFFFFFu, 0xFFFFFFD8u, 0x100000u};
                        for (int b = 0; b < 4 && enc.size() >= 10; ++b) enc[6 + b] = static_cast<std::uint8_t>(kLens[r.a(2) % 6] >> (24 - 8 * b));
                        if (r.a(4) & 1) enc.resize(2 + r.a(4) % 8);   // fewer than 8 payload bytes
                    }
                }
                std::uint32_t len = static_cast<std::uint32_t>(enc.size());
                switch (kind >= 6 ? 0u : r.a(3) % 5) { case 1: len = 0; break; case 2: len = 0xFFFFFFFFu; break; case 3: len += 7; break; case 4: if (!enc.empty()) enc.resize(enc.size() / 2); break; default: break; }
                bytes.push_back(static_cast<std::uint8_t>(len >> 24)); bytes.push_back(static_cast<std::uint8_t>(len >> 16)); bytes.push_back(static_cast<std::uint8_t>(len >> 8)); bytes.push_back(static_cast<std::uint8_t>(len));
                bytes.insert(bytes.end(), enc.begin(), enc.end());
            }
            c.note("|inbound(kind%u,%zuB)", kind, bytes.size());
            if (!bytes.empty()) (void)!::send(sv[0], bytes.data(), bytes.size(), MSG_NOSIGNAL);
            ::shutdown(sv[0], SHUT_WR);
            guarded(c, "inbound-connection-handler", [&] { vnode::Access::sessions(node).adopt_inbound_socket(static_cast<network::SessionManager::SocketHandle>(sv[1])); });
            ::close(sv[0]);
            c.nt("inbound_bytes");
        } else if (surface == 1) {
            // ---------------- (b) signed messages with adversarial contents
            int k = r.a(0) % 3;
            unsigned op = r.op() % 11;
            switch (op) {
                case 10: {
                    // the adversarial peer disconnects: what it announced stays behind (pending fetches now have to dial the advertised endpoint)
                    c.note("|evil-disconnects");
                    evil.close();
                    for (int w = 0; w < 400 && vnode::Access::sessions(node).is_connected(evil.id); ++w) std::this_thread::sleep_for(std::chrono::microseconds(500));
                    c.label("announcer_disconnected");
                    break;
                }
                case 0: case 1: case 2: {
                    std::string what;
                    auto m = adversarial_manifest(base[k], r, g, what);
                    vclock::advance(seconds(1));
                    protocol::Message msg{};
                    msg.version = static_cast<std::uint8_t>(r.a(7) % 2 ? 4 : 3);
                    msg.type = protocol::MessageType::Announce;
                    protocol::AnnouncePayload a{};
                    a.chunk_id = m.chunk_id;
                    a.peer_id = evil.id;
                    a.ttl = seconds((r.a(3) & 1) ? 4294967295LL : 60);
                    try { a.manifest_uri = protocol::encode_manifest(m); } catch (const std::exception&) { a.manifest_uri = "eph://"; }
                    {   // advertised endpoint: later dialled by the fetch retry once the announcer's session is gone
                        static const char* kEndpoints[] = {"", "", "127.0.0.1:9", "127.0.0.1:999999999999999999999999", "127.0.0.1:-1", "127.0.0.1:", ":9", "127.0.0.1:65536",
                                                           "127.0.0.1:4294967296", "[::1]:9", "localhost:abc", "127.0.0.1:9:9", "127.0.0.1: 9", "127.0.0.1:0x10", "127.0.0.1:18446744073709551616", ":"};
                        a.endpoint = kEndpoints[r.a(5) % 16];
                        if (r.a(5) == 0xFF) a.endpoint = std::string(300, 'x') + ":1";
                    }
                    if (r.a(4) & 1) a.assigned_shards = {m.shards.empty() ? std::uint8_t{1} : m.shards.front().index};
                    if (r.a(4) & 2) a.assigned_shards.assign(300, 1);
                    msg.payload = a;
                    c.note("|announce(c%d,%s,ep='%s')", k, what.c_str(), a.endpoint.size() > 40 ? "long" : a.endpoint.c_str());
                    guarded(c, "transport-message-handler", [&] { evil.deliver(msg); });
                    c.nt("signed_message_reached_handler");
                    break;
                }
                case 3: case 4: {
                    protocol::Message msg{};
                    msg.type = protocol::MessageType::Chunk;
                    protocol::ChunkPayload p{};
                    p.chunk_id = cid(k);
                    switch (r.a(1) % 4) { case 0: p.data = cipher[k]; break; case 1: p.data = g.bytes(r.a(2)); break; case 2: break; case 3: p.data = cipher[(k + 1) % 3]; break; }
                    p.ttl = seconds(r.a(3) & 1 ? 0 : 4294967295LL);
                    msg.payload = p;
                    c.note("|chunk(c%d,%zuB)", k, p.data.size());
                    guarded(c, "transport-message-handler", [&] { evil.deliver(msg); });
                    c.nt("signed_message_reached_handler");
                    break;
                }
                case 5: {
                    protocol::Message msg{};
                    msg.type = (r.a(1) & 1) ? protocol::MessageType::Request : protocol::MessageType::Acknowledge;
                    ChunkId unknown{};
                    g.fill(unknown.data(), unknown.size());
                    if (r.a(1) & 1) msg.payload = protocol::RequestPayload{(r.a(2) & 1) ? unknown : cid(k), evil.id};
                    else { protocol::AcknowledgePayload ap{}; ap.chunk_id = (r.a(2) & 1) ? unknown : cid(k); ap.peer_id = evil.id; ap.accepted = (r.a(3) & 1) != 0; msg.payload = ap; }
                    c.note("|%s", (r.a(1) & 1) ? "request" : "ack");
                    guarded(c, "transport-message-handler", [&] { evil.deliver(msg); });
                    c.nt("signed_message_reached_handler");
                    break;
                }
                case 6: {
                    // mismatched type / payload alternative, odd versions
                    protocol::Message msg{};
                    msg.version = static_cast<std::uint8_t>(r.a(1));
                    msg.type = static_cast<protocol::MessageType>(1 + r.a(2) % 6);
                    if (r.a(3) & 1) msg.payload = protocol::RequestPayload{cid(k), evil.id}; else msg.payload = protocol::HandshakeAckPayload{};
                    c.note("|mismatched(type%u)", 1 + r.a(2) % 6);
                    guarded(c, "transport-message-handler", [&] { evil.deliver(msg); });
                    break;
                }
                case 7: {
                    network::TransportMessage tm{};
                    tm.peer_id = evil.id;
                    if (r.a(5) & 1) {
                        // a validly MACed but malformed body: truncate / patch a genuine encoding, then sign it
                        protocol::Message msg{};
                        msg.type = protocol::MessageType::Announce;
                        protocol::AnnouncePayload a{};
                        a.chunk_id = cid(k);
                        a.peer_id = evil.id;
                        a.endpoint = "127.0.0.1:9";
                        a.manifest_uri = protocol::encode_manifest(base[k]);
                        a.assigned_shards = {1, 2, 3};
                        msg.payload = a;
                        if (r.a(6) % 3 == 1) { msg.type = protocol::MessageType::Chunk; protocol::ChunkPayload cp{}; cp.chunk_id = cid(k); cp.data = g.bytes(40); msg.payload = cp; }
                        auto body = protocol::encode(msg);
                        switch (r.a(2) % 4) {
                            case 0: body.resize(body.size() - std::min<std::size_t>(body.size(), 1 + r.a(3) % 40)); break;
                            case 1: if (body.size() > 20) { std::size_t pos = 6 + r.a(3) % 12; body[pos] = 0xFF; body[pos + 1] = 0xFF; } break;  // length fields
                            case 2: body.resize(2 + r.a(3) % 30); break;
                            case 3: if (!body.empty()) body[r.a16(3) % body.size()] ^= 0x80; break;
                        }
                        auto key = evil.key();
                        auto mac = refs::hmac_sha256(key.data(), key.size(), body.data(), body.size());
                        body.insert(body.end(), mac.begin(), mac.end());
                        tm.payload = body;
                        c.note("|signed-malformed(%zuB)", tm.payload.size());
                        guarded(c, "transport-message-handler", [&] { vnode::Access::handle_transport_message(node, tm); });
                        c.nt("signed_message_reached_handler");
                        break;
                    }
                    tm.payload = g.bytes(r.a(1) % 120);
                    c.note("|garbage(%zuB)", tm.payload.size());
                    guarded(c, "transport-message-handler", [&] { vnode::Access::handle_transport_message(node, tm); });
                    break;
                }
                case 8: {
                    protocol::TransportHandshakePayload p{};
                    static const std::uint32_t kKeys[] = {0u, 1u, 2u, 2147483646u, 2147483647u, 2147483648u, 4294967295u, 12345u};
                    p.public_identity = kKeys[r.a(1) % 8];
                    p.work_nonce = g.next();
                    p.requested_version = r.a(2);
                    c.note("|handshake(key=%u)", p.public_identity);
                    guarded(c, "handshake-handler", [&] { vnode::Access::handle_transport_handshake(node, (r.a(3) & 1) ? evil.id : vnode::make_id(r.a(4), 0x55), p); });
                    break;
                }
                case 9: {
                    vclock::advance(seconds(1 + r.a(1) % 30));
                    c.note("|tick");
                    guarded(c, "tick", [&] { node.tick(); });
                    break;
                }
            }
            evil.drain();
        } else {
            // ---------------- (c) control plane
            vctl::Request q;
            unsigned op = r.op() % 10;
            std::string what;
            switch (op) {
                case 0: {  // FETCH with adversarial OUT
                    static const char* kOut[] = {"", ".", "/", "relative/../x", "/proc/self/nonexistent/x", "\x01", " "};
                    q.command = "FETCH";
                    q.with_payload_length = false;
                    std::string out = kOut[r.a(1) % 7];
                    if (r.a(1) % 7 == 3) out = scratch + "/" + out;
                    q.headers.push_back({"MANIFEST", protocol::encode_manifest(node.store_chunk(stored, Prng(1).bytes(48), seconds(80000)))});
                    q.headers.push_back({"OUT", out});
                    what = "fetch-out:'" + out + "'";
                    break;
                }
                case 1: case 2: {  // FETCH of an adversarial manifest for the locally stored chunk
                    std::string w;
                    auto m = adversarial_manifest(base[0], r, g, w);
                    q.command = "FETCH";
                    q.with_payload_length = false;
                    try { q.headers.push_back({"MANIFEST", protocol::encode_manifest(m)}); } catch (const std::exception&) { q.headers.push_back({"MANIFEST", "eph://x"}); }
                    q.headers.push_back({"STREAM", "client"});
                    what = "fetch-manifest:" + w;
                    break;
                }
                case 3: {  // STORE with adversarial lengths
                    static const char* kLen[] = {"0", "1", "268435456", "18446744073709551615", "-1", "abc", "", "9223372036854775808"};
                    q.command = "STORE";
                    q.payload = g.bytes(r.a(2) % 64);
                    q.payload_length_override = kLen[r.a(1) % 8];
                    if (cfg.control_stream_max_bytes == 0 && (r.a(1) % 8 == 3 || r.a(1) % 8 == 7)) q.payload_length_override = "268435456";  // see level_note
                    q.headers.push_back({"TTL", (r.a(3) & 1) ? "60" : "99999999999999999999"});
                    q.half_close_after_send = true;
                    what = "store-len:" + q.payload_length_override;
                    break;
                }
                case 4: {  // STORE with adversarial PATH / STORE-POW
                    q.command = "STORE";
                    q.payload = g.bytes(16);
                    std::string path(r.a(1) % 3 == 0 ? 9000 : 5, 'a');
                    if (r.a(2) & 1) path = "../../" + path + "\x7f/..";
                    q.headers.push_back({"PATH", path});
                    q.headers.push_back({"STORE-POW", (r.a(3) & 1) ? "18446744073709551616" : "-5"});
                    q.headers.push_back({"TTL", "60"});
                    what = "store-path";
                    break;
                }
                case 5: {  // very long line / no terminator
                    q.raw = "COMMAND:" + std::string(r.a(1) % 2 ? 20000 : 16384, 'P') + ((r.a(2) & 1) ? "\n\n" : "");
                    q.half_close_after_send = true;
                    what = "long-line";
                    break;
                }
                case 6: {  // raw bytes
                    auto b = g.bytes(r.a(1));
                    q.raw.assign(b.begin(), b.end());
                    if (q.raw.empty()) q.raw = "\n";
                    q.half_close_after_send = true;
                    what = "raw";
                    break;
                }
                case 7: {  // header soup
                    q.raw = "command:" + std::string((r.a(1) & 1) ? "status" : "DEFAULTS") + "\r\n:novalue\nNOCOLON\nPAYLOAD-LENGTH:0\nPAYLOAD-LENGTH:3\n\nab";
                    q.half_close_after_send = true;
                    what = "header-soup";
                    break;
                }
                case 8: { q.command = (r.a(1) & 1) ? "LIST" : "DIAGNOSTICS"; q.with_payload_length = false; what = q.command; break; }
                case 9: { q.command = "METRICS"; q.with_payload_length = false; q.headers.push_back({"TOKEN", std::string(r.a(1) * 40, 'x')}); what = "METRICS"; break; }
            }
            c.note("|ctl(%s)", what.c_str());
            auto resp = server->roundtrip(q, 8000);
            if (resp.ok) c.nt("control_request_answered");
            (void)resp;
        }
    }
    liveness_probe(c, node, server.get(), benign, stored, "the case");
    if (server) server->stop();
    // scratch dir cleanup (files the daemon may have written)
    std::string cmd = "rm -rf '" + scratch + "'";
    (void)!::system(cmd.c_str());
}
}  // namespace verif
