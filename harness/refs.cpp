#include "refs.hpp"

#include <cstring>
#include <openssl/evp.h>
#include <openssl/hmac.h>
#include <openssl/sha.h>

namespace refs {

Digest sha256(const std::uint8_t* p, std::size_t n) {
    Digest d{};
    unsigned int len = 0;
    static const std::uint8_t dummy = 0;
    EVP_Digest(p ? p : &dummy, n, d.data(), &len, EVP_sha256(), nullptr);
    return d;
}

Digest hmac_sha256(const std::uint8_t* key, std::size_t klen, const std::uint8_t* p, std::size_t n) {
    Digest d{};
    unsigned int len = 0;
    static const std::uint8_t dummy = 0;
    HMAC(EVP_sha256(), key ? key : &dummy, static_cast<int>(klen), p ? p : &dummy, n, d.data(), &len);
    return d;
}

namespace {
inline std::uint32_t rotl(std::uint32_t v, int c) { return (v << c) | (v >> (32 - c)); }
inline void qr(std::uint32_t& a, std::uint32_t& b, std::uint32_t& c, std::uint32_t& d) {
    a += b; d ^= a; d = rotl(d, 16);
    c += d; b ^= c; b = rotl(b, 12);
    a += b; d ^= a; d = rotl(d, 8);
    c += d; b ^= c; b = rotl(b, 7);
}
inline std::uint32_t le32(const std::uint8_t* p) {
    return static_cast<std::uint32_t>(p[0]) | (static_cast<std::uint32_t>(p[1]) << 8) |
           (static_cast<std::uint32_t>(p[2]) << 16) | (static_cast<std::uint32_t>(p[3]) << 24);
}
}  // namespace

void chacha20_block(const std::uint8_t key[32], const std::uint8_t nonce[12], std::uint32_t counter, std::uint8_t out[64]) {
    std::uint32_t s[16];
    s[0] = 0x61707865; s[1] = 0x3320646e; s[2] = 0x79622d32; s[3] = 0x6b206574;
    for (int i = 0; i < 8; ++i) s[4 + i] = le32(key + 4 * i);
    s[12] = counter;
    for (int i = 0; i < 3; ++i) s[13 + i] = le32(nonce + 4 * i);
    std::uint32_t w[16];
    std::memcpy(w, s, sizeof s);
    for (int i = 0; i < 10; ++i) {
        qr(w[0], w[4], w[8], w[12]); qr(w[1], w[5], w[9], w[13]);
        qr(w[2], w[6], w[10], w[14]); qr(w[3], w[7], w[11], w[15]);
        qr(w[0], w[5], w[10], w[15]); qr(w[1], w[6], w[11], w[12]);
        qr(w[2], w[7], w[8], w[13]); qr(w[3], w[4], w[9], w[14]);
    }
    for (int i = 0; i < 16; ++i) {
        std::uint32_t v = w[i] + s[i];
        out[4 * i] = static_cast<std::uint8_t>(v);
        out[4 * i + 1] = static_cast<std::uint8_t>(v >> 8);
        out[4 * i + 2] = static_cast<std::uint8_t>(v >> 16);
        out[4 * i + 3] = static_cast<std::uint8_t>(v >> 24);
    }
}

Bytes chacha20(const std::uint8_t key[32], const std::uint8_t nonce[12], std::uint32_t counter, const std::uint8_t* in, std::size_t n) {
    Bytes out(n);
    std::uint8_t ks[64];
    for (std::size_t off = 0; off < n; off += 64) {
        chacha20_block(key, nonce, counter, ks);
        counter += 1;  // wraps mod 2^32
        std::size_t m = std::min<std::size_t>(64, n - off);
        for (std::size_t i = 0; i < m; ++i) out[off + i] = in[off + i] ^ ks[i];
    }
    return out;
}

Bytes chacha20_openssl(const std::uint8_t key[32], const std::uint8_t nonce[12], std::uint32_t counter, const std::uint8_t* in, std::size_t n) {
    std::uint8_t iv[16];
    iv[0] = static_cast<std::uint8_t>(counter); iv[1] = static_cast<std::uint8_t>(counter >> 8);
    iv[2] = static_cast<std::uint8_t>(counter >> 16); iv[3] = static_cast<std::uint8_t>(counter >> 24);
    std::memcpy(iv + 4, nonce, 12);
    Bytes out(n + 64);
    EVP_CIPHER_CTX* ctx = EVP_CIPHER_CTX_new();
    EVP_EncryptInit_ex(ctx, EVP_chacha20(), nullptr, key, iv);
    int len = 0, total = 0;
    static const std::uint8_t dummy = 0;
    EVP_EncryptUpdate(ctx, out.data(), &len, n ? in : &dummy, static_cast<int>(n));
    total = len;
    EVP_EncryptFinal_ex(ctx, out.data() + total, &len);
    total += len;
    EVP_CIPHER_CTX_free(ctx);
    out.resize(static_cast<std::size_t>(total));
    return out;
}

std::uint8_t gf_mul(std::uint8_t a, std::uint8_t b) {
    std::uint16_t acc = 0, aa = a;
    for (int i = 0; i < 8; ++i) {
        if (b & (1u << i)) acc ^= static_cast<std::uint16_t>(aa << i);
    }
    for (int bit = 15; bit >= 8; --bit) {
        if (acc & (1u << bit)) acc ^= static_cast<std::uint16_t>(0x11D << (bit - 8));
    }
    return static_cast<std::uint8_t>(acc);
}

std::uint8_t gf_inv(std::uint8_t a) {
    // a^254 by repeated multiplication
    std::uint8_t r = 1;
    for (int i = 0; i < 254; ++i) r = gf_mul(r, a);
    return r;
}

std::uint8_t gf_interpolate(const std::vector<std::uint8_t>& xs, const std::vector<std::uint8_t>& ys, std::uint8_t x) {
    std::uint8_t acc = 0;
    for (std::size_t i = 0; i < xs.size(); ++i) {
        std::uint8_t num = 1, den = 1;
        for (std::size_t j = 0; j < xs.size(); ++j) {
            if (i == j) continue;
            num = gf_mul(num, static_cast<std::uint8_t>(x ^ xs[j]));
            den = gf_mul(den, static_cast<std::uint8_t>(xs[i] ^ xs[j]));
        }
        acc ^= gf_mul(ys[i], gf_div(num, den));
    }
    return acc;
}

std::uint64_t modexp(std::uint64_t base, std::uint64_t exp, std::uint64_t mod) {
    if (mod == 1) return 0;
    unsigned __int128 result = 1, b = base % mod;
    while (exp) {
        if (exp & 1) result = (result * b) % mod;
        b = (b * b) % mod;
        exp >>= 1;
    }
    return static_cast<std::uint64_t>(result);
}

unsigned leading_zero_bits(const std::uint8_t* p, std::size_t n) {
    unsigned count = 0;
    for (std::size_t i = 0; i < n; ++i) {
        for (int bit = 7; bit >= 0; --bit) {
            if (p[i] & (1u << bit)) return count;
            ++count;
        }
    }
    return count;
}

void put_be16(Bytes& b, std::uint16_t v) { b.push_back(static_cast<std::uint8_t>(v >> 8)); b.push_back(static_cast<std::uint8_t>(v)); }
void put_be32(Bytes& b, std::uint32_t v) { for (int s = 24; s >= 0; s -= 8) b.push_back(static_cast<std::uint8_t>(v >> s)); }
void put_be64(Bytes& b, std::uint64_t v) { for (int s = 56; s >= 0; s -= 8) b.push_back(static_cast<std::uint8_t>(v >> s)); }

namespace {
Bytes unhex(const char* s) {
    Bytes b;
    auto val = [](char c) { return c <= '9' ? c - '0' : (c | 32) - 'a' + 10; };
    for (; s[0] && s[1]; s += 2) b.push_back(static_cast<std::uint8_t>(val(s[0]) * 16 + val(s[1])));
    return b;
}
}  // namespace

std::string self_check() {
    // FIPS 180-4 "abc"
    {
        const std::uint8_t abc[] = {'a', 'b', 'c'};
        if (sha256(abc, 3) != [] { Digest d{}; auto b = unhex("ba7816bf8f01cfea414140de5dae2223b00361a396177a9cb410ff61f20015ad"); std::memcpy(d.data(), b.data(), 32); return d; }())
            return "sha256(abc)";
    }
    // RFC 4231 test case 2
    {
        Bytes k = {'J', 'e', 'f', 'e'};
        std::string m = "what do ya want for nothing?";
        Bytes d(m.begin(), m.end());
        auto e = unhex("5bdcc146bf60754e6a042426089575c75a003f089d2739839dec58b964ec3843");
        if (std::memcmp(hmac_sha256(k, d).data(), e.data(), 32) != 0) return "hmac rfc4231 tc2";
    }
    // RFC 8439 2.3.2 block function
    {
        Bytes key(32);
        for (int i = 0; i < 32; ++i) key[i] = static_cast<std::uint8_t>(i);
        auto nonce = unhex("000000090000004a00000000");
        std::uint8_t out[64];
        chacha20_block(key.data(), nonce.data(), 1, out);
        auto e = unhex("10f1e7e4d13b5915500fdd1fa32071c4c7d1f4c733c068030422aa9ac3d46c4ed2826446079faa0914c2d705d98b02a2b5129cd1de164eb9cbd083e8a2503c4e");
        if (std::memcmp(out, e.data(), 64) != 0) return "chacha20 block rfc8439 2.3.2";
    }
    // RFC 8439 2.4.2 encryption
    {
        Bytes key(32);
        for (int i = 0; i < 32; ++i) key[i] = static_cast<std::uint8_t>(i);
        auto nonce = unhex("000000000000004a00000000");
        std::string pt = "Ladies and Gentlemen of the class of '99: If I could offer you only one tip for the future, sunscreen would be it.";
        auto ct = chacha20(key.data(), nonce.data(), 1, reinterpret_cast<const std::uint8_t*>(pt.data()), pt.size());
        auto e = unhex("6e2e359a2568f98041ba0728dd0d6981e97e7aec1d4360c20a27afccfd9fae0bf91b65c5524733ab8f593dabcd62b3571639d624e65152ab8f530c359f0861d807ca0dbf500d6a6156a38e088a22b65e52bc514d16ccf806818ce91ab77937365af90bbf74a35be6b40b8eedf2785e42874d");
        if (ct != e) return "chacha20 rfc8439 2.4.2";
        auto o = chacha20_openssl(key.data(), nonce.data(), 1, reinterpret_cast<const std::uint8_t*>(pt.data()), pt.size());
        if (o != e) return "openssl chacha20 vs rfc vector";
    }
    // GF(2^8) reference: 2 is a generator-independent check: a * inv(a) == 1 for all a != 0; distributivity sample
    for (int a = 1; a < 256; ++a) {
        if (gf_mul(static_cast<std::uint8_t>(a), gf_inv(static_cast<std::uint8_t>(a))) != 1) return "gf inverse";
    }
    if (gf_mul(0x80, 2) != 0x1D) return "gf reduction 0x11D";
    // Fermat for the DH prime used by the repository (2^32 - 5)
    if (modexp(5, 4294967291ull - 1, 4294967291ull) != 1) return "modexp fermat";
    return "";
}
}  // namespace refs
