#!/usr/bin/env python3-vt
# C30 — `eph fetch` only writes bytes that match the manifest (black-box, Hypothesis drives the real binary).
#
# A case = a payload, a manifest built by the independent Python encoder (cli_common.py) whose hints steer the
# CLI down up to three discovery paths, a behaviour for the endpoint behind each path, and option flags.
# Endpoints are harness-side fakes that speak the real wire protocols:
#   transport hint  -> TransportPeer (handshake, encrypted+signed REQUEST/CHUNK)          honest or dishonest stored bytes
#   relay hint      -> the same peer behind the relay's CONNECT/OK preamble
#   control hint / control:// fallback / local daemon (--control-port) -> ControlEndpoint  honest or dishonest stream
# Oracle (independent of the CLI): after the CLI exits, every regular file that appeared under the output root has
# sha256 == manifest.chunk_hash (== the payload); if an honest endpoint was actually reached and served a non-empty
# payload, the CLI exits 0 and the output file exists.
import copy, os, re, shutil, socket, subprocess, sys, tempfile, time

sys.path.insert(0, os.path.dirname(os.path.abspath(__file__)))
import cli_common as cc
from cli_common import CONTROL_BEHAVIOURS, CONTROL_DISHONEST_BYTES, TRANSPORT_BEHAVIOURS, TRANSPORT_DISHONEST_BYTES

PID = 'C30'
SIG_CONTROL = 'C30:control-path-no-hash-check'
SIG_TRANSPORT = 'C30:transport-path-unverified-bytes'
RULE = ('Hypothesis case -> chunk id = content hash (1/2), an unrelated id, or the hash of the bytes a dishonest endpoint of the case serves; payload (literal <= 48 bytes, or a size from {0,1,2,63,64,65,255,256,1023,1024,4096,16384,65536} expanded from a seed); manifest from the '
        'independent Python encoder (threshold 1..4 of 1..6 GF(256) shares, token-challenge bits {0,1,4,8}, optional expired expiry) with 1..3 endpoints, each on one path '
        '(transport hint / relay hint / control hint / control:// fallback / local daemon; hint spellings and priorities vary) and with a behaviour: control-type {honest, other '
        'bytes, truncated, extended, empty, other bytes whose SHA-256 shares the first / last two bytes, short body, wrong SIZE, error, OK-without-payload, close, unreachable}; transport-type {honest, ciphertext of other bytes, truncated, '
        'extended, empty, plaintext, ciphertext under another key, ciphertext of bytes with a partially colliding SHA-256, REQUEST rejected, handshake rejected, close after handshake, garbage frame, relay refuses, unreachable}; flags '
        '--direct-only / --transport-only / --control-fallback; output as file path, existing directory or positional. Oracle: every file that appears under the output root hashes '
        'to manifest.chunk_hash (= payload); an honest endpoint that was reached with a payload >= 1 byte => exit 0 and the file exists. Non-trivial: an endpoint that streams '
        'bytes different from the payload was actually contacted and served them. Distinct = hash of the rendered case.')

SIZES = [0, 1, 2, 63, 64, 65, 255, 256, 1023, 1024, 4096, 16384, 65536]
T_SPELL = [('transport', 'tcp'), ('transport', 'transport'), ('', 'tcp'), ('tcp', 'tcp')]
R_SPELL = [('transport', 'relay'), ('relay', 'tcp'), ('relay', 'transport')]
C_SPELL = [('control', 'control'), ('', 'control')]
KINDS = ('transport', 'relay', 'control_hint', 'fallback', 'local')
CONTROL_KINDS = ('control_hint', 'fallback', 'local')

SERVERS = {}


def setup():
    SERVERS['transport'] = [cc.TransportPeer(), cc.TransportPeer()]
    SERVERS['relay'] = [cc.TransportPeer(relay=True), cc.TransportPeer(relay=True)]
    SERVERS['control_hint'] = [cc.ControlEndpoint(), cc.ControlEndpoint()]
    SERVERS['fallback'] = [cc.ControlEndpoint(), cc.ControlEndpoint()]
    SERVERS['local'] = [cc.ControlEndpoint()]
    SERVERS['dead'] = [cc.DeadPort() for _ in range(4)]
    SERVERS['tmp'] = tempfile.mkdtemp(prefix='hK_c30_')


def teardown():
    real = SERVERS.pop('real', None)
    if real:
        real['proc'].kill()
        real['proc'].wait()
    for k, v in SERVERS.items():
        if k == 'tmp':
            shutil.rmtree(v, ignore_errors=True)
        else:
            for s in v:
                s.close()


def real_daemon():
    """a real `eph serve` (the honest publisher for the cross-check cases), started on first use"""
    if 'real' not in SERVERS:
        pa = cc.PortAlloc(9)
        cp, tp = pa.take(), pa.take()
        d = os.path.join(SERVERS['tmp'], 'real')
        os.makedirs(d, exist_ok=True)
        proc = subprocess.Popen([cc.EPH, '--control-port', str(cp), '--transport-port', str(tp), '--storage-dir', os.path.join(d, 'st'), 'serve'], cwd=d, env=cc.cli_env(),
                                stdin=subprocess.DEVNULL, stdout=subprocess.DEVNULL, stderr=subprocess.DEVNULL)
        for _ in range(500):
            try:
                socket.create_connection(('127.0.0.1', cp), timeout=0.2).close()
                break
            except OSError:
                time.sleep(0.02)
        SERVERS['real'] = {'proc': proc, 'control': cp, 'transport': tp, 'dir': d, 'n': 0}
    return SERVERS['real']


def run_real_case(ctx, case):
    """Cross-check against the real publisher: `eph store` on a real daemon, then fetch its manifest (re-encoded by the
    independent codec, hints rewritten) over the daemon's transport listener or through it as the local daemon."""
    payload = payload_of(case)
    variant = case['real']
    ctx.note('REAL-DAEMON %s payload=%dB' % (variant, len(payload)))
    ctx.label('real_daemon_' + variant)
    real = real_daemon()
    real['n'] += 1
    src = os.path.join(real['dir'], 'src%d.bin' % real['n'])
    with open(src, 'wb') as fh:
        fh.write(payload)
    st = cc.run_cli(['--control-port', str(real['control']), '--yes', 'store', src], cwd=real['dir'], timeout=60)
    mm = re.search(r'Manifest: (eph://\S+)', st['out'])
    if st['hung'] or not mm:
        ctx.label('real_daemon_store_failed_inconclusive')
        return
    uri = mm.group(1)
    m = cc.decode_manifest(uri)
    if cc.encode_manifest(m) != uri:
        ctx.fail('C30:harness-error', 'the independent codec does not reproduce the daemon\'s manifest byte for byte')
    if m.chunk_hash != cc.sha256(payload):
        ctx.fail('C30:harness-error', 'the daemon\'s manifest does not carry sha256(payload)')
    m.fallback = []
    m.discovery = []
    flags = []
    local_port = SERVERS['dead'][0].port
    if variant.startswith('transport'):
        m.discovery = [('transport', 'tcp', '127.0.0.1:%d' % real['transport'], 0)]
        flags = ['--transport-only']
    else:
        local_port = real['control']
    if variant == 'transport_hash_mismatch':
        m.chunk_hash = cc.sha256(payload + b'!')      # the peer's (honest) bytes are "other bytes" for this manifest
        ctx.nt('dishonest_transport_served')
    root = tempfile.mkdtemp(prefix='case_', dir=SERVERS['tmp'])
    try:
        out = os.path.join(root, 'out.bin')
        r = cc.run_cli(['--control-port', str(local_port), '--yes', 'fetch', cc.encode_manifest(m), '--out', out] + flags, cwd=root, timeout=90)
        data = None
        if os.path.exists(out):
            with open(out, 'rb') as fh:
                data = fh.read()
    finally:
        shutil.rmtree(root, ignore_errors=True)
    ctx.note('-> rc=%s file=%s' % (r['rc'], 'none' if data is None else '%dB' % len(data)))
    if r['hung']:
        ctx.label('timeout_inconclusive')
        return
    san = cc.sanitizer_report(r['err'])
    if san:
        ctx.fail('C30:sanitizer-report', san)
    if data is not None and cc.sha256(data) != m.chunk_hash:
        ctx.fail(SIG_TRANSPORT if variant.startswith('transport') else SIG_CONTROL,
                 'real daemon, %s: eph fetch exited %s and wrote %d bytes whose hash is not the manifest\'s' % (variant, r['rc'], len(data)))
    if variant != 'transport_hash_mismatch' and (r['rc'] != 0 or data is None):
        ctx.fail('C30:honest-path-no-file', 'real daemon, %s: eph fetch exited %s without the file; stderr: %s | stdout: %s' % (variant, r['rc'], r['err'][-300:], r['out'][-300:].replace('\r', ' ')))


PERMITTED = {   # flag sets under which an endpoint of that kind is attempted at all
    'transport': [[], [], ['--direct-only'], ['--transport-only']],
    'relay': [[], [], ['--direct-only'], ['--transport-only']],
    'control_hint': [[], [], ['--direct-only'], ['--control-fallback'], ['--direct-only', '--control-fallback']],
    'fallback': [[], [], ['--direct-only'], ['--control-fallback'], ['--direct-only', '--control-fallback']],
    'local': [[], [], ['--control-fallback']],
}
ALL_FLAGS = [[], ['--direct-only'], ['--transport-only'], ['--control-fallback'], ['--direct-only', '--control-fallback']]
# contact order of the CLI: transport-class hints, control hints, fallbacks, local daemon
CLASS_RANK = {'transport': 0, 'relay': 0, 'control_hint': 1, 'fallback': 2, 'local': 3}


def make_strategy():
    from hypothesis import strategies as st
    payload = st.one_of(
        st.binary(min_size=0, max_size=48).map(lambda b: {'hex': b.hex()}),
        st.tuples(st.sampled_from(SIZES), st.integers(0, 2 ** 32)).map(lambda t: {'size': t[0], 'seed': t[1]}),
    )
    c_fail = tuple(b for b in CONTROL_BEHAVIOURS if b not in CONTROL_DISHONEST_BYTES and b not in ('honest', 'wrong_size')) + ('unreachable',)
    t_fail = tuple(b for b in TRANSPORT_BEHAVIOURS if b not in TRANSPORT_DISHONEST_BYTES and b != 'honest') + ('unreachable',)

    def behaviour(kind, role):
        control = kind in CONTROL_KINDS
        dishonest = CONTROL_DISHONEST_BYTES if control else TRANSPORT_DISHONEST_BYTES
        fail = c_fail if control else tuple(b for b in t_fail if b != 'relay_refuse' or kind == 'relay')
        honest = ('honest', 'honest', 'wrong_size') if control else ('honest',)
        if role == 'dishonest':
            return st.sampled_from(dishonest)
        if role == 'fail':
            return st.sampled_from(fail)
        if role == 'honest':
            return st.sampled_from(honest)
        return st.sampled_from(dishonest + dishonest + fail + honest)

    @st.composite
    def case(draw):
        n = draw(st.integers(1, 3))
        kinds = [draw(st.sampled_from(KINDS)) for _ in range(n)]
        # shape: everything the CLI contacts before the focus endpoint fails cleanly, the focus is (mostly) dishonest, later ones are free
        shaped = draw(st.integers(0, 9)) < 7
        focus = draw(st.integers(0, n - 1))
        eps = []
        for i, kind in enumerate(kinds):
            if not shaped:
                role = 'any'
            elif i == focus:
                role = draw(st.sampled_from(['dishonest', 'dishonest', 'dishonest', 'honest']))
            elif CLASS_RANK[kind] <= CLASS_RANK[kinds[focus]]:
                role = 'fail'
            else:
                role = 'any'
            eps.append({'kind': kind, 'behaviour': draw(behaviour(kind, role)), 'arg': draw(st.integers(0, 2 ** 16)),
                        'priority': draw(st.integers(0, 3)) + (2 if shaped and i == focus else 0), 'spelling': draw(st.integers(0, 3)), 'peer_query': draw(st.booleans())})
        flags = draw(st.sampled_from(PERMITTED[kinds[focus]])) if draw(st.integers(0, 9)) < 8 else draw(st.sampled_from(ALL_FLAGS))
        return {'payload': draw(payload), 'seed': draw(st.integers(0, 2 ** 32)), 'threshold': draw(st.integers(1, 4)), 'extra_shares': draw(st.integers(0, 2)),
                'token_bits': draw(st.sampled_from([0, 0, 0, 1, 4, 8])), 'expired': draw(st.sampled_from([False] * 14 + [True])), 'endpoints': eps, 'flags': flags,
                'out_mode': draw(st.sampled_from(['file', 'file', 'dir', 'positional'])), 'omit_len_when_empty': draw(st.booleans()),
                'id_mode': draw(st.sampled_from([0, 0, 0, 1, 2, 2]))}

    return case()


def explicit_cases():
    base = {'payload': {'hex': b'hello'.hex()}, 'seed': 1, 'threshold': 1, 'extra_shares': 0, 'token_bits': 0, 'expired': False, 'flags': [], 'out_mode': 'file',
            'omit_len_when_empty': True}
    out = []
    for kind in KINDS:
        for beh in ('honest', 'other'):
            c = copy.deepcopy(base)
            c['endpoints'] = [{'kind': kind, 'behaviour': beh, 'arg': 1, 'priority': 0, 'spelling': 0, 'peer_query': True}]
            out.append(c)
    for i, variant in enumerate(('transport_honest', 'transport_hash_mismatch', 'local_honest')):
        out.append({'real': variant, 'payload': {'size': [1000, 65, 4096][i], 'seed': 40 + i}})
    return out


def payload_of(case):
    p = case['payload']
    if 'hex' in p:
        return bytes.fromhex(p['hex'])
    return cc.expand(p['seed'], p['size'], b'payload')


def run_case(ctx, case):
    if case.get('real'):
        return run_real_case(ctx, case)
    payload = payload_of(case)
    threshold = case['threshold']
    # the chunk id: the content hash (what `eph store` uses), an unrelated id (nodes may store under any id), or the hash of
    # the very bytes a dishonest endpoint of this case will serve (so that "matches the id" and "matches the manifest's content hash" differ)
    id_mode = case.get('id_mode', 0)
    if id_mode == 0 and (case['seed'] & 1) and any(ep['behaviour'] == 'other' and ep['kind'] in ('transport', 'relay') for ep in case['endpoints']):
        id_mode = 2
    chunk_id = None
    if id_mode == 1:
        chunk_id = cc.expand(case['seed'], 32, b'chunk-id')
    elif id_mode == 2:
        others = [ep for ep in case['endpoints'] if ep['behaviour'] == 'other']
        chunk_id = cc.sha256(cc.dishonest_bytes(payload, 'other', others[0]['arg'])) if others else cc.expand(case['seed'], 32, b'chunk-id')
        if others:
            ctx.label('chunk_id_is_hash_of_the_substituted_bytes')
    if id_mode:
        ctx.label('chunk_id_differs_from_content_hash')
    pub = cc.Published(payload, case['seed'], threshold=threshold, nshards=threshold + case['extra_shares'],
                       expires_in=-3600 if case['expired'] else 3600, chunk_id=chunk_id)
    m = pub.manifest
    m.token_bits = case['token_bits']
    ctx.note('payload=%dB[%s] t=%d/%d bits=%d%s' % (len(payload), cc.show(payload, 12), threshold, len(m.shards), m.token_bits, ' EXPIRED' if case['expired'] else ''))

    used = {k: 0 for k in KINDS}
    dead_used = 0
    plan = []      # (endpoint dict, server or None)
    local_port = None
    for ep in case['endpoints']:
        kind, beh = ep['kind'], ep['behaviour']
        if used[kind] >= len(SERVERS[kind]):
            continue
        if kind in CONTROL_KINDS and beh in CONTROL_DISHONEST_BYTES and ctx.is_known(SIG_CONTROL):
            ctx.count_excluded(SIG_CONTROL)     # known finding: dishonest streams only on the transport paths
            beh = 'error'
        server = None
        if beh == 'unreachable':
            if dead_used >= len(SERVERS['dead']):
                continue
            port = SERVERS['dead'][dead_used].port
            dead_used += 1
            used[kind] += 1
        else:
            server = SERVERS[kind][used[kind]]
            used[kind] += 1
            port = server.port
            server.reset()
            if kind in CONTROL_KINDS:
                server.plan = {'behaviour': beh, 'payload': payload, 'arg': ep['arg'], 'omit_len_when_empty': case['omit_len_when_empty']}
            else:
                server.plan = {'behaviour': beh, 'pub': pub, 'arg': ep['arg']}
        prio = ep['priority']
        if kind == 'transport':
            sch, tr = T_SPELL[ep['spelling'] % len(T_SPELL)]
            m.discovery.append((sch, tr, '127.0.0.1:%d' % port, prio))
        elif kind == 'relay':
            sch, tr = R_SPELL[ep['spelling'] % len(R_SPELL)]
            q = ('?peer=' + pub.peer_id.hex()) if ep['peer_query'] else ''
            m.discovery.append((sch, tr, '127.0.0.1:%d%s' % (port, q), prio))
        elif kind == 'control_hint':
            sch, tr = C_SPELL[ep['spelling'] % len(C_SPELL)]
            m.discovery.append((sch, tr, '127.0.0.1:%d' % port, prio))
        elif kind == 'fallback':
            m.fallback.append(('control://127.0.0.1:%d' % port, prio))
        else:
            local_port = port
        plan.append((dict(ep, behaviour=beh), server))
        ctx.note('%s:%s(p%d,s%d,a%d)' % (kind, beh, prio, ep['spelling'], ep['arg']))
    if local_port is None:
        if dead_used < len(SERVERS['dead']):
            local_port = SERVERS['dead'][dead_used].port
        else:
            local_port = SERVERS['dead'][0].port
    ctx.note('flags=%s out=%s' % (','.join(case['flags']) or '-', case['out_mode']))

    uri = cc.encode_manifest(m)
    root = tempfile.mkdtemp(prefix='case_', dir=SERVERS['tmp'])
    try:
        outdir = os.path.join(root, 'o')
        os.mkdir(outdir)
        args = ['--control-host', '127.0.0.1', '--control-port', str(local_port), '--yes', 'fetch', uri]
        if case['out_mode'] == 'file':
            args += ['--out', os.path.join(outdir, 'out.bin')]
        elif case['out_mode'] == 'dir':
            args += ['--out', outdir]
        else:
            args += [os.path.join(outdir, 'positional.bin')]
        args += case['flags']
        r = cc.run_cli(args, cwd=root, timeout=90)
    finally:
        files = {}
        for dp, _, fns in os.walk(os.fsencode(root)):
            for fn in fns:
                with open(os.path.join(dp, fn), 'rb') as fh:
                    files[os.path.relpath(os.path.join(dp, fn), os.fsencode(root))] = fh.read()
        shutil.rmtree(root, ignore_errors=True)

    # what was actually contacted, in time order
    contacts = []
    for ep, server in plan:
        if server is None:
            continue
        with server.lock:
            for c in server.contacts:
                if 't' in c:
                    contacts.append((c['t'], ep, c))
    contacts.sort(key=lambda x: x[0])
    for _, ep, c in contacts:
        ctx.label('reached_' + ep['kind'])
    trail = ' '.join('%s:%s%s' % (ep['kind'], ep['behaviour'], ('/' + c.get('stage', '')) if 'stage' in c else '') for _, ep, c in contacts)
    ctx.note('-> rc=%s contacted=[%s] files=%d' % (r['rc'], trail, len(files)))

    if r['hung']:
        ctx.label('timeout_inconclusive')
        return
    san = cc.sanitizer_report(r['err'])
    if san:
        ctx.fail('C30:sanitizer-report', san)
    if r['rc'] is not None and r['rc'] < 0:
        ctx.fail('C30:cli-killed-by-signal', 'exit status %s; stderr: %s' % (r['rc'], r['err'][-400:]))

    def served(ep, c):
        return c.get('stage') == 'served' if ep['kind'] in ('transport', 'relay') else c.get('command') == 'FETCH'

    def really_dishonest(ep):
        # "empty" when the payload is empty etc.: the streamed bytes coincide with the honest ones, nothing dishonest about it
        beh = ep['behaviour']
        if ep['kind'] in CONTROL_KINDS:
            return beh in CONTROL_DISHONEST_BYTES and cc.dishonest_bytes(payload, beh, ep['arg']) != payload
        if beh not in TRANSPORT_DISHONEST_BYTES:
            return False
        if beh in ('truncated', 'extended', 'empty'):
            return cc.dishonest_bytes(pub.ciphertext, beh, ep['arg']) != pub.ciphertext
        if beh in ('other', 'hash_prefix', 'hash_suffix'):
            return True
        return len(payload) > 0

    dishonest_served = [(ep, c) for _, ep, c in contacts if served(ep, c) and really_dishonest(ep)]
    honest_served = [(ep, c) for _, ep, c in contacts if served(ep, c) and ep['behaviour'] in ('honest', 'wrong_size')]
    for ep, c in dishonest_served:
        ctx.nt('dishonest_' + ('control' if ep['kind'] in CONTROL_KINDS else 'transport') + '_served')
        ctx.label('dishonest_' + ep['kind'] + '_' + ep['behaviour'])
    for _, ep, c in contacts:
        if ep['kind'] in ('transport', 'relay') and c.get('request_mac_ok') is False:
            ctx.fail('C30:harness-error', 'the fake peer could not authenticate the CLI request (harness protocol model is off): %r' % (c,))
    if case['flags']:
        ctx.label('flag' + ''.join(case['flags']))
    if len(plan) >= 2:
        ctx.label('multi_endpoint')

    want = cc.sha256(payload)
    for path, data in files.items():
        if cc.sha256(data) != want:
            last = contacts[-1][1] if contacts else {'kind': 'none', 'behaviour': 'none'}
            sig = SIG_CONTROL if last['kind'] in CONTROL_KINDS else SIG_TRANSPORT
            ctx.fail(sig, 'eph fetch exited %s and left %s (%d bytes, sha256 %s..) but the manifest hash is %s.. (payload %d bytes); last endpoint served: %s/%s; stdout: %s' % (
                r['rc'], os.fsdecode(path), len(data), cc.sha256(data).hex()[:16], want.hex()[:16], len(payload), last['kind'], last['behaviour'], r['out'][-300:].replace('\r', ' ')))
    if files:
        ctx.label('file_written')
    if honest_served and len(payload) >= 1:
        ctx.label('honest_served')
        if r['rc'] != 0 or len(files) != 1:
            ep = honest_served[0][0]
            ctx.fail('C30:honest-path-no-file', 'an honest %s endpoint served the %d-byte payload but eph fetch exited %s with %d output files; stderr: %s | stdout: %s' % (
                ep['kind'], len(payload), r['rc'], len(files), r['err'][-300:], r['out'][-300:].replace('\r', ' ')))
    if not contacts:
        ctx.label('nothing_contacted')


if __name__ == '__main__':
    sys.exit(cc.main_entry(PID, RULE, os.path.abspath(__file__), make_strategy, run_case, explicit_cases, setup, teardown))
