// C12 — a mutual handshake yields one shared session key
// Oracles: 128-bit reference modexp, OpenSSL SHA-256 / HMAC, the session-key derivation restated from the design
// (HMAC-SHA256(key = SHA256(be32(g^ab mod p)), msg = be32(min pub) || be32(max pub))), metamorphic dependence on the
// remote public key, and the interval predicate 1 < x < p written from the property statement.
#define VERIF_FUZZ_TARGET 1
#include "verif.hpp"
#include "refs.hpp"
#include "vclock.hpp"

#include "ephemeralnet/core/Node.hpp"
#include "ephemeralnet/network/KeyExchange.hpp"

#include <algorithm>
#include <memory>

// Node befriends test::NodeTestAccess; the harness defines it to read the private identity scalar (read-only).
namespace ephemeralnet::test {
class NodeTestAccess {
public:
    static std::uint32_t scalar(const Node& n) { return n.identity_scalar_; }
};
}  // namespace ephemeralnet::test

namespace verif {
const PropertyInfo kInfo = {
    "C12", 24, 16, 8,
    "tape -> (identity seeds A, B uniform 32-bit or (1/4) from {0,1,2,0x7FFFFFFF,0x80000000,0xFFFFFFFF}, or no seed (random_device, made deterministic); "
    "peer ids all-zero / all-0xFF / expanded from a byte, equal for both nodes in 1/8 of the cases; handshake PoW difficulty from {0,4,0,1,8,0,2,6}; who accepts first; "
    "in 1/4 of the cases one end rotates its key (tick after the rotation interval) and both handshake again after the cooldown; a third identity B' = seed B + 1 + k with another peer id (public key normally differs) or the same seed under another peer id (equal public key); "
    "a candidate public value from {0,1,2,3,p-2,p-1,p,p+1,2^31,2^32-1} or uniform, offered from a fresh peer id with a reference-solved PoW; "
    "each record: private scalars a, b from {2,3,4,p-3,p-2} or uniform in [2,p-2] and a candidate public x from the table above or uniform). "
    "Oracle: compute_public / make_keypair == 5^a mod p by 128-bit reference; derive_shared_secret(a, g^b) == derive_shared_secret(b, g^a) == "
    "SHA256(be32(g^ab)); derive_shared_secret(a, x) == SHA256(be32(x^a)) for valid x; validate_public(x) <=> 1 < x < p; node public == 5^scalar with "
    "scalar in [2,p-2]; after both nodes accept the other's handshake (PoW judged valid by the reference digest) both session keys are present, equal, "
    "and equal to the reference derivation; a different remote public gives a different key, an equal remote public the same key; a public outside (1,p) "
    "is refused and leaves no session key. Non-trivial: a scalar or candidate at a boundary, or pubA > pubB (ordering branch). Distinct = hash of the decoded case."};

namespace {
using ephemeralnet::Config;
using ephemeralnet::Node;
using ephemeralnet::PeerId;
using ephemeralnet::network::KeyExchange;

constexpr std::uint32_t P = 2147483647u;  // 2^31 - 1, from the property statement's "p"
constexpr std::uint32_t G = 5u;

const std::uint32_t kSeedTable[] = {0u, 1u, 2u, 0x7FFFFFFFu, 0x80000000u, 0xFFFFFFFFu};
const std::uint32_t kScalarTable[] = {2u, 3u, 4u, P - 3u, P - 2u};
const std::uint32_t kCandTable[] = {0u, 1u, 2u, 3u, P - 2u, P - 1u, P, P + 1u, 0x80000000u, 0xFFFFFFFFu};
const std::uint8_t kDifficulty[] = {0, 4, 0, 1, 8, 0, 2, 6};

template <std::size_t N>
std::uint32_t pick(std::uint8_t sel, std::uint32_t v, const std::uint32_t (&table)[N], bool& boundary) {
    if (sel & 0x80) { boundary = true; return table[(sel & 0x7F) % N]; }
    return v;
}
std::uint32_t pick_scalar(std::uint8_t sel, std::uint32_t v, bool& boundary) {
    if (sel & 0x80) { boundary = true; return kScalarTable[(sel & 0x7F) % 5]; }
    std::uint32_t s = 2u + v % (P - 3u);  // uniform in [2, p-2]
    if (s <= 4u || s >= P - 3u) boundary = true;
    return s;
}
bool cand_is_boundary(std::uint32_t x) { return x <= 3u || (x >= P - 2u && x <= P + 1u) || x == 0xFFFFFFFFu; }

PeerId make_id(std::uint8_t b, std::uint64_t domain) {
    PeerId id{};
    if (b == 0) return id;
    if (b == 255) { id.fill(0xFF); return id; }
    Prng p(b + domain * 1000u);
    p.fill(id.data(), id.size());
    return id;
}

refs::Bytes be32(std::uint32_t v) { refs::Bytes b; refs::put_be32(b, v); return b; }

refs::Digest ref_secret(std::uint32_t shared) { return refs::sha256(be32(shared)); }

refs::Digest ref_session_key(std::uint32_t shared, std::uint32_t pub1, std::uint32_t pub2) {
    auto key = ref_secret(shared);
    refs::Bytes m;
    refs::put_be32(m, std::min(pub1, pub2));
    refs::put_be32(m, std::max(pub1, pub2));
    return refs::hmac_sha256(key.data(), key.size(), m.data(), m.size());
}

// handshake PoW digest restated: SHA256(be64(32) || initiator || be64(32) || responder || be64(pub) || be64(nonce))
unsigned ref_pow_bits(const PeerId& initiator, const PeerId& responder, std::uint32_t pub, std::uint64_t nonce) {
    refs::Bytes m;
    refs::put_be64(m, initiator.size());
    m.insert(m.end(), initiator.begin(), initiator.end());
    refs::put_be64(m, responder.size());
    m.insert(m.end(), responder.begin(), responder.end());
    refs::put_be64(m, pub);
    refs::put_be64(m, nonce);
    auto d = refs::sha256(m);
    return refs::leading_zero_bits(d.data(), d.size());
}

std::string hx(const std::array<std::uint8_t, 32>& a) { return hex(a, 32); }

struct Side {
    std::unique_ptr<Node> node;
    PeerId id{};
    std::uint32_t scalar = 0, pub = 0;
};

Side make_side(Ctx& c, const char* name, const PeerId& id, std::optional<std::uint32_t> seed, std::uint8_t difficulty) {
    Config cfg{};
    cfg.identity_seed = seed;
    cfg.handshake_pow_difficulty = difficulty;
    cfg.handshake_cooldown = std::chrono::seconds(5);
    Side s;
    s.id = id;
    s.node = std::make_unique<Node>(id, cfg);
    s.scalar = ephemeralnet::test::NodeTestAccess::scalar(*s.node);
    s.pub = s.node->public_identity();
    if (s.scalar < 2u || s.scalar > P - 2u)
        c.fail("C12:node-scalar-out-of-range", std::string(name) + ": identity scalar " + std::to_string(s.scalar) + " outside [2, p-2]");
    const auto want = static_cast<std::uint32_t>(refs::modexp(G, s.scalar, P));
    if (s.pub != want)
        c.fail("C12:node-public-not-g^scalar", std::string(name) + ": public " + std::to_string(s.pub) + " != 5^" + std::to_string(s.scalar) + " mod p = " + std::to_string(want));
    return s;
}

// x offers its handshake to y; returns whether y accepted.  pow_ok: the reference digest judges the work valid.
bool offer(Side& x, Side& y, std::uint8_t difficulty, bool& pow_ok) {
    auto work = x.node->generate_handshake_work(y.id);
    pow_ok = work.has_value() && (difficulty == 0 || ref_pow_bits(x.id, y.id, x.pub, *work) >= difficulty);
    return y.node->perform_handshake(x.id, x.pub, work.value_or(0));
}

struct Pairing {
    std::array<std::uint8_t, 32> key{};
};

// Mutual handshake between a and b with all oracles on the resulting keys.
Pairing mutual(Ctx& c, Side& a, Side& b, bool a_first, std::uint8_t difficulty, const char* what) {
    bool pow1 = false, pow2 = false, acc1 = false, acc2 = false;
    if (a_first) { acc1 = offer(b, a, difficulty, pow1); acc2 = offer(a, b, difficulty, pow2); }
    else { acc2 = offer(a, b, difficulty, pow2); acc1 = offer(b, a, difficulty, pow1); }
    if (!pow1 || !pow2) {
        // the node's own work is not valid by the restated digest: the precondition of the property is not established
        c.label("pow_not_valid_by_reference");
        return {};
    }
    if (!acc1 || !acc2)
        c.fail("C12:valid-handshake-refused",
               std::string(what) + ": a fresh node refused a handshake whose public key " + std::to_string(acc1 ? a.pub : b.pub) +
                   " lies in (1,p) and whose PoW the reference judges valid (the property's precondition cannot be reached)");
    auto ka = a.node->session_key(b.id);
    auto kb = b.node->session_key(a.id);
    if (!ka.has_value() || !kb.has_value())
        c.fail("C12:no-session-key-after-acceptance", std::string(what) + ": accepted on both sides but session_key() is empty on " + (ka ? "B" : "A"));
    if (*ka != *kb)
        c.fail("C12:session-keys-differ", std::string(what) + ": A holds " + hx(*ka) + ", B holds " + hx(*kb) + " (pubA=" + std::to_string(a.pub) + " pubB=" + std::to_string(b.pub) + ")");
    const auto shared = static_cast<std::uint32_t>(refs::modexp(b.pub, a.scalar, P));
    const auto shared2 = static_cast<std::uint32_t>(refs::modexp(a.pub, b.scalar, P));
    if (shared != shared2) c.fail("C12:harness-error", "reference DH disagreement");
    const auto want = ref_session_key(shared, a.pub, b.pub);
    if (*ka != want)
        c.fail("C12:session-key-not-reference-derivation",
               std::string(what) + ": key " + hx(*ka) + " != HMAC(SHA256(be32(g^ab=" + std::to_string(shared) + ")), be32(min)||be32(max)) = " + hx(want));
    return Pairing{*ka};
}

void check_pure(Ctx& c, std::uint32_t a, std::uint32_t b, std::uint32_t x) {
    const auto pa = static_cast<std::uint32_t>(refs::modexp(G, a, P));
    const auto pb = static_cast<std::uint32_t>(refs::modexp(G, b, P));
    const auto ga = KeyExchange::compute_public(a);
    const auto gb = KeyExchange::compute_public(b);
    if (ga != pa) c.fail("C12:modexp-mismatch", "compute_public(" + std::to_string(a) + ") = " + std::to_string(ga) + ", reference " + std::to_string(pa));
    if (gb != pb) c.fail("C12:modexp-mismatch", "compute_public(" + std::to_string(b) + ") = " + std::to_string(gb) + ", reference " + std::to_string(pb));
    const auto kp = KeyExchange::make_keypair(a);
    if (kp.private_key != a || kp.public_key != pa)
        c.fail("C12:modexp-mismatch", "make_keypair(" + std::to_string(a) + ") = {" + std::to_string(kp.private_key) + "," + std::to_string(kp.public_key) + "}");
    // generated publics of scalars in [2,p-2] are themselves admissible
    if (!KeyExchange::validate_public(ga) && pa > 1u)
        c.fail("C12:valid-public-refused", "validate_public(g^a=" + std::to_string(ga) + ") is false");

    const auto sab = KeyExchange::derive_shared_secret(a, pb);
    const auto sba = KeyExchange::derive_shared_secret(b, pa);
    if (sab.bytes != sba.bytes)
        c.fail("C12:dh-disagreement", "derive_shared_secret(" + std::to_string(a) + ", g^b) != derive_shared_secret(" + std::to_string(b) + ", g^a)");
    const auto shared = static_cast<std::uint32_t>(refs::modexp(pb, a, P));
    if (sab.bytes != ref_secret(shared))
        c.fail("C12:shared-secret-mismatch", "derive_shared_secret(" + std::to_string(a) + "," + std::to_string(pb) + ") != SHA256(be32(" + std::to_string(shared) + "))");

    const bool want_valid = x > 1u && x < P;
    const bool got_valid = KeyExchange::validate_public(x);
    if (got_valid != want_valid)
        c.fail(want_valid ? "C12:valid-public-refused" : "C12:invalid-public-accepted",
               "validate_public(" + std::to_string(x) + ") = " + std::to_string(got_valid) + ", 1 < x < p is " + std::to_string(want_valid));
    if (want_valid) {
        const auto sx = KeyExchange::derive_shared_secret(a, x);
        const auto xs = static_cast<std::uint32_t>(refs::modexp(x, a, P));
        if (sx.bytes != ref_secret(xs))
            c.fail("C12:shared-secret-mismatch", "derive_shared_secret(" + std::to_string(a) + "," + std::to_string(x) + ") != SHA256(be32(" + std::to_string(xs) + "))");
    }
}
}  // namespace

void run_case(Ctx& c) {
    const Tape& t = c.tape;
    vclock::Frozen frozen(t.header_seed());

    // ---- decode -------------------------------------------------------------------------------
    bool bnd = false, seed_bnd = false;
    // boundary seeds with probability 1/4 each (top two selector bits set)
    const std::uint32_t seedA = pick((t.h(0) & 0xC0) == 0xC0 ? t.h(0) : 0, t.h32(1), kSeedTable, seed_bnd);
    const std::uint32_t seedB = pick((t.h(5) & 0xC0) == 0xC0 ? t.h(5) : 0, t.h32(6), kSeedTable, seed_bnd);
    const bool unseededA = (t.h(20) & 7) == 7;  // identity from random_device
    PeerId idA = make_id(t.h(10), 1), idB = make_id(t.h(11), 2);
    if ((t.h(23) & 7) == 7) idB = idA;  // two nodes under one peer id
    const std::uint8_t difficulty = kDifficulty[t.h(12) % 8];
    const bool a_first = (t.h(13) & 1) == 0;
    const bool same_seed_third = (t.h(13) & 2) != 0;
    const std::uint32_t seedC = same_seed_third ? seedB : seedB + 1u + t.h(14);
    bool cand_bnd = false;
    const std::uint32_t cand = pick(t.h(15), t.h32(16), kCandTable, cand_bnd);
    c.note("seedA=%s seedB=%08x idA=%s idB=%s d=%u first=%c third=%s(%08x) cand=%u",
           unseededA ? "none" : std::to_string(seedA).c_str(), seedB, hex(idA, 4).c_str(), hex(idB, 4).c_str(), difficulty, a_first ? 'A' : 'B',
           same_seed_third ? "same-seed" : "other-seed", seedC, cand);

    // third and fresh peer ids distinct from A and B
    PeerId idC = make_id(static_cast<std::uint8_t>(1 + t.h(21) % 254), 3), idX = make_id(static_cast<std::uint8_t>(1 + t.h(22) % 254), 4);
    while (idC == idA || idC == idB) idC[0] ^= 0x55, idC[1] += 1;
    while (idX == idA || idX == idB || idX == idC) idX[0] ^= 0x33, idX[1] += 1;

    // ---- two real nodes -----------------------------------------------------------------------
    Side A = make_side(c, "A", idA, unseededA ? std::nullopt : std::optional<std::uint32_t>(seedA), difficulty);
    Side B = make_side(c, "B", idB, seedB, difficulty);
    c.note("pubA=%u pubB=%u", A.pub, B.pub);
    Pairing ab = mutual(c, A, B, a_first, difficulty, "A<->B");
    const bool established = ab.key != std::array<std::uint8_t, 32>{};

    // ---- dependence on the remote public key (metamorphic) --------------------------------------
    if (established) {
        Side C = make_side(c, "B'", idC, seedC, difficulty);
        c.note("pubB'=%u", C.pub);
        Pairing ac = mutual(c, A, C, !a_first, difficulty, "A<->B'");
        if (ac.key != std::array<std::uint8_t, 32>{}) {
            if (C.pub != B.pub && ac.key == ab.key)
                c.fail("C12:key-independent-of-remote-public", "pubB=" + std::to_string(B.pub) + " and pubB'=" + std::to_string(C.pub) + " give A the same session key " + hx(ab.key));
            if (C.pub == B.pub && ac.key != ab.key)
                c.fail("C12:equal-publics-different-keys", "the same pair of public keys (" + std::to_string(A.pub) + "," + std::to_string(B.pub) + ") gave " + hx(ab.key) + " and " + hx(ac.key));
            c.label(C.pub == B.pub ? "third_equal_public" : "third_other_public");
        }
        // the first pairing is untouched by the second
        auto again = A.node->session_key(B.id);
        if (!again.has_value() || *again != ab.key)
            c.fail("C12:session-key-changed-by-other-peer", "A's key for B changed after a handshake with B'");
    }

    // ---- a second mutual handshake after one side has rotated its session key ---------------------
    // "when each node accepts the other's handshake both hold the same key": that also holds for a re-handshake of the
    // same two identities, whatever happened to the first key in between.
    if (established && (t.h(20) & 0x18) == 0x18) {
        vclock::advance(A.node->config().key_rotation_interval + std::chrono::seconds(1));
        (a_first ? A : B).node->tick();   // one end rotates, the other does not
        vclock::advance(std::max(A.node->config().handshake_cooldown, B.node->config().handshake_cooldown) + std::chrono::seconds(1));
        c.note("re-handshake-after-rotation");
        c.nt("rehandshake_after_one_sided_rotation");
        Pairing again2 = mutual(c, A, B, !a_first, difficulty, "A<->B (again, after a one-sided rotation)");
        (void)again2;
    }

    // ---- a candidate public value offered from a fresh peer id -----------------------------------
    {
        const bool want_valid = cand > 1u && cand < P;
        std::uint64_t nonce = 0;
        bool solved = difficulty == 0;
        for (std::uint64_t n = 0; !solved && n < 8192; ++n) {
            if (ref_pow_bits(idX, A.id, cand, n) >= difficulty) { nonce = n; solved = true; }
        }
        const bool accepted = A.node->perform_handshake(idX, cand, nonce);
        const auto kx = A.node->session_key(idX);
        c.note("cand-%s", accepted ? "accepted" : "refused");
        if (!want_valid && (accepted || kx.has_value()))
            c.fail("C12:invalid-public-accepted",
                   "perform_handshake with public " + std::to_string(cand) + " (outside (1,p)) returned " + std::to_string(accepted) + ", session key " + (kx ? "present" : "absent"));
        if (want_valid && accepted) {
            if (!kx.has_value()) c.fail("C12:no-session-key-after-acceptance", "candidate public accepted but no session key");
            const auto shared = static_cast<std::uint32_t>(refs::modexp(cand, A.scalar, P));
            const auto want = ref_session_key(shared, A.pub, cand);
            if (*kx != want)
                c.fail("C12:session-key-not-reference-derivation", "candidate public " + std::to_string(cand) + ": key " + hx(*kx) + " != reference " + hx(want));
            c.label("candidate_valid_accepted");
        }
        if (!want_valid) c.label(solved ? "candidate_invalid_pow_solved" : "candidate_invalid_pow_unsolved");
    }

    // ---- pure Diffie-Hellman layer: one check per record ----------------------------------------
    for (std::size_t i = 0; i < t.nrec(); ++i) {
        Rec r = t.r(i);
        bool xb = false;
        const std::uint32_t a = pick_scalar(r.at(0), r.a32(0), bnd);
        const std::uint32_t b = pick_scalar(r.at(5), r.a32(5), bnd);
        const std::uint32_t x = pick(r.at(10), r.a32(10), kCandTable, xb);
        if (cand_is_boundary(x)) bnd = true;
        c.note("[a=%u b=%u x=%u]", a, b, x);
        check_pure(c, a, b, x);
    }
    // the node identities take part in the pure layer too
    check_pure(c, A.scalar, B.scalar, cand);

    // ---- classification -----------------------------------------------------------------------
    if (bnd) c.nt("pure_scalar_or_public_at_boundary");
    if (cand_is_boundary(cand)) c.nt("candidate_at_boundary");
    if (A.pub > B.pub) c.nt("pubA_gt_pubB");
    if (seed_bnd) c.label("seed_at_boundary");
    if (unseededA) c.label("A_unseeded");
    if (idA == idB) c.label("equal_peer_ids");
    if (difficulty == 0) c.label("difficulty_0");
    if (established) c.label("mutual_established");
}

std::string run_once(Ctx& c) {
    auto s = refs::self_check();
    if (!s.empty()) c.fail("C12:harness-error", "reference self-check failed: " + s);
    // exhaustive edges: every candidate within 2^16 of 0, p and 2^32; every scalar within 2^15 of 2 and p-2
    std::uint64_t n = 0;
    auto cand = [&](std::uint32_t x) {
        ++n;
        const bool want = x > 1u && x < P;
        if (KeyExchange::validate_public(x) != want) {
            c.note("validate_public(%u)", x);
            c.fail(want ? "C12:valid-public-refused" : "C12:invalid-public-accepted", "validate_public(" + std::to_string(x) + ") != (1 < x < p)");
        }
    };
    for (std::uint32_t i = 0; i < 65536; ++i) { cand(i); cand(P - 32768u + i); cand(0xFFFFFFFFu - i); cand(0x80000000u + i); }
    auto scal = [&](std::uint32_t a) {
        ++n;
        const auto want = static_cast<std::uint32_t>(refs::modexp(G, a, P));
        if (KeyExchange::compute_public(a) != want) {
            c.note("compute_public(%u)", a);
            c.fail("C12:modexp-mismatch", "compute_public(" + std::to_string(a) + ") != reference " + std::to_string(want));
        }
    };
    for (std::uint32_t i = 0; i < 32768; ++i) { scal(2u + i); scal(P - 2u - i); }
    return "exhaustive edges: validate_public on every value within 2^16 of 0, p, 2^31 and 2^32; compute_public for every scalar within 2^15 of 2 and of p-2 (" +
           std::to_string(n) + " evaluations) agree with the interval predicate / 128-bit reference";
}
}  // namespace verif
