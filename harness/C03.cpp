// C03 — state learned from a manifest never outlives that manifest (Node, virtual time)
#define VERIF_FUZZ_TARGET 1
#include "verif.hpp"
#include "vclock.hpp"
#include "node_access.hpp"
#include "access.hpp"

#include <map>
#include <sstream>

VERIF_ACCESS_MEMBER(KadShardTable, ephemeralnet::KademliaTable, shard_table_, std::unordered_map<std::string, ephemeralnet::KademliaTable::KeyShardRecord>)

namespace verif {
const PropertyInfo kInfo = {
    "C03", 8, 8, 30,
    "tape -> a publisher node issues real manifests for 3 chunks (shard config 1/1, 2/3, 3/5 or 5/5); the harness re-encodes them with expires_at set to wall now + "
    "{-5s, 0, min-1s, min-1ns, min, min+1s, mid, max, max+1s, +10y} and delivers them to the node under test (min/max TTL from a palette) through ingest_manifest, "
    "ANNOUNCE via the transport handler (announced TTL in {0,1,<R,=R,>R,2^32-1}, with/without endpoint, with/without assigned shards), receive_chunk (genuine "
    "ciphertext) and request_chunk; interleaved clock advances (to the next manifest expiry exactly / +-1ns / random) and ticks. Oracle: with R = manifest expiry - "
    "wall now at arrival, a manifest with R < min TTL changes none of manifest cache / key-share table / locators / chunk store / pending fetches / swarm plans "
    "(digest before == after) and ingest/receive report failure; one with R >= min+1s delivered by ingest_manifest is accepted; at every step, for every chunk, every "
    "derived deadline (key-share record, provider contact, replica chunk record, self announcement) is <= the largest min(arrival+R, arrival+max TTL) over the manifests "
    "accepted so far, a pending fetch never carries an expiry beyond its manifest's, and it is gone after the first tick at/after that expiry. "
    "Non-trivial: expiry within 1 s of a boundary, or announced TTL > R, or far-future expiry."};

namespace {
using namespace ephemeralnet;
using TP = std::chrono::steady_clock::time_point;
using WP = std::chrono::system_clock::time_point;
using std::chrono::seconds;
using std::chrono::nanoseconds;
TP now() { return std::chrono::steady_clock::now(); }
WP wall() { return std::chrono::system_clock::now(); }
ChunkId cid(int i) { ChunkId c{}; Prng g(3300 + i); g.fill(c.data(), c.size()); c[0] = static_cast<std::uint8_t>(0xD0 + i); return c; }

std::string digest(Node& node) {
    std::ostringstream o;
    std::map<std::string, std::string> parts;
    for (auto& [k, m] : vnode::Access::manifest_cache(node)) parts["m" + k] = std::to_string(m.expires_at.time_since_epoch().count()) + "/" + std::to_string(m.shards.size());
    for (auto& [k, r] : verif_access(vnode::Access::dht(node), KadShardTable{})) parts["s" + k] = std::to_string(r.expires_at.time_since_epoch().count()) + "/" + std::to_string(r.shards.size());
    for (auto& l : vnode::Access::dht(node).snapshot_locators()) {
        std::map<std::string, long long> hs;
        for (auto& h : l.holders) hs[peer_id_to_string(h.id)] = h.expires_at.time_since_epoch().count();
        std::string v;
        for (auto& [p, e] : hs) v += p.substr(0, 6) + ":" + std::to_string(e) + ",";
        parts["l" + chunk_id_to_string(l.id)] = v;
    }
    for (auto& s : vnode::Access::chunk_store(node).snapshot()) parts["c" + s.key] = std::to_string(s.expires_at.time_since_epoch().count()) + "/" + std::to_string(s.size);
    for (auto& [k, f] : vnode::Access::pending_fetches(node)) parts["f" + k] = std::to_string(f.manifest_expires.time_since_epoch().count());
    for (auto& [k, p] : vnode::Access::swarm_plans(node)) parts["p" + k] = "1";
    for (auto& [k, v] : parts) o << k << "=" << v << ";";
    return o.str();
}
}  // namespace

void run_case(Ctx& c) {
    vclock::Frozen frozen(c.tape.header_seed());
    vnode::silence_streams();
    const Tape& t = c.tape;
    static const int kMin[] = {1, 5, 30, 60};
    static const int kMax[] = {120, 600, 3600, 86400};
    static const int kThr[] = {1, 2, 3, 5};
    static const int kTot[] = {1, 3, 5, 5};
    Config cfg;
    cfg.min_manifest_ttl = seconds(kMin[t.h(0) % 4]);
    cfg.max_manifest_ttl = seconds(kMax[t.h(1) % 4]);
    cfg.cleanup_interval = seconds(1);
    cfg.announce_min_interval = seconds(1);
    cfg.announce_burst_limit = 1000;
    cfg.announce_burst_window = seconds(1);
    cfg.announce_pow_difficulty = 0;
    cfg.handshake_pow_difficulty = 0;
    cfg.key_rotation_interval = seconds(3600);
    cfg.fetch_retry_attempt_limit = 3;
    cfg.nat_stun_enabled = false;
    cfg.relay_enabled = false;
    cfg.identity_seed = 31;
    Config pcfg = cfg;
    pcfg.identity_seed = 32;
    pcfg.min_manifest_ttl = seconds(1);
    pcfg.max_manifest_ttl = seconds(86400);
    pcfg.shard_threshold = static_cast<std::uint8_t>(kThr[t.h(2) % 4]);
    pcfg.shard_total = static_cast<std::uint8_t>(kTot[t.h(2) % 4]);
    Node node(vnode::make_id(21, 0xA3), cfg);
    Node publisher(vnode::make_id(22, 0xB3), pcfg);
    vnode::FakePeer peer;
    if (!peer.attach(node, vnode::make_id(23, 0xC3), 55)) c.fail("C03:harness-error", "could not attach fake peer");
    vnode::QuiesceGuard guard{node, {&peer}};
    const auto mn = node.config().min_manifest_ttl, mx = node.config().max_manifest_ttl;
    c.note("min=%llds max=%llds shards=%d/%d", (long long)mn.count(), (long long)mx.count(), kThr[t.h(2) % 4], kTot[t.h(2) % 4]);

    protocol::Manifest base[3];
    std::vector<std::uint8_t> cipher[3];
    for (int k = 0; k < 3; ++k) {
        base[k] = publisher.store_chunk(cid(k), Prng(600 + k).bytes(20 + k), seconds(86400));
        cipher[k] = publisher.export_chunk_record(cid(k))->data;
    }
    // per chunk: the largest admissible deadline over the manifests accepted so far
    std::map<int, TP> bound;           // steady
    std::map<int, WP> manifest_bound;  // wall: largest accepted manifest expiry
    std::map<std::string, int> key_to_idx;
    for (int k = 0; k < 3; ++k) key_to_idx[chunk_id_to_string(cid(k))] = k;

    auto invariants = [&](const char* after) {
        for (auto& [key, r] : verif_access(vnode::Access::dht(node), KadShardTable{})) {
            int k = key_to_idx.at(key);
            if (!bound.count(k) || r.expires_at > bound[k]) c.fail("C03:shard-record-outlives-manifest", std::string("key-share record of c") + std::to_string(k) + " outlives every accepted manifest (after " + after + ")");
        }
        for (auto& l : vnode::Access::dht(node).snapshot_locators()) {
            auto ki = key_to_idx.find(chunk_id_to_string(l.id));
            if (ki == key_to_idx.end()) continue;
            for (auto& h : l.holders)
                if (!bound.count(ki->second) || h.expires_at > bound[ki->second])
                    c.fail("C03:provider-contact-outlives-manifest", std::string("provider contact for c") + std::to_string(ki->second) + " outlives every accepted manifest (after " + after + ")");
        }
        for (auto& s : vnode::Access::chunk_store(node).snapshot()) {
            int k = key_to_idx.at(s.key);
            if (!bound.count(k) || s.expires_at > bound[k]) c.fail("C03:replica-outlives-manifest", std::string("replica chunk record of c") + std::to_string(k) + " outlives every accepted manifest (after " + after + ")");
        }
        for (auto& [key, f] : vnode::Access::pending_fetches(node)) {
            int k = key_to_idx.at(key);
            if (!manifest_bound.count(k) || f.manifest_expires > manifest_bound[k]) c.fail("C03:pending-fetch-outlives-manifest", std::string("pending fetch of c") + std::to_string(k) + " carries an expiry beyond its manifest");
        }
    };

    for (std::size_t i = 0; i < t.nrec(); ++i) {
        Rec r = t.r(i);
        int k = r.a(0) % 3;
        unsigned op = r.op() % 8;
        if (op <= 4) {
            // craft the manifest
            nanoseconds off{0};
            const long long mid = (mn.count() + mx.count()) / 2;
            switch (r.a(1) % 10) {
                case 0: off = seconds(-5); break;
                case 1: off = seconds(0); break;
                case 2: off = mn - seconds(1); break;
                case 3: off = mn - nanoseconds(1); break;
                case 4: off = mn; break;
                case 5: off = mn + seconds(1); break;
                case 6: off = seconds(mid); break;
                case 7: off = mx; break;
                case 8: off = mx + seconds(1); break;
                case 9: off = seconds(315360000LL); break;
            }
            if (r.a(1) % 10 >= 2 && r.a(1) % 10 <= 5) c.nt("expiry_within_1s_of_min");
            if (r.a(1) % 10 == 7 || r.a(1) % 10 == 8) c.nt("expiry_within_1s_of_max");
            if (r.a(1) % 10 == 9) c.nt("far_future_expiry");
            protocol::Manifest m = base[k];
            // the wire carries whole seconds: place the expiry on a whole second at/after the chosen instant so R is exact
            auto target = wall() + off;
            auto secs = (r.a(4) & 1) ? std::chrono::ceil<seconds>(target.time_since_epoch()) : std::chrono::floor<seconds>(target.time_since_epoch());
            m.expires_at = WP(std::chrono::duration_cast<WP::duration>(secs));
            nanoseconds R = m.expires_at - wall();
            const bool admissible = R >= mn;
            std::string uri = protocol::encode_manifest(m);
            std::string before = digest(node);
            bool reported_ok = false, has_report = false;
            const char* via = "";
            switch (op) {
                case 0: via = "ingest"; reported_ok = node.ingest_manifest(uri); has_report = true; break;
                case 1: {
                    via = "announce";
                    protocol::Message msg{};
                    msg.type = protocol::MessageType::Announce;
                    protocol::AnnouncePayload a{};
                    a.chunk_id = cid(k);
                    a.peer_id = peer.id;
                    if (r.a(2) & 1) a.endpoint = "127.0.0.1:9";
                    long long Rs = std::chrono::duration_cast<seconds>(R).count();
                    switch (r.a(3) % 6) {
                        case 0: a.ttl = seconds(0); break;
                        case 1: a.ttl = seconds(1); break;
                        case 2: a.ttl = seconds(std::max<long long>(1, Rs / 2)); break;
                        case 3: a.ttl = seconds(std::max<long long>(0, Rs)); break;
                        case 4: a.ttl = seconds(std::max<long long>(0, Rs) + 100); c.nt("announced_ttl_gt_R"); break;
                        case 5: a.ttl = seconds(4294967295LL); c.nt("announced_ttl_gt_R"); break;
                    }
                    a.manifest_uri = uri;
                    if (r.a(2) & 2) a.assigned_shards = {m.shards.front().index};
                    msg.payload = a;
                    peer.deliver(msg);
                    peer.drain();
                    break;
                }
                case 2: via = "receive_chunk"; reported_ok = node.receive_chunk(uri, cipher[k]).has_value(); has_report = true; break;
                case 3: via = "request_chunk"; node.request_chunk(peer.id, "", 0, uri); break;
                case 4: via = "ingest"; reported_ok = node.ingest_manifest(uri); has_report = true; break;
            }
            c.note("|%s(c%d,R=%lldns)", via, k, static_cast<long long>(R.count()));
            std::string after = digest(node);
            if (!admissible) {
                c.label("inadmissible_manifest");
                if (has_report && reported_ok) c.fail("C03:inadmissible-manifest-accepted", std::string(via) + " accepted a manifest with remaining lifetime " + std::to_string(R.count()) + " ns < min TTL " + std::to_string(mn.count()) + " s");
                if (after != before) c.fail("C03:rejected-manifest-changed-state", std::string(via) + " of a manifest with remaining lifetime " + std::to_string(R.count()) + " ns (< min TTL) changed manifest-derived state");
            } else {
                c.label("admissible_manifest");
                TP b = now() + std::min<nanoseconds>(R, mx);
                if (!bound.count(k) || b > bound[k]) bound[k] = b;
                if (!manifest_bound.count(k) || m.expires_at > manifest_bound[k]) manifest_bound[k] = m.expires_at;
                if ((op == 0 || op == 4) && R >= mn + seconds(1) && !reported_ok) c.fail("C03:admissible-manifest-rejected", "ingest_manifest refused a manifest with remaining lifetime " + std::to_string(R.count()) + " ns >= min TTL + 1 s");
                if (op == 2 && R >= mn + seconds(1) && !reported_ok) c.fail("C03:admissible-replica-rejected", "receive_chunk refused a genuine replica whose manifest has " + std::to_string(R.count()) + " ns left");
            }
            invariants(via);
        } else if (op == 5 || op == 6) {
            WP next = WP::max();
            for (auto& [kk, w] : manifest_bound) if (w > wall()) next = std::min(next, w);
            unsigned kind = r.a(1) % 5;
            if (next == WP::max() && kind < 3) kind = 3;
            nanoseconds d{0};
            switch (kind) {
                case 0: d = next - wall(); break;
                case 1: d = next - wall() - nanoseconds(1); break;
                case 2: d = next - wall() + nanoseconds(1); break;
                case 3: d = std::chrono::milliseconds(1 + r.a16(2) % 3000); break;
                case 4: d = seconds(1 + r.a(2) % 90); break;
            }
            if (d.count() < 0) d = nanoseconds(0);
            c.note("|adv(%lld)", static_cast<long long>(d.count()));
            vclock::advance(d);
            invariants("advance");
        } else {
            c.note("|tick");
            node.tick();
            peer.drain();
            for (auto& [key, f] : vnode::Access::pending_fetches(node)) {
                if (f.manifest_expires != WP{} && wall() >= f.manifest_expires)
                    c.fail("C03:pending-fetch-survives-manifest-expiry", "a pending fetch is still queued after a tick at/after its manifest's expiry");
            }
            invariants("tick");
        }
    }
}
}  // namespace verif
