// Shared engine for C25 / C26: the real relay::RelayServer on a real relay::EventLoop, driven single-threaded from the
// harness thread through public API only.  Clients are real loopback TCP sockets owned by the harness.
//
//  * stepping: one extra eventfd ("stopper") is registered in the loop; a step = write(stopper) + loop.run(); run()
//    harvests one epoll batch, dispatches every ready event (clients, listener, stopper) and returns because the stopper
//    callback called loop.stop().  "Quiescence" = two consecutive steps without new bytes on any client socket, without a
//    new EOF and without a change of the verif_* counters.
//  * spin guard: a step that allocates more than kStepAllocLimit bytes is abandoned by throwing from the allocation
//    (replacement operator new) and the case fails; deterministic, no clock involved.
//  * bookkeeping is written from the client's point of view only (what it wrote, what it read); the routing oracle is a
//    grammar over each client's received stream (relay text lines, then bridge bytes) plus tagged probe bytes, see C25.cpp.
#pragma once
#include "verif.hpp"

#include "ephemeralnet/relay/EventLoop.hpp"
#include "ephemeralnet/relay/RelayServer.hpp"

#include <algorithm>
#include <arpa/inet.h>
#include <cerrno>
#include <csignal>
#include <cstddef>
#include <cstdlib>
#include <cstring>
#include <deque>
#include <dirent.h>
#include <fcntl.h>
#include <iostream>
#include <memory>
#include <new>
#include <netinet/in.h>
#include <netinet/tcp.h>
#include <optional>
#include <poll.h>
#include <set>
#include <string>
#include <sys/eventfd.h>
#include <sys/socket.h>
#include <unistd.h>
#include <vector>

namespace vrelay {
using ephemeralnet::relay::EventLoop;
using ephemeralnet::relay::RelayServer;
using ephemeralnet::relay::RelayServerConfig;

constexpr int kMaxClients = 7;        // 3 tag bits

// ------------------------------------------------------------------------------------------------ process setup
struct NullBuf : std::streambuf {
    int overflow(int ch) override { return ch; }
};
// Spin guard (deterministic, no clock): the replacement operator new below counts the bytes allocated while one
// loop.run() call is in progress.  A batch that allocates more than kStepAllocLimit bytes or makes more than kStepCallLimit
// allocations (legitimate batches stay two orders of magnitude below, see g_max_step_*) is runaway: the allocation throws SpinAbort,
// which unwinds the relay's frames normally and is caught in Relay::step().  A spin that never allocates is left to the
// runner's watchdog.
struct SpinAbort : std::bad_alloc {
    const char* what() const noexcept override { return "verif spin guard"; }
};
constexpr std::size_t kStepAllocLimit = std::size_t(64) << 20;
inline bool g_spin_armed = false;          // inside loop.run()
inline std::size_t g_step_alloc = 0;       // bytes allocated during the current loop.run()
inline std::size_t g_step_calls = 0;       // allocations during the current loop.run()
inline std::size_t g_max_step_alloc = 0, g_max_step_calls = 0;   // high-water marks of completed batches (diagnostics)
constexpr std::size_t kStepCallLimit = 200000;
inline void prepare_process() {
    static bool done = false;
    if (done) return;
    done = true;
    static NullBuf nb;
    std::cout.rdbuf(&nb);   // RelayServer::start() prints a banner
    std::cerr.rdbuf(&nb);
    std::clog.rdbuf(&nb);
    std::signal(SIGPIPE, SIG_IGN);   // as src/relay/main.cpp does
}

inline bool debug_on() {
    static const bool on = std::getenv("VERIF_RELAY_DEBUG") != nullptr;
    return on;
}

inline std::set<int> open_fds() {
    std::set<int> s;
    DIR* d = ::opendir("/proc/self/fd");
    if (!d) return s;
    int self = ::dirfd(d);
    while (auto* e = ::readdir(d)) {
        if (e->d_name[0] == '.') continue;
        int fd = std::atoi(e->d_name);
        if (fd != self) s.insert(fd);
    }
    ::closedir(d);
    return s;
}
inline std::string fdset_str(const std::set<int>& s) {
    std::string o;
    for (int fd : s) o += std::to_string(fd) + ",";
    return o;
}

inline std::uint16_t free_port() {
    int s = ::socket(AF_INET, SOCK_STREAM | SOCK_CLOEXEC, 0);
    if (s < 0) return 0;
    sockaddr_in a{};
    a.sin_family = AF_INET;
    a.sin_addr.s_addr = htonl(INADDR_LOOPBACK);
    a.sin_port = 0;
    ::bind(s, reinterpret_cast<sockaddr*>(&a), sizeof a);
    socklen_t l = sizeof a;
    ::getsockname(s, reinterpret_cast<sockaddr*>(&a), &l);
    ::close(s);
    return ntohs(a.sin_port);
}

// ------------------------------------------------------------------------------------------------ the relay under test
struct Relay {
    EventLoop* loop = nullptr;
    RelayServer* server = nullptr;
    int stopfd = -1;
    std::uint16_t port = 0;
    bool poisoned = false;   // a step was abandoned by the spin guard: do not step again
    std::uint64_t steps = 0;
    std::set<int> idle_fds;  // descriptors open once the server listens and no client exists (only if requested)

    bool start(bool snapshot_fds) {
        prepare_process();
        loop = new EventLoop();
        for (int attempt = 0; attempt < 30 && !server; ++attempt) {
            port = free_port();
            if (port == 0) continue;
            RelayServerConfig cfg;
            cfg.listen_host = "127.0.0.1";
            cfg.listen_port = port;
            auto* s = new RelayServer(*loop, cfg);
            if (s->start()) server = s;
            else delete s;
        }
        if (!server) return false;
        stopfd = ::eventfd(0, EFD_NONBLOCK | EFD_CLOEXEC);
        if (stopfd < 0) return false;
        EventLoop* lp = loop;
        loop->add(stopfd, EventLoop::kEventReadable, [lp](int fd, std::uint32_t) {
            std::uint64_t v = 0;
            (void)!::read(fd, &v, sizeof v);
            lp->stop();
        });
        if (snapshot_fds) idle_fds = open_fds();
        return true;
    }

    // one epoll batch; false = the batch was abandoned by the spin guard
    bool step() {
        if (poisoned) return false;
        std::uint64_t one = 1;
        (void)!::write(stopfd, &one, sizeof one);
        g_step_alloc = 0;
        g_step_calls = 0;
        g_spin_armed = true;
        try {
            loop->run();
        } catch (const SpinAbort&) {
            g_spin_armed = false;
            poisoned = true;
            return false;
        } catch (...) {
            g_spin_armed = false;
            throw;
        }
        g_spin_armed = false;
        g_max_step_alloc = std::max(g_max_step_alloc, g_step_alloc);
        g_max_step_calls = std::max(g_max_step_calls, g_step_calls);
        ++steps;
        return true;
    }

    std::size_t sessions() const { return poisoned ? 0 : server->verif_session_count(); }
    std::size_t registrations() const { return poisoned ? 0 : server->verif_registration_count(); }

    ~Relay() {
        // (after a SpinAbort the objects are still destructible: the exception unwound the relay's frames normally)
        if (loop && stopfd >= 0) loop->remove(stopfd);
        delete server;
        delete loop;
        if (stopfd >= 0) ::close(stopfd);
    }
};

// ------------------------------------------------------------------------------------------------ text helpers
inline std::string lower(std::string s) {
    for (auto& ch : s) ch = static_cast<char>(std::tolower(static_cast<unsigned char>(ch)));
    return s;
}
inline std::string upper(std::string s) {
    for (auto& ch : s) ch = static_cast<char>(std::toupper(static_cast<unsigned char>(ch)));
    return s;
}
inline bool is_hex(const std::string& s) {
    if (s.empty()) return false;
    for (unsigned char ch : s)
        if (!std::isxdigit(ch)) return false;
    return true;
}
inline std::string to_hex(const std::uint8_t* p, std::size_t n) {
    static const char* d = "0123456789abcdef";
    std::string s;
    for (std::size_t i = 0; i < n; ++i) {
        s.push_back(d[p[i] >> 4]);
        s.push_back(d[p[i] & 15]);
    }
    return s;
}
inline std::string show(const std::string& s, std::size_t max = 40) {
    std::string o;
    for (std::size_t i = 0; i < s.size() && i < max; ++i) {
        unsigned char ch = static_cast<unsigned char>(s[i]);
        if (ch == '\n') o += "\\n";
        else if (ch == '\r') o += "\\r";
        else if (ch >= 0x20 && ch < 0x7F) o.push_back(static_cast<char>(ch));
        else { char b[8]; std::snprintf(b, sizeof b, "\\x%02x", ch); o += b; }
    }
    if (s.size() > max) o += "..(" + std::to_string(s.size()) + "B)";
    return o;
}

// What a client-written command line is, per the relay protocol (REGISTER <hex64> / CONNECT <self> <target> / PONG;
// every other non-empty line is answered with one ERROR line; PONG and blank lines are not answered).
struct LineInfo {
    enum K { None, Reg, Conn, Junk } k = None;
    std::string a, b;
};
inline LineInfo classify(std::string line) {
    LineInfo li;
    if (!line.empty() && line.back() == '\r') line.pop_back();
    if (line.empty()) return li;
    auto sp = line.find(' ');
    std::string cmd = line.substr(0, sp);
    std::string rest = sp == std::string::npos ? std::string() : line.substr(sp + 1);
    if (cmd == "REGISTER") {
        li.k = LineInfo::Reg;
        li.a = rest;
    } else if (cmd == "CONNECT") {
        li.k = LineInfo::Conn;
        std::vector<std::string> tok;
        std::string cur;
        for (char ch : rest) {
            if (ch == ' ') { if (!cur.empty()) { tok.push_back(cur); cur.clear(); } }
            else cur.push_back(ch);
        }
        if (!cur.empty()) tok.push_back(cur);
        if (tok.size() == 2) { li.a = tok[0]; li.b = tok[1]; }
    } else if (cmd == "PONG") {
        li.k = LineInfo::None;
    } else {
        li.k = LineInfo::Junk;
    }
    return li;
}

// tagged probe byte k of client i: high bit set (never part of a relay text line), 3 bits of sender, 4 bits of position
inline char tag_byte(int i, std::uint64_t k) {
    return static_cast<char>(0x80 | ((i & 7) << 4) | ((k + (k >> 4) + (k >> 8)) & 0xF));
}

struct Pending {
    LineInfo::K k;
    std::string id;   // Reg: canonical id named by the line
};

struct Cl {
    int idx = 0;
    int fd = -1;
    bool fd_open = false;
    bool closed = false;      // the harness disconnected this client (close / reset / half-close)
    bool eof = false;         // the client observed EOF or a reset from the relay
    bool need_ack = false;    // received data whose ACK may still be delayed
    bool paused = false;      // back-pressure: the harness does not read from this client for now
    int closed_batch = -1;
    std::string rx;
    std::size_t pos = 0;      // parse cursor in rx (command phase)
    enum Phase { Cmd, Id, BridgeX, BridgeT } phase = Cmd;
    bool wild = false;        // C26: wrote arbitrary bytes; bookkeeping no longer meaningful
    bool wild_connect = false;   // C26: an arbitrary write contained a CONNECT template
    std::string linebuf;      // bytes written since the last newline while in the command phase
    std::deque<Pending> pending;
    std::string half_rest;    // rest of a half-typed template line
    bool ever_reg = false;
    std::string reg_hex;      // current acknowledged registration
    std::set<std::string> reg_hist;   // every id this client named in a REGISTER line (acknowledged or not)
    int reg_lines = 0;
    int reg_templates = 0;    // REGISTER templates the harness wrote on this client (also counted for wild clients)
    bool attempt = false, conn_outstanding = false, got_ok = false;
    std::string self_hex, target_hex;
    std::string after;        // every byte written after the newline of the latest CONNECT line
    int attempts = 0;
    std::string data_out;     // every byte written after reading BEGIN (target side)
    int partner = -1;
    std::size_t bridge_start = 0, verified = 0;
    std::uint64_t tag_cursor = 0;
    bool ever_claimed = false;
    bool begin_deferred = false;
    bool bridge_waited = false;
    // clean-completeness bookkeeping (I6)
    int clean_target = -1;    // >= 0: this connector's CONNECT was issued under the I6 preconditions
    int clean_stage = 0;      // 0 = reply due, 1 = accepted, identity pending, 2 = done
    bool clean_dirty = false;
    bool live() const { return fd_open && !closed && !eof; }
    std::string got() const { return rx.substr(bridge_start); }
};

struct Options {
    const char* pid = "C25";
    bool strict = true;    // routing oracle on (C25); off = crash/resource oracle only (C26)
    bool wild = false;     // arbitrary-bytes actions enabled (C26)
    int max_start_clients = 4;
};

// ------------------------------------------------------------------------------------------------ the simulation
struct Sim {
    verif::Ctx& c;
    Options opt;
    Relay relay;
    std::vector<Cl> cl;
    std::array<std::string, 4> ids;
    std::uint64_t seed = 0;
    int batch_id = 0;
    int unstepped = 0;             // actions performed since the last quiescence
    bool batch_has_connect = false;
    bool batch_has_rereg = false;
    bool shape_rereg = false;      // a claimed (or possibly claimed) target wrote a REGISTER line
    bool known_rereg = false;
    std::string rereg_sig;
    int state_changes = 0;         // OK / BEGIN lines seen (C26 non-trivial rule)
    int bridges = 0;
    bool small_rcvbuf = false;
    std::map<std::string, std::set<int>> id_users;   // id -> clients that ever named it in a REGISTER line
    bool any_connect_template_by_wild = false;

    Sim(verif::Ctx& ctx, Options o) : c(ctx), opt(o) {
        rereg_sig = std::string(opt.pid) + ":reregister-while-claimed";
        known_rereg = c.is_known(rereg_sig);
    }
    ~Sim() { close_everything(true); }

    void mark_shape() {
        shape_rereg = true;
        c.label("rereg_claimed_shape");
    }
    std::string dump() const {
        std::string o;
        for (auto& k : cl)
            o += " | c" + std::to_string(k.idx) + " ph=" + std::to_string(k.phase) + (k.closed ? " closed" : "") + (k.eof ? " eof" : "") + " partner=" + std::to_string(k.partner) + " rx='" + show(k.rx, 120) + "' pos=" + std::to_string(k.pos) +
                 " after=" + std::to_string(k.after.size()) + " out=" + std::to_string(k.data_out.size());
        return o;
    }
    [[noreturn]] void fail(const char* shape, const std::string& msg) {
        if (debug_on()) std::fprintf(stderr, "DUMP%s\n", dump().c_str());
        std::string sig = shape_rereg ? rereg_sig : std::string(opt.pid) + ":" + shape;
        c.fail(sig, std::string(shape) + ": " + msg);
    }
    // a routing-grammar violation on client k: fatal in strict mode, otherwise the client is no longer tracked
    void viol(Cl& k, const char* shape, const std::string& msg) {
        if (opt.strict) fail(shape, "client " + std::to_string(k.idx) + ": " + msg);
        k.wild = true;
    }

    // -------------------------------------------------------------------------------------------- sockets
    int add_client(int limit = kMaxClients - 1) {
        if (static_cast<int>(cl.size()) >= limit) return -1;
        int fd = ::socket(AF_INET, SOCK_STREAM | SOCK_CLOEXEC, 0);
        if (fd < 0) c.fail(std::string(opt.pid) + ":harness-error", "socket() failed");
        sockaddr_in a{};
        a.sin_family = AF_INET;
        a.sin_addr.s_addr = htonl(INADDR_LOOPBACK);
        a.sin_port = htons(relay.port);
        if (small_rcvbuf) {   // a small receive window, so that a reader that pauses really exerts back-pressure on the relay
            int sz = 4096;
            ::setsockopt(fd, SOL_SOCKET, SO_RCVBUF, &sz, sizeof sz);
        }
        int rc = -1;
        for (int attempt = 0; attempt < 10 && rc != 0; ++attempt) {
            rc = ::connect(fd, reinterpret_cast<sockaddr*>(&a), sizeof a);
            if (rc != 0) ::poll(nullptr, 0, 20);
        }
        if (rc != 0) {
            ::close(fd);
            c.fail(std::string(opt.pid) + ":harness-error", std::string("connect() to the relay failed: ") + std::strerror(errno));
        }
        int fl = ::fcntl(fd, F_GETFL, 0);
        ::fcntl(fd, F_SETFL, fl | O_NONBLOCK);
        int one = 1;
        ::setsockopt(fd, IPPROTO_TCP, TCP_NODELAY, &one, sizeof one);
        Cl k;
        k.idx = static_cast<int>(cl.size());
        k.fd = fd;
        k.fd_open = true;
        cl.push_back(std::move(k));
        return cl.back().idx;
    }

    bool drain(Cl& k) {
        if (!k.fd_open || k.eof || k.paused) return false;
        bool ch = false;
        char buf[65536];
        for (;;) {
            ssize_t n = ::recv(k.fd, buf, sizeof buf, 0);
            if (n > 0) { k.rx.append(buf, static_cast<std::size_t>(n)); ch = true; k.need_ack = true; continue; }
            if (n == 0) { k.eof = true; ch = true; break; }
            if (errno == EAGAIN || errno == EWOULDBLOCK) break;
            if (errno == EINTR) continue;
            k.eof = true;   // reset by the relay
            ch = true;
            break;
        }
        return ch;
    }
    // The relay's sockets use Nagle; a small reply can be held back until the client's (delayed) ACK of the previous
    // one.  TCP_QUICKACK flushes the pending ACK now, which releases the held segment synchronously on loopback.
    bool drain_all() {
        bool ch = false;
        int one = 1;
        for (auto& k : cl) {
            ch |= drain(k);
            for (int i = 0; i < 64 && k.need_ack && k.fd_open; ++i) {
                k.need_ack = false;
                ::setsockopt(k.fd, IPPROTO_TCP, TCP_QUICKACK, &one, sizeof one);
                ch |= drain(k);
            }
        }
        return ch;
    }

    void step_or_fail() {
        if (!relay.step())
            fail("relay-spins", "one event-loop batch made more than " + std::to_string(kStepCallLimit) + " allocations or allocated more than " + std::to_string(kStepAllocLimit >> 20) + " MiB (runaway loop inside the server; it no longer returns to the event loop)");
    }

    void quiesce() {
        int idle = 0;
        for (int i = 0; i < 400 && idle < 2; ++i) {
            auto s0 = relay.sessions(), r0 = relay.registrations();
            step_or_fail();
            bool ch = drain_all();
            if (relay.sessions() != s0 || relay.registrations() != r0) ch = true;
            idle = ch ? 0 : idle + 1;
            if (debug_on()) std::fprintf(stderr, "  step %d ch=%d sess=%zu regs=%zu%s\n", i, ch, relay.sessions(), relay.registrations(), dump().c_str());
        }
        if (idle < 2) fail("no-quiescence", "the relay kept producing output for 400 event-loop batches without new input");
        parse_all();
        unstepped = 0;
        batch_has_connect = false;
        batch_has_rereg = false;
        ++batch_id;
    }

    std::size_t raw_send(Cl& k, const std::string& s) {
        if (!k.fd_open || k.closed) return 0;
        std::size_t off = 0;
        int stalls = 0;
        while (off < s.size()) {
            ssize_t w = ::send(k.fd, s.data() + off, s.size() - off, MSG_NOSIGNAL);
            if (w > 0) { off += static_cast<std::size_t>(w); continue; }
            if (w < 0 && errno == EINTR) continue;
            if (w < 0 && (errno == EAGAIN || errno == EWOULDBLOCK) && stalls < 50) {
                ++stalls;
                step_or_fail();
                drain_all();
                continue;
            }
            break;   // EPIPE / ECONNRESET: the relay closed this client
        }
        return off;
    }

    // -------------------------------------------------------------------------------------------- client-side bookkeeping
    bool maybe_claimed(const Cl& t) const {
        for (auto& x : cl) {
            if (&x == &t || !x.attempt || x.wild) continue;
            if (x.partner != -1) continue;
            bool active = x.live() || x.closed_batch == batch_id;
            if (!active) continue;
            if (!(x.conn_outstanding || x.phase == Cl::Id)) continue;
            if (t.reg_hist.count(lower(x.target_hex))) return true;
        }
        return false;
    }

    // C26: an untracked (wild) client may hold a claim the bookkeeping cannot see
    bool unknown_claims() const {
        for (auto& x : cl)
            if (x.wild && (x.attempt || x.wild_connect)) return true;
        return false;
    }

    void account(Cl& k, const std::string& bytes) {
        if (k.wild) return;
        std::size_t i = 0;
        while (i < bytes.size()) {
            if (k.phase == Cl::BridgeT) { k.data_out.append(bytes, i, std::string::npos); return; }
            if (k.conn_outstanding || k.phase == Cl::Id || k.phase == Cl::BridgeX) { k.after.append(bytes, i, std::string::npos); return; }
            // command phase
            for (auto& x : cl)
                if (x.clean_target == k.idx && x.clean_stage < 2) x.clean_dirty = true;
            char ch = bytes[i++];
            if (ch != '\n') { k.linebuf.push_back(ch); continue; }
            LineInfo li = classify(k.linebuf);
            k.linebuf.clear();
            switch (li.k) {
                case LineInfo::None: break;
                case LineInfo::Junk: k.pending.push_back({LineInfo::Junk, ""}); break;
                case LineInfo::Reg: {
                    std::string id = lower(li.a);
                    if (id.size() != 64 || !is_hex(id)) {   // not a registration by the protocol; answered with ERROR
                        k.pending.push_back({LineInfo::Junk, ""});
                        break;
                    }
                    bool again = k.reg_lines > 0;
                    if (again) batch_has_rereg = true;
                    if (again && (maybe_claimed(k) || batch_has_connect || unknown_claims())) mark_shape();
                    k.reg_lines++;
                    k.reg_hist.insert(id);
                    id_users[id].insert(k.idx);
                    k.pending.push_back({LineInfo::Reg, id});
                    break;
                }
                case LineInfo::Conn:
                    k.pending.push_back({LineInfo::Conn, ""});
                    k.attempt = true;
                    k.conn_outstanding = true;
                    k.got_ok = false;
                    k.self_hex = li.a;
                    k.target_hex = li.b;
                    k.after.clear();
                    k.attempts++;
                    batch_has_connect = true;
                    if (batch_has_rereg) mark_shape();
                    break;
            }
        }
    }

    void send(Cl& k, const std::string& s) {
        std::size_t n = raw_send(k, s);
        if (n) account(k, s.substr(0, n));
    }

    // -------------------------------------------------------------------------------------------- parsing what clients read
    static bool printable(const std::string& s) {
        for (unsigned char ch : s)
            if (ch < 0x20 || ch >= 0x7F) return false;
        return true;
    }
    static bool has_high(const std::string& s) {
        for (unsigned char ch : s)
            if (ch >= 0x80) return true;
        return false;
    }

    // returns true if at least one line was consumed
    bool parse_lines(Cl& k) {
        bool progress = false;
        k.begin_deferred = false;
        while (!k.wild && k.phase == Cl::Cmd) {
            auto nl = k.rx.find('\n', k.pos);
            if (nl == std::string::npos) break;
            std::string line = k.rx.substr(k.pos, nl - k.pos);
            if (line == "OK" || (line.rfind("ERROR", 0) == 0 && (line.size() == 5 || line[5] == ' ') && printable(line))) {
                bool ok = line == "OK";
                k.pos = nl + 1;
                progress = true;
                if (ok) ++state_changes;
                if (k.pending.empty()) { c.label("unsolicited_reply"); continue; }
                Pending p = k.pending.front();
                k.pending.pop_front();
                if (p.k == LineInfo::Reg) {
                    if (ok) { k.ever_reg = true; k.reg_hex = p.id; }
                } else if (p.k == LineInfo::Conn) {
                    k.conn_outstanding = false;
                    if (ok) {
                        k.got_ok = true;
                        k.phase = Cl::Id;
                        k.bridge_start = k.pos;
                        k.verified = 0;
                        std::string h = lower(k.target_hex);
                        for (auto& t : cl)
                            if (t.reg_hist.count(h)) t.ever_claimed = true;
                    } else {
                        k.attempt = false;
                        std::string a;
                        a.swap(k.after);
                        account(k, a);   // those bytes were command text after all
                    }
                }
                continue;
            }
            if (line == "PING") { k.pos = nl + 1; progress = true; continue; }
            if (line.rfind("BEGIN ", 0) == 0) {
                std::string hex = line.substr(6);
                Cl* x = nullptr;
                for (auto& q : cl)
                    if (&q != &k && !q.wild && q.attempt && q.self_hex == hex && q.partner == -1) { x = &q; break; }
                if (x && x->conn_outstanding) {
                    k.begin_deferred = true;   // the connector's own OK has not been read/parsed yet
                    break;
                }
                ++state_changes;
                if (!k.ever_reg) { viol(k, "begin-to-unregistered-client", "read '" + show(line) + "' but never had a REGISTER acknowledged"); break; }
                if (!x) {
                    bool dup = false;
                    for (auto& q : cl) if (&q != &k && q.attempt && q.self_hex == hex && q.partner != -1) dup = true;
                    viol(k, dup ? "connector-bridged-twice" : "begin-for-unknown-connector",
                         "read '" + show(line) + "' but " + (dup ? "that connector is already bridged to another client" : "no connector announced that id"));
                    break;
                }
                if (!x->got_ok) { viol(k, "begin-for-refused-connector", "read '" + show(line) + "' but client " + std::to_string(x->idx) + "'s CONNECT was not accepted"); break; }
                if (x->after.size() < 32) { viol(k, "begin-before-identity", "read '" + show(line) + "' but client " + std::to_string(x->idx) + " has written only " + std::to_string(x->after.size()) + " identity bytes"); break; }
                if (!k.reg_hist.count(lower(x->target_hex))) {
                    viol(k, "bridged-to-wrong-peer", "read '" + show(line) + "' but client " + std::to_string(x->idx) + " asked for " + x->target_hex.substr(0, 12) + ".. which this client never registered");
                    break;
                }
                k.pos = nl + 1;
                progress = true;
                k.phase = Cl::BridgeT;
                k.partner = x->idx;
                k.bridge_start = k.pos;
                k.verified = 0;
                x->partner = k.idx;
                x->phase = Cl::BridgeX;
                ++bridges;
                break;
            }
            viol(k, has_high(line) ? "bytes-to-unbridged-client" : "malformed-relay-line",
                 "has no bridge but read '" + show(line) + "'" + describe_source(line));
            break;
        }
        return progress;
    }

    std::string describe_source(const std::string& bytes) const {
        for (unsigned char ch : bytes)
            if (ch >= 0x80) return " (probe bytes written by client " + std::to_string((ch >> 4) & 7) + ")";
        return "";
    }

    void check_prefix(Cl& k, const std::string& expect, const char* shape, const std::string& who) {
        std::size_t have = k.rx.size() - k.bridge_start;
        if (have > expect.size() || k.rx.compare(k.bridge_start + k.verified, have - k.verified, expect, k.verified, have - k.verified) != 0) {
            std::size_t m = k.verified;
            while (m < have && m < expect.size() && k.rx[k.bridge_start + m] == expect[m]) ++m;
            std::string tail = k.rx.substr(k.bridge_start + m, 24);
            viol(k, shape, "bridge bytes differ from what " + who + " wrote at offset " + std::to_string(m) + " (received " + std::to_string(have) + " B, partner wrote " +
                               std::to_string(expect.size()) + " B): got '" + show(tail) + "'" + describe_source(tail));
            return;
        }
        k.verified = have;
    }

    void check_stream(Cl& k) {
        if (k.wild) return;
        if (k.phase == Cl::Cmd) {
            // unfinished trailing bytes: relay lines are queued whole; tagged bytes here are relayed data
            if (k.pos < k.rx.size() && has_high(k.rx.substr(k.pos)))
                viol(k, "bytes-to-unbridged-client", "has no bridge but read '" + show(k.rx.substr(k.pos)) + "'" + describe_source(k.rx.substr(k.pos)));
            return;
        }
        if (k.phase == Cl::Id) {
            // accepted connector whose bridge does not exist (yet): nothing but (at most) an ERROR text line may arrive
            std::string g = k.got();
            static const std::string kErr = "ERROR ";
            bool ok = true;
            for (std::size_t i = 0; i < g.size() && ok; ++i) {
                unsigned char ch = static_cast<unsigned char>(g[i]);
                if (i < kErr.size()) ok = g[i] == kErr[i];
                else if (ch == '\n') ok = i + 1 == g.size();
                else ok = ch >= 0x20 && ch < 0x7F;
            }
            if (!ok) viol(k, "bytes-before-bridge", "was accepted as connector but no target has read BEGIN " + k.self_hex.substr(0, 12) + ".. yet it read '" + show(g) + "'" + describe_source(g));
            return;
        }
        if (k.phase == Cl::BridgeT) check_prefix(k, cl[k.partner].after, "target-stream-mismatch", "connector " + std::to_string(k.partner));
        else check_prefix(k, cl[k.partner].data_out, "connector-stream-mismatch", "target " + std::to_string(k.partner));
    }

    void parse_all() {
        bool progress = true;
        while (progress) {
            progress = false;
            for (auto& k : cl) progress |= parse_lines(k);
        }
        for (auto& k : cl) check_stream(k);
    }

    // -------------------------------------------------------------------------------------------- expectations at quiescence
    using Unmet = std::optional<std::pair<const char*, std::string>>;
    Unmet liveness() {
        if (!opt.strict) return std::nullopt;
        for (auto& k : cl)
            if (k.begin_deferred && !k.wild) return {{"begin-for-refused-connector", "client " + std::to_string(k.idx) + " read BEGIN for a connector whose CONNECT has not been answered with OK"}};
        for (auto& t : cl) {
            if (t.wild || t.phase != Cl::BridgeT) continue;
            Cl& x = cl[t.partner];
            if (x.wild) continue;
            std::string pair = "bridge connector " + std::to_string(x.idx) + " <-> target " + std::to_string(t.idx);
            if (x.live() && t.live()) {
                if (!t.paused && t.rx.size() - t.bridge_start != x.after.size())
                    return {{"bridge-bytes-lost", pair + ": target received " + std::to_string(t.rx.size() - t.bridge_start) + " of the " + std::to_string(x.after.size()) + " bytes the connector wrote, both still connected"}};
                if (!x.paused && x.rx.size() - x.bridge_start != t.data_out.size())
                    return {{"bridge-bytes-lost", pair + ": connector received " + std::to_string(x.rx.size() - x.bridge_start) + " of the " + std::to_string(t.data_out.size()) + " bytes the target wrote, both still connected"}};
            }
            if (!x.closed && !t.closed && (x.eof || t.eof))
                return {{"bridge-dropped", pair + ": the relay disconnected client " + std::to_string(x.eof ? x.idx : t.idx) + " although neither side had disconnected"}};
            if (x.closed && !t.closed && !t.eof && !t.paused) return {{"partner-not-disconnected", pair + ": the connector disconnected but the target is still connected"}};
            if (t.closed && !x.closed && !x.eof && !x.paused) return {{"partner-not-disconnected", pair + ": the target disconnected but the connector is still connected"}};
        }
        for (auto& x : cl) {
            if (x.clean_target < 0 || x.clean_stage >= 2 || x.wild) continue;
            Cl& t = cl[x.clean_target];
            if (!x.live() || !t.live() || x.clean_dirty || t.wild) { x.clean_stage = 2; continue; }
            if (x.clean_stage == 0) {
                if (x.conn_outstanding || !x.got_ok)
                    return {{"clean-connect-refused", "client " + std::to_string(x.idx) + " (idle, never registered) sent CONNECT to " + x.target_hex.substr(0, 12) + ".., registered by exactly one live unclaimed client " +
                                                          std::to_string(t.idx) + ", and " + (x.conn_outstanding ? "got no reply" : "was refused")}};
                x.clean_stage = 1;
                c.label("i6_connect_asserted");
            }
            if (x.clean_stage == 1 && x.after.size() >= 32) {
                if (!(t.phase == Cl::BridgeT && t.partner == x.idx))
                    return {{"clean-identity-no-bridge", "client " + std::to_string(x.idx) + " was accepted for target " + std::to_string(t.idx) + " and wrote its identity, both still connected, but the target never read BEGIN " + x.self_hex.substr(0, 12) + ".."}};
                x.clean_stage = 2;
                c.label("i6_bridge_asserted");
            }
        }
        return std::nullopt;
    }

    // liveness-type expectations get a real-time grace period (loopback delivery is normally synchronous, but a
    // deferred softirq must not turn into a false alarm); safety-type checks (prefix, grammar) never need one
    void settle() {
        quiesce();
        Unmet u = liveness();
        for (int i = 0; u && i < 100; ++i) {
            c.label("grace_wait_used");
            if (debug_on()) std::fprintf(stderr, "GRACE %d %s: %s\n", i, u->first, u->second.c_str());
            std::vector<pollfd> p;
            for (auto& k : cl)
                if (k.fd_open && !k.eof) p.push_back({k.fd, POLLIN, 0});
            ::poll(p.data(), p.size(), 10);
            quiesce();
            u = liveness();
        }
        if (u) fail(u->first, u->second);
        if (opt.strict)
            for (auto& t : cl)
                if (t.phase == Cl::BridgeT && (t.closed || cl[t.partner].closed)) c.label("i5_partner_disconnect_asserted");
    }

    // -------------------------------------------------------------------------------------------- disconnects
    void disconnect(Cl& k, int style) {
        if (!k.fd_open) return;
        if (k.closed && style == 2) return;
        if (!k.closed) {
            if (k.phase == Cl::Id || k.conn_outstanding) c.nt("mid_handshake_disconnect");
            for (auto& x : cl)
                if (&x != &k && x.attempt && x.partner == -1 && (x.conn_outstanding || x.phase == Cl::Id) && k.reg_hist.count(lower(x.target_hex))) c.nt("mid_handshake_disconnect");
        }
        k.closed = true;
        k.closed_batch = batch_id;
        if (style == 2) {   // half-close: keep reading
            ::shutdown(k.fd, SHUT_WR);
            c.label("half_close");
            return;
        }
        if (style == 1) {   // abortive close (RST)
            linger lg{1, 0};
            ::setsockopt(k.fd, SOL_SOCKET, SO_LINGER, &lg, sizeof lg);
            c.label("rst_close");
        }
        drain(k);   // keep what already arrived (a close with unread data would turn into a reset)
        ::close(k.fd);
        k.fd_open = false;
        k.fd = -1;
    }

    void close_everything(bool rst) {
        for (auto& k : cl) {
            if (!k.fd_open) continue;
            if (rst) {
                linger lg{1, 0};
                ::setsockopt(k.fd, SOL_SOCKET, SO_LINGER, &lg, sizeof lg);
            }
            ::close(k.fd);
            k.fd_open = false;
            k.closed = true;
            k.fd = -1;
        }
    }
};


// ------------------------------------------------------------------------------------------------ tape -> actions
// record = [op, a0, a1, a2, a3, a4]; op low bits select the action, (op & 0xC0) == 0xC0 means "do not step the loop
// after this action" (it is batched with the next one).  Every choice is resolved against the client-side view so that
// each byte string is a meaningful history.
struct Driver : Sim {
    int self_seq = 0;
    bool had_bystander_bridge = false;

    Driver(verif::Ctx& ctx, Options o) : Sim(ctx, o) {}

    template <class F>
    std::vector<Cl*> sel(F f) {
        std::vector<Cl*> v;
        for (auto& k : cl)
            if (f(k)) v.push_back(&k);
        return v;
    }
    static Cl* pick(const std::vector<Cl*>& v, unsigned a) { return v.empty() ? nullptr : v[a % v.size()]; }

    bool cmd_idle(const Cl& k) const { return k.live() && !k.wild && k.phase == Cl::Cmd && !k.conn_outstanding; }
    bool fresh(const Cl& k) const { return cmd_idle(k) && k.reg_templates == 0 && k.linebuf.empty() && k.pending.empty() && k.half_rest.empty(); }
    bool target_ok(const Cl& k) const { return k.live() && !k.wild && k.phase == Cl::Cmd && !k.reg_hex.empty() && !maybe_claimed(k); }
    bool bridged(const Cl& k) const { return k.live() && !k.wild && (k.phase == Cl::BridgeT || k.phase == Cl::BridgeX || (k.phase == Cl::Id && k.after.size() >= 32)); }
    bool needs_identity(const Cl& k) const { return k.live() && !k.wild && k.phase == Cl::Id && k.after.size() < 32; }

    std::string identity_of(const Cl& x) const {
        verif::Prng g(seed ^ (static_cast<std::uint64_t>(x.idx) << 32) ^ (static_cast<std::uint64_t>(x.attempts) << 40) ^ 0x1D);
        std::string s(32, '\0');
        for (auto& ch : s) ch = static_cast<char>(g.byte());
        return s;
    }
    std::string make_self(const Cl& x, bool shortform) {
        std::uint8_t b[32];
        verif::Prng g(seed ^ 0x5E1F ^ static_cast<std::uint64_t>(self_seq));
        g.fill(b, sizeof b);
        b[0] = static_cast<std::uint8_t>(0xC0 | x.idx);
        b[1] = static_cast<std::uint8_t>(self_seq++);
        return to_hex(b, shortform ? 3 : 32);
    }
    std::string probe(Cl& k, std::size_t n, bool texty) {
        std::string s;
        if (texty) {
            static const char* kText[] = {"OK\n", "ERROR target-unavailable\n", "PING\n", "\n\r\n", "PONG\n"};
            verif::Prng g(seed ^ k.tag_cursor ^ 0x7E);
            while (s.size() < n) {
                switch (g.below(8)) {
                    case 0: s += "BEGIN " + ids[g.below(4)] + "\n"; break;
                    case 1: s += "REGISTER " + ids[g.below(4)] + "\n"; break;
                    case 2: s += "CONNECT " + ids[g.below(4)] + " " + ids[g.below(4)] + "\n"; break;
                    default: s += kText[g.below(5)]; break;
                }
            }
            c.label("texty_probe");
            return s;
        }
        s.resize(n);
        for (auto& ch : s) ch = tag_byte(k.idx, k.tag_cursor++);
        return s;
    }
    static std::size_t data_len(const verif::Rec& r) {
        static const std::int64_t kT[] = {1, 2, 31, 32, 33, 4095, 4096, 4097, 8192, 12289};
        if (r.a(2) & 0x80) return static_cast<std::size_t>(kT[(r.a(2) & 0x7F) % 10]);
        return 1 + (r.a(3) | (r.a(4) << 8)) % 600u;
    }

    // ---- REGISTER
    void do_register(Cl& k, unsigned sel_id, unsigned form, bool& force) {
        std::string id = ids[sel_id & 3], arg = id, eol = "\n";
        switch (form & 7) {
            case 4: arg = upper(id); break;
            case 5: arg[(sel_id >> 2) % 64] = 'g'; break;
            case 6: arg.pop_back(); break;
            case 7: eol = "\r\n"; break;
            default: break;
        }
        bool valid = (form & 7) != 5 && (form & 7) != 6;
        bool again = k.reg_templates > 0;
        if (again && known_rereg) {
            if (unstepped) settle();
            if (k.wild || unknown_claims() || maybe_claimed(k) || !k.live()) {
                c.count_excluded(rereg_sig);
                c.note("r%d:excluded", k.idx);
                send(k, "PONG\n");
                return;
            }
            force = true;
        }
        if (again && (k.wild || unknown_claims())) mark_shape();
        if (again) c.nt("reregister");
        if (valid)
            for (auto& o : cl)
                if (&o != &k && o.reg_hist.count(id)) c.nt("duplicate_id");
        c.note("R%d=%u/%u", k.idx, sel_id & 3, form & 7);
        k.reg_templates++;
        send(k, "REGISTER " + arg + eol);
    }

    // ---- CONNECT (variant picks the target)
    void do_connect(Cl& x, const verif::Rec& r, bool with_identity, bool& force) {
        unsigned variant = r.a(1) & 7, fmt = r.a(4);
        std::string self = make_self(x, (fmt & 0x10) != 0);
        std::string target;
        Cl* t = nullptr;
        auto others_ok = sel([&](Cl& k) { return &k != &x && target_ok(k); });
        auto claimed = sel([&](Cl& k) { return &k != &x && k.live() && !k.reg_hist.empty() && (maybe_claimed(k) || k.phase == Cl::BridgeT); });
        if (variant <= 2 && others_ok.empty()) variant = claimed.empty() ? 4 : 3;
        if (variant == 3 && claimed.empty()) variant = 4;
        if (variant == 6 && x.reg_hex.empty()) variant = 5;
        switch (variant) {
            case 0: case 1: case 2: t = pick(others_ok, r.a(2)); target = t->reg_hex; break;
            case 3: { Cl* q = pick(claimed, r.a(2)); target = q->reg_hex.empty() ? *q->reg_hist.begin() : q->reg_hex; c.label("connect_claimed"); break; }
            case 4: {
                target = ids[r.a(2) & 3];
                bool used = false;
                for (auto& k : cl) if (k.live() && k.reg_hex == target) used = true;
                if (used) target = make_self(x, false);
                c.label("connect_unknown");
                break;
            }
            case 5:
                if ((r.a(2) & 1) && !others_ok.empty()) { target = pick(others_ok, r.a(2) >> 1)->reg_hex; self = target; c.label("self_equals_registered_target"); }
                else target = self;
                c.label("self_connect");
                break;
            case 6: target = x.reg_hex; self = make_self(x, false); c.label("connect_own_id"); break;
            case 7: t = nullptr; target = others_ok.empty() ? upper(ids[0]) : upper(pick(others_ok, r.a(2))->reg_hex); c.label("connect_uppercase_target"); break;
        }
        if (!x.reg_hex.empty()) c.label("connect_from_registered");
        // I6 preconditions (clean completeness), all from the client-side view
        bool clean = opt.strict && !opt.wild && t && unstepped == 0 && fresh(x) && x.reg_lines == 0 && t->reg_hex == target && t->pending.empty() && !t->ever_claimed && !maybe_claimed(*t) &&
                     id_users[target].size() == 1 && self != target && (r.op() & 0xC0) != 0xC0 && (fmt & 0x60) == 0;
        if (clean)
            for (auto& o : cl)
                if (o.clean_target == t->idx && o.clean_stage < 2) clean = false;
        std::string line = (fmt & 0x20) ? "CONNECT  " + self + "   " + target : "CONNECT " + self + " " + target;
        line += (fmt & 0x40) ? "\r\n" : "\n";
        c.note("C%d>%s%s/%u", x.idx, t ? std::to_string(t->idx).c_str() : "?", with_identity ? "+id" : "", variant);
        if (clean) { x.clean_target = t->idx; x.clean_stage = 0; x.clean_dirty = false; }
        if (with_identity) {
            // optimistic: CONNECT line, identity and (optionally) data in one write; isolated so the target writes
            // nothing between the relay bridging it and the target reading BEGIN
            if (unstepped) settle();
            if (!x.live()) return;
            x.attempts++;   // identity_of() uses the attempt number the line is about to get
            std::string id = identity_of(x);
            x.attempts--;
            std::string extra = (fmt & 1) ? probe(x, 1 + (r.a(3) % 40), false) : std::string();
            c.label("optimistic_connect");
            send(x, line + id + extra);
            force = true;
            return;
        }
        send(x, line);
    }

    // ---- identity bytes
    void do_identity(Cl& x, std::size_t n, bool trailing, const verif::Rec& r, bool& force) {
        std::string id = identity_of(x);
        std::size_t have = x.after.size();
        n = std::min(n, 32 - have);
        bool completes = have + n >= 32;
        if (completes) {
            if (unstepped) settle();
            if (!needs_identity(x)) return;
            force = true;
        } else {
            c.label("split_identity");
        }
        std::string bytes = id.substr(have, n);
        if (completes && trailing) { bytes += probe(x, 1 + (r.a(3) % 64), false); c.label("identity_with_trailing_data"); }
        c.note("I%d+%zu", x.idx, bytes.size());
        send(x, bytes);
        if (completes && !(r.a(4) & 0x80)) {
            // probe both ways as soon as the bridge exists (I4)
            settle();
            if (x.phase == Cl::BridgeX && x.live() && cl[x.partner].live()) {
                send(x, probe(x, 3, false));
                send(cl[x.partner], probe(cl[x.partner], 3, false));
                c.label("two_way_probe");
            }
        }
    }

    void do_data(Cl& k, std::size_t n, bool texty) {
        c.note("D%d:%zu%s", k.idx, n, texty ? "t" : "");
        if (n >= 4096) c.label("write_ge_4096");
        send(k, probe(k, n, texty));
    }

    void do_junk(Cl& k, unsigned v) {
        static const char* kJ[] = {"PONG\n", "\n", "\r\n", "HELLO\n", "REGISTER\n", "CONNECT onlyone\n", "CONNECT a b c\n", "register x\n", " REGISTER 00\n", "PONG extra\r\n", "XY", "CONNECT zz zz\n", "PING\n",
                                   "    \n", "\t\n", " \t \r\n", " \n", "PONG \n", "\tPONG\n"};   // blank-only lines, blanks around a verb
        const char* s = kJ[v % 19];
        c.note("J%d:%u", k.idx, v % 19);
        send(k, s);
    }

    void do_half(Cl& k, const verif::Rec& r, bool& force) {
        if (!k.half_rest.empty()) {
            std::string rest;
            rest.swap(k.half_rest);
            c.note("H%d:finish", k.idx);
            send(k, rest);
            return;
        }
        std::string line;
        unsigned v = r.a(1) % 3;
        if (v == 0 && known_rereg && k.reg_templates > 0) { c.count_excluded(rereg_sig); v = 2; }
        if (v == 0) { line = "REGISTER " + ids[r.a(2) & 3] + "\n"; k.reg_templates++; }
        else if (v == 1) {
            auto others = sel([&](Cl& o) { return &o != &k && target_ok(o); });
            line = "CONNECT " + make_self(k, false) + " " + (others.empty() ? ids[r.a(2) & 3] : pick(others, r.a(2))->reg_hex) + "\n";
        } else line = "PONG\n";
        std::size_t cut = 1 + r.a(3) % (line.size() - 1);
        k.half_rest = line.substr(cut);
        c.label("half_typed_line");
        c.note("H%d:%u@%zu", k.idx, v, cut);
        (void)force;
        send(k, line.substr(0, cut));
    }

    // ---- "make progress towards a bridge"
    void progress(const verif::Rec& r, bool& force) {
        auto need_id = sel([&](Cl& k) { return needs_identity(k); });
        auto idle = sel([&](Cl& k) { return fresh(k); });
        auto targets = sel([&](Cl& k) { return target_ok(k) && !k.ever_claimed; });
        if (targets.empty()) targets = sel([&](Cl& k) { return target_ok(k); });
        auto br = sel([&](Cl& k) { return bridged(k); });
        enum { MId, MConn, MReg, MNew, MData };
        std::vector<int> moves;
        if (!need_id.empty()) moves.push_back(MId);
        bool conn_possible = false;
        for (auto* x : idle) for (auto* t : targets) if (x != t) conn_possible = true;
        if (conn_possible) moves.push_back(MConn);
        bool can_new = static_cast<int>(cl.size()) < kMaxClients - 1;
        if (!idle.empty() && targets.size() < 2 && (idle.size() >= 2 || !can_new || targets.empty())) moves.push_back(MReg);
        if (can_new && idle.size() < 2) moves.push_back(MNew);
        if (!br.empty()) moves.push_back(MData);
        if (moves.empty()) {
            auto any = sel([&](Cl& k) { return cmd_idle(k); });
            if (!any.empty()) do_junk(*pick(any, r.a(0)), 0);
            return;
        }
        int mv = (r.a(1) & 3) == 3 ? moves[(r.a(1) >> 2) % moves.size()] : moves[0];
        switch (mv) {
            case MId: do_identity(*pick(need_id, r.a(0)), 32, (r.a(4) & 1) != 0, r, force); break;
            case MConn: {
                Cl* x = pick(idle, r.a(0));
                std::vector<Cl*> ts;
                for (auto* t : targets) if (t != x) ts.push_back(t);
                if (ts.empty()) { x = nullptr; for (auto* q : idle) for (auto* t : targets) if (q != t && !x) { x = q; ts.push_back(t); } }
                Cl* t = pick(ts, r.a(2));
                verif::Rec rr = r;   // variant 0 with a chosen target
                std::string self = make_self(*x, false);
                bool clean = opt.strict && !opt.wild && unstepped == 0 && x->reg_lines == 0 && t->pending.empty() && !t->ever_claimed && !maybe_claimed(*t) && id_users[t->reg_hex].size() == 1 && (r.op() & 0xC0) != 0xC0;
                if (clean)
                    for (auto& o : cl)
                        if (o.clean_target == t->idx && o.clean_stage < 2) clean = false;
                if (clean) { x->clean_target = t->idx; x->clean_stage = 0; x->clean_dirty = false; }
                c.note("C%d>%d", x->idx, t->idx);
                send(*x, "CONNECT " + self + " " + t->reg_hex + "\n");
                (void)rr;
                break;
            }
            case MReg: {
                // prefer an id nobody uses yet so that clean bridges are frequent
                Cl* k = pick(idle, r.a(0));
                unsigned id = r.a(2) & 3;
                for (unsigned j = 0; j < 4; ++j) {
                    unsigned cand = (id + j) & 3;
                    if (id_users[ids[cand]].empty()) { id = cand; break; }
                }
                do_register(*k, id, 0, force);
                break;
            }
            case MNew: {
                int i = add_client();
                c.note("N%d", i);
                break;
            }
            case MData: do_data(*pick(br, r.a(0)), data_len(r), false); break;
        }
    }

    // ---- C26: arbitrary bytes
    void wild_write(Cl& k, unsigned kind, const verif::Rec& r) {
        verif::Prng g(r.seed() ^ seed);
        std::string s;
        switch (kind) {
            case 0: {   // binary
                static const std::int64_t kT[] = {1, 31, 32, 33, 4095, 4096, 4097, 65536};
                std::size_t n = (r.a(2) & 0x80) ? static_cast<std::size_t>(kT[(r.a(2) & 0x7F) % 8]) : 1 + (r.a(3) | (r.a(4) << 8)) % 3000u;
                s.resize(n);
                for (auto& ch : s) ch = static_cast<char>(g.byte());
                break;
            }
            case 1: {   // huge line, optionally terminated
                static const std::size_t kN[] = {4096, 65536, 70000, 5000};
                s.assign(kN[r.a(2) & 3], (r.a(3) & 1) ? 'a' : ' ');
                if (r.a(3) & 2) s.insert(0, "REGISTER ");
                if (r.a(3) & 4) { s.insert(0, "CONNECT ab "); k.wild_connect = true; }
                if (r.a(4) & 1) s += (r.a(4) & 2) ? "\r\n" : "\n";
                if ((r.a(3) & 2) && !(r.a(3) & 4)) k.reg_templates++;
                break;
            }
            case 2: s.assign(1 + r.a(2) * 8, '\n'); if (r.a(3) & 1) for (std::size_t i = 0; i < s.size(); i += 2) s[i] = '\r'; break;
            case 3: {   // several commands in one write
                unsigned n = 1 + r.a(2) % 5;
                for (unsigned i = 0; i < n; ++i) {
                    switch (g.below(5)) {
                        case 0:
                            if (known_rereg && k.reg_templates > 0) { c.count_excluded(rereg_sig); s += "PONG\n"; break; }
                            if (k.reg_templates > 0) mark_shape();
                            k.reg_templates++;
                            s += "REGISTER " + ids[g.below(4)] + "\n";
                            break;
                        case 1: s += "CONNECT " + make_self(k, g.below(2) != 0) + " " + ids[g.below(4)] + "\n"; k.wild_connect = true; break;
                        case 2: s += "PONG\r\n"; break;
                        case 3: s += identity_of(k); break;
                        default: s += "NOPE " + std::string(g.below(40), 'x') + "\n"; break;
                    }
                }
                break;
            }
            case 4: {   // templates with bad arguments
                switch (r.a(2) % 6) {
                    case 0: s = "REGISTER " + std::string(64, 'z') + "\n"; break;
                    case 1: s = "REGISTER " + std::string(100000, 'a') + "\n"; break;
                    case 2: s = "CONNECT " + std::string(5000, 'b') + " " + ids[r.a(3) & 3] + "\n"; break;
                    case 3: s = "CONNECT " + ids[r.a(3) & 3] + "\n"; break;
                    case 4: s = "REGISTER  " + ids[r.a(3) & 3] + "\n"; break;
                    default: s = std::string("REGISTER ") + ids[r.a(3) & 3].substr(0, 62) + "+1\n"; break;
                }
                if (s.rfind("CONNECT", 0) == 0) k.wild_connect = true;
                if (s.rfind("REGISTER", 0) == 0) {
                    if (known_rereg && k.reg_templates > 0) { c.count_excluded(rereg_sig); s = "PONG\n"; }
                    else { if (k.reg_templates > 0) mark_shape(); k.reg_templates++; }
                }
                break;
            }
            case 5: {   // identity-sized fragments
                std::size_t n = 1 + r.a(2) % 40;
                s.resize(n);
                for (auto& ch : s) ch = static_cast<char>(g.byte());
                break;
            }
            default: {  // NULs and blanks
                s = std::string(1 + r.a(2) % 9, '\0') + std::string(r.a(3) % 5, ' ') + ((r.a(4) & 1) ? "\n" : "");
                break;
            }
        }
        c.note("W%d:%u/%zu", k.idx, kind, s.size());
        k.wild = true;
        c.label("wild_write");
        raw_send(k, s);
    }

    // ---- back-pressure: a bridged client stops reading for a while; its partner keeps writing (large probes); later it
    // resumes.  Everything written while both stay connected must still arrive, in order (I1 / I3).
    void resume_all() {
        for (auto& k : cl)
            if (k.paused) { k.paused = false; c.note("R%d", k.idx); }
    }
    bool backpressure(const verif::Rec& r) {
        auto both = [&](Cl& k) { return k.live() && !k.wild && k.partner >= 0 && (k.phase == Cl::BridgeT || k.phase == Cl::BridgeX) && cl[k.partner].live() && !cl[k.partner].wild; };
        auto br = sel(both);
        if (br.empty()) return false;
        auto paused = sel([&](Cl& k) { return both(k) && k.paused; });
        switch (r.a(1) % 4) {
            case 0: {
                auto cand = sel([&](Cl& k) { return both(k) && !k.paused; });
                if (cand.empty()) return false;
                Cl* k = pick(cand, r.a(0));
                k->paused = true;
                c.note("P%d", k->idx);
                c.label("reader_paused");
                return true;
            }
            case 1: case 2: {
                if (paused.empty()) return false;
                Cl* k = pick(paused, r.a(0));
                // (loopback: the relay's socket send buffer grows to tcp_wmem[2] = 4 MiB before send() comes back short, so only
                //  probes beyond that really make the relay queue bytes itself)
                static const std::size_t kBig[] = {70000, 600000, 1u << 20, 2u << 20, 3u << 20, 5u << 20, 6u << 20, 65537};
                std::size_t n = kBig[r.a(2) % 8];
                c.label("big_write_to_paused_reader");
                do_data(cl[k->partner], n, false);
                return true;
            }
            default: {
                if (paused.empty()) return false;
                Cl* k = pick(paused, r.a(0));
                k->paused = false;
                c.note("R%d", k->idx);
                c.label("reader_resumed");
                return true;
            }
        }
    }

    void act(unsigned kind, const verif::Rec& r, bool& force) {
        auto live_any = sel([&](Cl& k) { return k.fd_open && !k.closed; });
        auto cmd = sel([&](Cl& k) { return cmd_idle(k); });
        auto br = sel([&](Cl& k) { return bridged(k); });
        switch (kind) {
            case 0: case 1: case 2: progress(r, force); break;
            case 3: case 4: case 12:
                if (br.empty()) { progress(r, force); break; }
                do_data(*pick(br, r.a(0)), data_len(r), kind == 12);
                break;
            case 5:
                if (cmd.empty()) { progress(r, force); break; }
                do_register(*pick(cmd, r.a(0)), r.a(1), r.a(1) >> 2, force);
                break;
            case 15: {
                auto pref = sel([&](Cl& k) { return cmd_idle(k) && (maybe_claimed(k) || !k.reg_hex.empty()); });
                auto claimed = sel([&](Cl& k) { return cmd_idle(k) && maybe_claimed(k); });
                if (!claimed.empty() && (r.a(1) & 0x80)) pref = claimed;
                if (pref.empty()) pref = cmd;
                if (pref.empty()) { progress(r, force); break; }
                do_register(*pick(pref, r.a(0)), r.a(1), 0, force);
                break;
            }
            case 6: case 13:
                if (cmd.empty()) { progress(r, force); break; }
                {
                    auto unreg = sel([&](Cl& k) { return cmd_idle(k) && k.reg_hex.empty(); });
                    Cl* x = (!unreg.empty() && (r.a(4) & 0x0C)) ? pick(unreg, r.a(0)) : pick(cmd, r.a(0));
                    do_connect(*x, r, kind == 13, force);
                }
                break;
            case 7: {
                auto need = sel([&](Cl& k) { return needs_identity(k); });
                if (need.empty()) { progress(r, force); break; }
                Cl* x = pick(need, r.a(0));
                std::size_t remaining = 32 - x->after.size();
                std::size_t n = remaining > 1 ? 1 + r.a(2) % (remaining - 1) : 1;
                do_identity(*x, n, false, r, force);
                break;
            }
            case 8:
                if (cmd.empty()) { progress(r, force); break; }
                do_junk(*pick(cmd, r.a(0)), r.a(1));
                break;
            case 9: {
                auto pend = sel([&](Cl& k) { return cmd_idle(k) && !k.half_rest.empty(); });
                if (!pend.empty() && !(r.a(4) & 1)) { do_half(*pick(pend, r.a(0)), r, force); break; }
                if (cmd.empty()) { progress(r, force); break; }
                do_half(*pick(cmd, r.a(0)), r, force);
                break;
            }
            case 10:
                if (live_any.empty()) { progress(r, force); break; }
                {
                    Cl* k = pick(live_any, r.a(0));
                    c.note("X%d/%u", k->idx, r.a(1) % 3);
                    disconnect(*k, r.a(1) % 3);
                }
                break;
            case 14: {
                auto pref = sel([&](Cl& k) { return k.live() && (k.phase != Cl::Cmd || k.conn_outstanding || maybe_claimed(k)); });
                if (pref.empty()) pref = live_any;
                if (pref.empty()) { progress(r, force); break; }
                Cl* k = pick(pref, r.a(0));
                c.note("X%d/%u", k->idx, r.a(1) % 3);
                disconnect(*k, r.a(1) % 3);
                break;
            }
            case 11: {
                int i = add_client();
                if (i < 0) { progress(r, force); break; }
                c.note("N%d", i);
                break;
            }
            default: break;
        }
    }

    // An accepted connector that has written its whole identity is bridged by the relay at once; if its target has not
    // read BEGIN yet although the loop is quiescent, delivery is late (never seen on loopback, but cheap to tolerate):
    // wait a little before any client writes again, so that "the target writes nothing between being bridged and
    // reading BEGIN" keeps holding.
    void await_pending_bridges() {
        if (!opt.strict) return;
        auto pending = [&] {
            for (auto& x : cl)
                if (!x.wild && !x.bridge_waited && x.live() && x.phase == Cl::Id && x.got_ok && x.after.size() >= 32 && x.partner == -1) return true;
            return false;
        };
        if (!pending()) return;
        for (int i = 0; i < 20 && pending(); ++i) {
            c.label("late_bridge_wait");
            ::poll(nullptr, 0, 10);
            quiesce();
        }
        for (auto& x : cl)
            if (x.phase == Cl::Id && x.after.size() >= 32) x.bridge_waited = true;   // wait only once per connector
    }

    void apply(const verif::Rec& r) {
        if (unstepped == 0) await_pending_bridges();
        unsigned op = r.op();
        bool nostep = (op & 0xC0) == 0xC0;
        bool force = false;
        if (opt.wild) {
            unsigned kind = op & 0x1F;
            if (kind >= 16 && kind <= 22) {
                auto any = sel([&](Cl& k) { return k.fd_open && !k.closed; });
                if (any.empty()) progress(r, force);
                else wild_write(*pick(any, r.a(0)), kind - 16, r);
            } else if (kind >= 23 && kind <= 25) {
                auto any = sel([&](Cl& k) { return k.fd_open; });
                if (!any.empty()) {
                    Cl* k = pick(any, r.a(0));
                    int style = kind == 23 ? 2 : kind == 24 ? 1 : 0;
                    c.note("X%d/%d", k->idx, style);
                    disconnect(*k, style);
                }
            } else if (kind >= 26) {
                static const unsigned kMap[] = {0, 0, 3, 6, 15, 13};
                act(kMap[kind - 26], r, force);
            } else {
                act(kind, r, force);
            }
        } else {
            if (!((op & 0x30) == 0x30 && backpressure(r))) act(op & 0x0F, r, force);
        }
        ++unstepped;
        if (!nostep || force) settle();
        else c.label("batched");
        // bystander rule
        if (!had_bystander_bridge)
            for (auto& t : cl)
                if (t.phase == Cl::BridgeT && t.live() && cl[t.partner].live())
                    for (auto& o : cl)
                        if (o.live() && o.idx != t.idx && o.idx != t.partner) had_bystander_bridge = true;
    }

    void setup(int n_clients) {
        const verif::Tape& t = c.tape;
        seed = t.h32(2) | (static_cast<std::uint64_t>(t.h16(6)) << 32);
        verif::Prng g(seed ^ 0x1D5);
        for (unsigned i = 0; i < 4; ++i) {
            std::uint8_t b[32];
            g.fill(b, sizeof b);
            b[0] = static_cast<std::uint8_t>(0x10 | i);
            ids[i] = to_hex(b, 32);
        }
        small_rcvbuf = !opt.wild && (t.h(1) & 1);
        if (!relay.start(!opt.strict)) c.fail(std::string(opt.pid) + ":harness-error", "relay server did not start");
        cl.reserve(kMaxClients + 1);
        for (int i = 0; i < n_clients; ++i) add_client();
        c.note("n=%d", n_clients);
        settle();
    }
};

}  // namespace vrelay

// ------------------------------------------------------------------------------------------------ replacement operator new/delete
// (this header is included by exactly one translation unit per harness binary).  Allocation goes to malloc/free, which
// ASan intercepts, so heap errors are still reported; only the spin-guard check is added.
#ifndef VRELAY_NO_NEW_REPLACEMENT
namespace vrelay {
inline void* guarded_alloc(std::size_t n, std::size_t align) {
    if (g_spin_armed) {
        g_step_alloc += n;
        if (++g_step_calls > kStepCallLimit || g_step_alloc > kStepAllocLimit) {
            g_spin_armed = false;
            throw SpinAbort();
        }
    }
    void* p = nullptr;
    if (align <= 16) p = std::malloc(n ? n : 1);
    else if (::posix_memalign(&p, align, n ? n : 1) != 0) p = nullptr;
    if (!p) throw std::bad_alloc();
    return p;
}
inline void* quiet_alloc(std::size_t n, std::size_t align) noexcept {
    void* p = nullptr;
    if (align <= 16) return std::malloc(n ? n : 1);
    return ::posix_memalign(&p, align, n ? n : 1) == 0 ? p : nullptr;
}
}  // namespace vrelay
void* operator new(std::size_t n) { return vrelay::guarded_alloc(n, 1); }
void* operator new[](std::size_t n) { return vrelay::guarded_alloc(n, 1); }
void* operator new(std::size_t n, std::align_val_t a) { return vrelay::guarded_alloc(n, static_cast<std::size_t>(a)); }
void* operator new[](std::size_t n, std::align_val_t a) { return vrelay::guarded_alloc(n, static_cast<std::size_t>(a)); }
void* operator new(std::size_t n, const std::nothrow_t&) noexcept { return vrelay::quiet_alloc(n, 1); }
void* operator new[](std::size_t n, const std::nothrow_t&) noexcept { return vrelay::quiet_alloc(n, 1); }
void* operator new(std::size_t n, std::align_val_t a, const std::nothrow_t&) noexcept { return vrelay::quiet_alloc(n, static_cast<std::size_t>(a)); }
void* operator new[](std::size_t n, std::align_val_t a, const std::nothrow_t&) noexcept { return vrelay::quiet_alloc(n, static_cast<std::size_t>(a)); }
void operator delete(void* p) noexcept { std::free(p); }
void operator delete[](void* p) noexcept { std::free(p); }
void operator delete(void* p, std::size_t) noexcept { std::free(p); }
void operator delete[](void* p, std::size_t) noexcept { std::free(p); }
void operator delete(void* p, std::align_val_t) noexcept { std::free(p); }
void operator delete[](void* p, std::align_val_t) noexcept { std::free(p); }
void operator delete(void* p, std::size_t, std::align_val_t) noexcept { std::free(p); }
void operator delete[](void* p, std::size_t, std::align_val_t) noexcept { std::free(p); }
void operator delete(void* p, const std::nothrow_t&) noexcept { std::free(p); }
void operator delete[](void* p, const std::nothrow_t&) noexcept { std::free(p); }
void operator delete(void* p, std::align_val_t, const std::nothrow_t&) noexcept { std::free(p); }
void operator delete[](void* p, std::align_val_t, const std::nothrow_t&) noexcept { std::free(p); }
#endif
