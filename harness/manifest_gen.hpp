// Shared by C17 / C18: an independent model of a manifest, an independent codec for the eph:// wire
// layout (versions 1..4, own base64), and the tape-driven manifest generators.
//
// Nothing in here calls the repository's encoder/decoder.  The wire layout (big-endian):
//   version:u8  chunk_id[32]  chunk_hash[32]  nonce[12]  expiry_seconds:u64  threshold:u8  total:u8
//   nshards:u8 { index:u8 value[32] }*
//   (v>=2) nmeta:u8 { klen:u8 key  vlen:u16 value }*
//   (v>=3) ndisc:u8 { (v>=4: slen:u8 scheme)  tlen:u8 transport  elen:u16 endpoint  priority:u8 }*
//          token_bits:u8  alen:u16 advisory  has_digest:u8  [digest[32]]
//          nfallback:u8 { ulen:u16 uri  priority:u8 }*
//   URI = "eph://" + base64(payload)
#pragma once
#include "verif.hpp"

#include "ephemeralnet/protocol/Manifest.hpp"

#include <algorithm>
#include <chrono>
#include <limits>
#include <ratio>
#include <type_traits>

namespace mgen {
using Bytes = std::vector<std::uint8_t>;
namespace proto = ephemeralnet::protocol;

static_assert(std::is_same_v<std::chrono::system_clock::duration::period, std::nano>,
              "the harness assumes system_clock ticks are nanoseconds");
static_assert(std::is_same_v<std::chrono::system_clock::duration::rep, std::int64_t> ||
              sizeof(std::chrono::system_clock::duration::rep) == 8, "64-bit system_clock ticks assumed");

constexpr std::int64_t kNsPerSec = 1'000'000'000LL;
// largest |seconds| whose nanosecond count still fits the 64-bit system_clock tick counter
constexpr std::int64_t kMaxSafeSeconds = std::numeric_limits<std::int64_t>::max() / kNsPerSec;  // 9223372036
constexpr std::size_t kFixedHead = 1 + 32 + 32 + 12 + 8 + 3;                                    // 88
constexpr std::size_t kExpiryOffset = 1 + 32 + 32 + 12;                                         // 77

struct Shard {
    std::uint8_t index = 0;
    std::array<std::uint8_t, 32> value{};
};
struct Hint {
    std::string scheme, transport, endpoint;
    std::uint8_t priority = 0;
};
struct Fallback {
    std::string uri;
    std::uint8_t priority = 0;
};
struct Model {
    std::array<std::uint8_t, 32> chunk_id{}, chunk_hash{};
    std::array<std::uint8_t, 12> nonce{};
    std::uint8_t threshold = 0, total_shares = 0;
    std::int64_t expiry_ns = 0;  // system_clock ticks
    std::vector<Shard> shards;
    std::map<std::string, std::string> metadata;
    std::vector<Hint> discovery;
    std::uint8_t token_bits = 0;
    std::string advisory;
    bool has_digest = false;
    std::array<std::uint8_t, 32> digest{};
    std::vector<Fallback> fallback;
};

inline proto::Manifest to_repo(const Model& m) {
    proto::Manifest r{};
    r.chunk_id = m.chunk_id;
    r.chunk_hash = m.chunk_hash;
    r.nonce.bytes = m.nonce;
    r.threshold = m.threshold;
    r.total_shares = m.total_shares;
    r.expires_at = std::chrono::system_clock::time_point{std::chrono::system_clock::duration{m.expiry_ns}};
    r.shards.reserve(m.shards.size());
    for (auto& s : m.shards) {
        proto::KeyShard k{};
        k.index = s.index;
        k.value = s.value;
        r.shards.push_back(k);
    }
    r.metadata = m.metadata;
    r.discovery_hints.reserve(m.discovery.size());
    for (auto& h : m.discovery) {
        proto::DiscoveryHint d{};
        d.scheme = h.scheme;
        d.transport = h.transport;
        d.endpoint = h.endpoint;
        d.priority = h.priority;
        r.discovery_hints.push_back(std::move(d));
    }
    r.security.token_challenge_bits = m.token_bits;
    r.security.advisory = m.advisory;
    r.security.has_attestation_digest = m.has_digest;
    r.security.attestation_digest = m.digest;
    r.fallback_hints.reserve(m.fallback.size());
    for (auto& f : m.fallback) {
        proto::FallbackHint d{};
        d.uri = f.uri;
        d.priority = f.priority;
        r.fallback_hints.push_back(std::move(d));
    }
    return r;
}

// ---- own base64 -------------------------------------------------------------------------------
inline const char* b64_alphabet() { return "ABCDEFGHIJKLMNOPQRSTUVWXYZabcdefghijklmnopqrstuvwxyz0123456789+/"; }

inline std::string b64_encode(const Bytes& in) {
    const char* A = b64_alphabet();
    std::string out;
    out.reserve((in.size() + 2) / 3 * 4);
    std::uint32_t acc = 0;
    int bits = 0;
    for (std::uint8_t b : in) {
        acc = ((acc & 0xFFFFu) << 8) | b;
        bits += 8;
        while (bits >= 6) {
            bits -= 6;
            out.push_back(A[(acc >> bits) & 63u]);
        }
    }
    if (bits > 0) out.push_back(A[(acc << (6 - bits)) & 63u]);
    while (out.size() % 4) out.push_back('=');
    return out;
}

// Permissive reading ('=' counts as a zero sextet anywhere; it suppresses output bytes only in the last two
// places of a quad).  Used to predict which inputs reach the binary parser, never as an oracle.
inline bool b64_decode_permissive(const std::string& s, Bytes& out) {
    out.clear();
    if (s.size() % 4 != 0) return false;
    auto val = [](unsigned char ch) -> int {
        if (ch >= 'A' && ch <= 'Z') return ch - 'A';
        if (ch >= 'a' && ch <= 'z') return ch - 'a' + 26;
        if (ch >= '0' && ch <= '9') return ch - '0' + 52;
        if (ch == '+') return 62;
        if (ch == '/') return 63;
        if (ch == '=') return 0;
        return -1;
    };
    out.reserve(s.size() / 4 * 3);
    for (std::size_t i = 0; i < s.size(); i += 4) {
        int v[4];
        for (int k = 0; k < 4; ++k) {
            v[k] = val(static_cast<unsigned char>(s[i + k]));
            if (v[k] < 0) return false;
        }
        std::uint32_t t = (static_cast<std::uint32_t>(v[0]) << 18) | (static_cast<std::uint32_t>(v[1]) << 12) |
                          (static_cast<std::uint32_t>(v[2]) << 6) | static_cast<std::uint32_t>(v[3]);
        out.push_back(static_cast<std::uint8_t>(t >> 16));
        if (s[i + 2] != '=') out.push_back(static_cast<std::uint8_t>(t >> 8));
        if (s[i + 3] != '=') out.push_back(static_cast<std::uint8_t>(t));
    }
    return true;
}

// ---- representability (from the property statement: 8-bit counts, 8/16-bit string lengths) -----------
struct Over {
    bool shards = false, metadata = false, discovery = false, fallback = false;
    bool key = false, value = false, scheme = false, transport = false, endpoint = false, uri = false, advisory = false;
    bool any() const { return shards || metadata || discovery || fallback || key || value || scheme || transport || endpoint || uri || advisory; }
    bool only_shards() const { return shards && !(metadata || discovery || fallback || key || value || scheme || transport || endpoint || uri || advisory); }
    std::string str() const {
        std::string s;
        auto add = [&](bool b, const char* n) { if (b) { if (!s.empty()) s += ","; s += n; } };
        add(shards, "shards>255"); add(metadata, "metadata>255"); add(discovery, "discovery>255"); add(fallback, "fallback>255");
        add(key, "key>255"); add(value, "value>65535"); add(scheme, "scheme>255"); add(transport, "transport>255");
        add(endpoint, "endpoint>65535"); add(uri, "uri>65535"); add(advisory, "advisory>65535");
        return s;
    }
};

inline Over unrepresentable(const Model& m) {
    Over o;
    o.shards = m.shards.size() > 255;
    o.metadata = m.metadata.size() > 255;
    o.discovery = m.discovery.size() > 255;
    o.fallback = m.fallback.size() > 255;
    for (auto& [k, v] : m.metadata) {
        if (k.size() > 255) o.key = true;
        if (v.size() > 65535) o.value = true;
    }
    for (auto& h : m.discovery) {
        // an empty scheme is written as the transport, so the scheme field carries the transport then
        if (h.scheme.size() > 255) o.scheme = true;
        if (h.transport.size() > 255) o.transport = true;
        if (h.endpoint.size() > 65535) o.endpoint = true;
    }
    for (auto& f : m.fallback)
        if (f.uri.size() > 65535) o.uri = true;
    o.advisory = m.advisory.size() > 65535;
    return o;
}

// ---- independent encoder -----------------------------------------------------------------------------
enum MarkKind : std::uint8_t { kMarkCount = 0, kMarkLen8 = 1, kMarkLen16 = 2, kMarkSection = 3, kMarkFlag = 4 };
struct Mark {
    std::size_t off;
    MarkKind kind;
};

inline void put16(Bytes& b, std::size_t v) {
    b.push_back(static_cast<std::uint8_t>(v >> 8));
    b.push_back(static_cast<std::uint8_t>(v));
}
inline void put_str(Bytes& b, const std::string& s) { b.insert(b.end(), s.begin(), s.end()); }

inline std::uint64_t expiry_wire_of(std::int64_t expiry_ns) {
    return static_cast<std::uint64_t>(expiry_ns / kNsPerSec);  // whole seconds, toward zero
}

// Writes the payload for `version` (1..4; other values get the v4 layout with that version byte).  The model
// must be representable.  `expiry_wire` is the raw 64-bit field.  `marks` (optional) records where the
// count / length bytes and section starts are so that a corruptor can aim at them.
inline Bytes encode_payload(const Model& m, std::uint8_t version, std::uint64_t expiry_wire, std::vector<Mark>* marks = nullptr) {
    Bytes b;
    auto mark = [&](MarkKind k) { if (marks) marks->push_back(Mark{b.size(), k}); };
    unsigned layout = (version >= 1 && version <= 3) ? version : 4;
    b.push_back(version);
    b.insert(b.end(), m.chunk_id.begin(), m.chunk_id.end());
    b.insert(b.end(), m.chunk_hash.begin(), m.chunk_hash.end());
    b.insert(b.end(), m.nonce.begin(), m.nonce.end());
    for (int i = 7; i >= 0; --i) b.push_back(static_cast<std::uint8_t>(expiry_wire >> (8 * i)));
    b.push_back(m.threshold);
    b.push_back(m.total_shares);
    mark(kMarkCount);
    b.push_back(static_cast<std::uint8_t>(m.shards.size()));
    for (auto& s : m.shards) {
        b.push_back(s.index);
        b.insert(b.end(), s.value.begin(), s.value.end());
    }
    if (layout == 1) return b;
    mark(kMarkSection);
    mark(kMarkCount);
    b.push_back(static_cast<std::uint8_t>(m.metadata.size()));
    for (auto& [k, v] : m.metadata) {
        mark(kMarkLen8);
        b.push_back(static_cast<std::uint8_t>(k.size()));
        put_str(b, k);
        mark(kMarkLen16);
        put16(b, v.size());
        put_str(b, v);
    }
    if (layout == 2) return b;
    mark(kMarkSection);
    mark(kMarkCount);
    b.push_back(static_cast<std::uint8_t>(m.discovery.size()));
    for (auto& h : m.discovery) {
        if (layout >= 4) {
            const std::string& sch = h.scheme.empty() ? h.transport : h.scheme;
            mark(kMarkLen8);
            b.push_back(static_cast<std::uint8_t>(sch.size()));
            put_str(b, sch);
        }
        mark(kMarkLen8);
        b.push_back(static_cast<std::uint8_t>(h.transport.size()));
        put_str(b, h.transport);
        mark(kMarkLen16);
        put16(b, h.endpoint.size());
        put_str(b, h.endpoint);
        b.push_back(h.priority);
    }
    mark(kMarkSection);
    b.push_back(m.token_bits);
    mark(kMarkLen16);
    put16(b, m.advisory.size());
    put_str(b, m.advisory);
    mark(kMarkFlag);
    b.push_back(m.has_digest ? 1 : 0);
    if (m.has_digest) b.insert(b.end(), m.digest.begin(), m.digest.end());
    mark(kMarkSection);
    mark(kMarkCount);
    b.push_back(static_cast<std::uint8_t>(m.fallback.size()));
    for (auto& f : m.fallback) {
        mark(kMarkLen16);
        put16(b, f.uri.size());
        put_str(b, f.uri);
        b.push_back(f.priority);
    }
    return b;
}

inline std::string encode_uri(const Model& m) {
    return std::string("eph://") + b64_encode(encode_payload(m, 4, expiry_wire_of(m.expiry_ns)));
}

// ---- independent decoder (bounds-checked reader) ------------------------------------------------------------
struct Parsed {
    enum Status { Ok, TooSmall, BadVersion, Truncated } status = TooSmall;
    std::uint8_t version = 0;
    std::uint64_t expiry_wire = 0;
    Model m;  // expiry_ns is only meaningful when expiry_in_range()
    bool expiry_in_range() const {
        auto s = static_cast<std::int64_t>(expiry_wire);
        return s >= -kMaxSafeSeconds && s <= kMaxSafeSeconds;
    }
};

struct Reader {
    const Bytes& b;
    std::size_t pos = 0;
    bool ok = true;
    bool need(std::size_t n) {
        if (!ok || b.size() - pos < n) { ok = false; return false; }
        return true;
    }
    std::uint8_t u8() { if (!need(1)) return 0; return b[pos++]; }
    std::size_t u16() { if (!need(2)) return 0; std::size_t v = (static_cast<std::size_t>(b[pos]) << 8) | b[pos + 1]; pos += 2; return v; }
    std::string str(std::size_t n) { if (!need(n)) return {}; std::string s(b.begin() + pos, b.begin() + pos + n); pos += n; return s; }
    template <std::size_t N> void arr(std::array<std::uint8_t, N>& a) { if (!need(N)) return; std::copy_n(b.begin() + pos, N, a.begin()); pos += N; }
};

inline Parsed decode_payload(const Bytes& p) {
    Parsed out;
    if (p.size() < kFixedHead) { out.status = Parsed::TooSmall; return out; }
    Reader r{p};
    out.version = r.u8();
    if (out.version < 1 || out.version > 4) { out.status = Parsed::BadVersion; return out; }
    Model& m = out.m;
    r.arr(m.chunk_id);
    r.arr(m.chunk_hash);
    r.arr(m.nonce);
    for (int i = 0; i < 8; ++i) out.expiry_wire = (out.expiry_wire << 8) | r.u8();
    if (out.expiry_in_range()) m.expiry_ns = static_cast<std::int64_t>(out.expiry_wire) * kNsPerSec;
    m.threshold = r.u8();
    m.total_shares = r.u8();
    out.status = Parsed::Truncated;
    std::size_t ns = r.u8();
    if (!r.need(ns * 33)) return out;
    for (std::size_t i = 0; i < ns; ++i) {
        Shard s;
        s.index = r.u8();
        r.arr(s.value);
        m.shards.push_back(s);
    }
    if (out.version == 1) { out.status = Parsed::Ok; return out; }
    std::size_t nm = r.u8();
    if (!r.ok) return out;
    for (std::size_t i = 0; i < nm; ++i) {
        std::string k = r.str(r.u8());
        std::string v = r.str(r.u16());
        if (!r.ok) return out;
        m.metadata.emplace(std::move(k), std::move(v));  // first occurrence of a key wins
    }
    if (out.version == 2) { out.status = Parsed::Ok; return out; }
    std::size_t nd = r.u8();
    if (!r.ok) return out;
    for (std::size_t i = 0; i < nd; ++i) {
        Hint h;
        if (out.version >= 4) h.scheme = r.str(r.u8());
        h.transport = r.str(r.u8());
        h.endpoint = r.str(r.u16());
        h.priority = r.u8();
        if (!r.ok) return out;
        if (h.scheme.empty()) h.scheme = h.transport;
        m.discovery.push_back(std::move(h));
    }
    m.token_bits = r.u8();
    m.advisory = r.str(r.u16());
    m.has_digest = r.u8() != 0;
    if (m.has_digest) r.arr(m.digest);
    std::size_t nf = r.u8();
    if (!r.ok) return out;
    for (std::size_t i = 0; i < nf; ++i) {
        Fallback f;
        f.uri = r.str(r.u16());
        f.priority = r.u8();
        if (!r.ok) return out;
        m.fallback.push_back(std::move(f));
    }
    out.status = Parsed::Ok;
    return out;
}

// ---- comparison: repository manifest vs model -----------------------------------------------------------------
// exact == true  : every field identical (used for decode∘encode∘decode stability)
// exact == false : the C17 relation — expiry equal up to a whole second (result a whole number of seconds, less
//                  than one second away), an empty scheme reported as the transport, digest compared only when
//                  the flag is set.
inline std::string diff(const proto::Manifest& d, const Model& m, bool exact) {
    auto s = [](std::size_t a, std::size_t b) { return std::to_string(a) + " vs " + std::to_string(b); };
    if (d.chunk_id != m.chunk_id) return "chunk_id differs";
    if (d.chunk_hash != m.chunk_hash) return "chunk_hash differs";
    if (d.nonce.bytes != m.nonce) return "nonce differs";
    if (d.threshold != m.threshold) return "threshold " + s(d.threshold, m.threshold);
    if (d.total_shares != m.total_shares) return "total_shares " + s(d.total_shares, m.total_shares);
    {
        std::int64_t got = d.expires_at.time_since_epoch().count();
        if (exact) {
            if (got != m.expiry_ns) return "expiry " + std::to_string(got) + "ns vs " + std::to_string(m.expiry_ns) + "ns";
        } else {
            __int128 delta = static_cast<__int128>(got) - static_cast<__int128>(m.expiry_ns);
            if (got % kNsPerSec != 0 || delta <= -static_cast<__int128>(kNsPerSec) || delta >= static_cast<__int128>(kNsPerSec))
                return "expiry " + std::to_string(got) + "ns is not the whole-second value of " + std::to_string(m.expiry_ns) + "ns";
        }
    }
    if (d.shards.size() != m.shards.size()) return "shard count " + s(d.shards.size(), m.shards.size());
    for (std::size_t i = 0; i < m.shards.size(); ++i) {
        if (d.shards[i].index != m.shards[i].index) return "shard[" + std::to_string(i) + "].index differs";
        if (d.shards[i].value != m.shards[i].value) return "shard[" + std::to_string(i) + "].value differs";
    }
    if (d.metadata.size() != m.metadata.size()) return "metadata count " + s(d.metadata.size(), m.metadata.size());
    if (d.metadata != m.metadata) return "metadata entries differ";
    if (d.discovery_hints.size() != m.discovery.size()) return "discovery count " + s(d.discovery_hints.size(), m.discovery.size());
    for (std::size_t i = 0; i < m.discovery.size(); ++i) {
        const auto& a = d.discovery_hints[i];
        const auto& b = m.discovery[i];
        const std::string& want_scheme = (!exact && b.scheme.empty()) ? b.transport : b.scheme;
        std::string at = "discovery[" + std::to_string(i) + "].";
        if (a.scheme != want_scheme) return at + "scheme differs (len " + s(a.scheme.size(), want_scheme.size()) + ")";
        if (a.transport != b.transport) return at + "transport differs (len " + s(a.transport.size(), b.transport.size()) + ")";
        if (a.endpoint != b.endpoint) return at + "endpoint differs (len " + s(a.endpoint.size(), b.endpoint.size()) + ")";
        if (a.priority != b.priority) return at + "priority differs";
    }
    if (d.security.token_challenge_bits != m.token_bits) return "token bits differ";
    if (d.security.advisory != m.advisory) return "advisory differs (len " + s(d.security.advisory.size(), m.advisory.size()) + ")";
    if (d.security.has_attestation_digest != m.has_digest) return "digest flag differs";
    if ((exact || m.has_digest) && d.security.attestation_digest != m.digest) return "attestation digest differs";
    if (d.fallback_hints.size() != m.fallback.size()) return "fallback count " + s(d.fallback_hints.size(), m.fallback.size());
    for (std::size_t i = 0; i < m.fallback.size(); ++i) {
        if (d.fallback_hints[i].uri != m.fallback[i].uri)
            return "fallback[" + std::to_string(i) + "].uri differs (len " + s(d.fallback_hints[i].uri.size(), m.fallback[i].uri.size()) + ")";
        if (d.fallback_hints[i].priority != m.fallback[i].priority) return "fallback[" + std::to_string(i) + "].priority differs";
    }
    return "";
}

// model of a repository manifest (for the exact comparison of two repository values through one code path)
inline Model from_repo(const proto::Manifest& r) {
    Model m;
    m.chunk_id = r.chunk_id;
    m.chunk_hash = r.chunk_hash;
    m.nonce = r.nonce.bytes;
    m.threshold = r.threshold;
    m.total_shares = r.total_shares;
    m.expiry_ns = r.expires_at.time_since_epoch().count();
    for (auto& s : r.shards) m.shards.push_back(Shard{s.index, s.value});
    m.metadata = r.metadata;
    for (auto& h : r.discovery_hints) m.discovery.push_back(Hint{h.scheme, h.transport, h.endpoint, h.priority});
    m.token_bits = r.security.token_challenge_bits;
    m.advisory = r.security.advisory;
    m.has_digest = r.security.has_attestation_digest;
    m.digest = r.security.attestation_digest;
    for (auto& f : r.fallback_hints) m.fallback.push_back(Fallback{f.uri, f.priority});
    return m;
}

// ---- generation helpers ---------------------------------------------------------------------------------------
inline std::string rand_string(verif::Prng& g, std::size_t n) {
    std::string s(n, '\0');
    std::size_t i = 0;
    while (i < n) {
        std::uint64_t w = g.next();
        for (int k = 0; k < 8 && i < n; ++k, ++i) s[i] = static_cast<char>(w >> (8 * k));
    }
    return s;
}

inline std::string short_token(verif::Prng& g, std::size_t max_len) {
    static const char* words[] = {"tcp", "udp", "relay", "stun", "control", "https", "quic", "manual"};
    std::uint64_t r = g.next();
    if ((r & 3) == 0) return words[(r >> 2) % 8];
    std::size_t n = (r >> 8) % (max_len + 1);
    if ((r >> 3) & 1) {  // printable
        std::string s(n, 'a');
        for (auto& ch : s) ch = static_cast<char>(0x21 + g.below(0x5E));
        return s;
    }
    return rand_string(g, n);  // any bytes, including NUL
}

// count / length selector: the top two bits of `sel` choose small / boundary table / wide / medium
template <std::size_t N>
inline std::size_t pick_size(std::uint8_t sel, std::uint32_t v, const std::uint32_t (&table)[N], std::uint32_t wide_max) {
    switch (sel >> 6) {
        case 0: return v % 4;
        case 1: return table[(sel & 0x3F) % N];
        case 2: return v % (wide_max + 1);
        default: return v % 17;
    }
}

// A small, always representable manifest (C18 seeds and structured mode): 0..3 entries per list.
inline Model small_model(verif::Prng& g, unsigned nshards, unsigned nmeta, unsigned ndisc, unsigned nfb, bool digest) {
    Model m;
    g.fill(m.chunk_id.data(), 32);
    g.fill(m.chunk_hash.data(), 32);
    g.fill(m.nonce.data(), 12);
    m.threshold = g.byte();
    m.total_shares = g.byte();
    for (unsigned i = 0; i < nshards; ++i) {
        Shard s;
        s.index = static_cast<std::uint8_t>(i + 1);
        g.fill(s.value.data(), 32);
        m.shards.push_back(s);
    }
    for (unsigned i = 0; i < nmeta; ++i) {
        std::string k = std::string(1, static_cast<char>('a' + i)) + short_token(g, 5);
        m.metadata.emplace(std::move(k), short_token(g, 9));
    }
    for (unsigned i = 0; i < ndisc; ++i) {
        Hint h;
        h.scheme = (g.next() & 1) ? short_token(g, 5) : std::string();
        h.transport = short_token(g, 5);
        h.endpoint = short_token(g, 14);
        h.priority = g.byte();
        m.discovery.push_back(std::move(h));
    }
    m.token_bits = g.byte();
    m.advisory = short_token(g, 12);
    m.has_digest = digest;
    if (digest) g.fill(m.digest.data(), 32);
    for (unsigned i = 0; i < nfb; ++i) {
        Fallback f;
        f.uri = short_token(g, 18);
        f.priority = g.byte();
        m.fallback.push_back(std::move(f));
    }
    return m;
}

}  // namespace mgen
