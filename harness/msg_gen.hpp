// Shared by C13 / C15 / C16: protocol-message generator (from 16 configuration bytes) and an
// INDEPENDENT wire codec written from the property statements / wire description:
//
//   message   := version(1) type(1) body
//   Announce  (type 1): be32 ttl, be32 endpoint_len, be32 manifest_len, be32 shards_len,
//                       chunk_id(32) peer_id(32) endpoint manifest shards [be64 work_nonce iff version >= 3]
//   Request   (type 2): chunk_id(32) requester(32)
//   Chunk     (type 3): be32 ttl, be32 data_len, chunk_id(32) data
//   Ack       (type 4): accepted(1) chunk_id(32) peer_id(32)
//   Handshake (type 5): be32 public_identity, be64 work_nonce, requested_version(1)
//   HsAck     (type 6): accepted(1) negotiated_version(1) be32 responder_public
//   signed    := message HMAC-SHA256(key, message)(32)
//
// The model type RMsg is deliberately not the repository's protocol::Message; to_repo()/diff()
// are the only places where the two meet.
#pragma once
#include "verif.hpp"
#include "refs.hpp"

#include "ephemeralnet/protocol/Message.hpp"

#include <algorithm>
#include <array>
#include <memory>
#include <optional>
#include <span>
#include <string>
#include <variant>

namespace msggen {
using Bytes = std::vector<std::uint8_t>;
constexpr std::size_t kCfg = 16;  // configuration bytes consumed by gen_message
using Cfg = std::array<std::uint8_t, kCfg>;

enum : std::uint8_t { T_ANNOUNCE = 1, T_REQUEST = 2, T_CHUNK = 3, T_ACK = 4, T_HANDSHAKE = 5, T_HSACK = 6 };

struct RMsg {
    std::uint8_t version = 0;
    std::uint8_t type = T_REQUEST;
    std::array<std::uint8_t, 32> chunk{};
    std::array<std::uint8_t, 32> peer{};   // peer_id / requester
    Bytes endpoint, manifest;              // announce strings
    Bytes blob;                            // announce assigned_shards / chunk data
    std::uint32_t ttl = 0;                 // announce, chunk
    std::uint64_t nonce = 0;               // announce (wire version >= 3), handshake
    bool accepted = false;                 // ack, hsack
    std::uint8_t ver_field = 0;            // handshake requested_version / hsack negotiated_version
    std::uint32_t pub = 0;                 // handshake public_identity / hsack responder_public
};

inline std::uint8_t clamp_version(std::uint8_t v) { return v < 1 ? 1 : (v > 4 ? 4 : v); }

inline const char* type_name(std::uint8_t t) {
    switch (t) {
        case T_ANNOUNCE: return "announce";
        case T_REQUEST: return "request";
        case T_CHUNK: return "chunk";
        case T_ACK: return "ack";
        case T_HANDSHAKE: return "handshake";
        case T_HSACK: return "hsack";
    }
    return "type?";
}

// ---- independent encoder -----------------------------------------------------------------------
inline void put(Bytes& o, const std::uint8_t* p, std::size_t n) { o.insert(o.end(), p, p + n); }
inline void put(Bytes& o, const Bytes& b) { o.insert(o.end(), b.begin(), b.end()); }

inline Bytes ref_encode(const RMsg& m) {
    Bytes o;
    const std::uint8_t v = clamp_version(m.version);
    o.push_back(v);
    o.push_back(m.type);
    switch (m.type) {
        case T_ANNOUNCE:
            refs::put_be32(o, m.ttl);
            refs::put_be32(o, static_cast<std::uint32_t>(m.endpoint.size()));
            refs::put_be32(o, static_cast<std::uint32_t>(m.manifest.size()));
            refs::put_be32(o, static_cast<std::uint32_t>(m.blob.size()));
            put(o, m.chunk.data(), 32);
            put(o, m.peer.data(), 32);
            put(o, m.endpoint);
            put(o, m.manifest);
            put(o, m.blob);
            if (v >= 3) refs::put_be64(o, m.nonce);
            break;
        case T_REQUEST:
            put(o, m.chunk.data(), 32);
            put(o, m.peer.data(), 32);
            break;
        case T_CHUNK:
            refs::put_be32(o, m.ttl);
            refs::put_be32(o, static_cast<std::uint32_t>(m.blob.size()));
            put(o, m.chunk.data(), 32);
            put(o, m.blob);
            break;
        case T_ACK:
            o.push_back(m.accepted ? 1 : 0);
            put(o, m.chunk.data(), 32);
            put(o, m.peer.data(), 32);
            break;
        case T_HANDSHAKE:
            refs::put_be32(o, m.pub);
            refs::put_be64(o, m.nonce);
            o.push_back(m.ver_field);
            break;
        case T_HSACK:
            o.push_back(m.accepted ? 1 : 0);
            o.push_back(m.ver_field);
            refs::put_be32(o, m.pub);
            break;
    }
    return o;
}

inline Bytes ref_sign(const Bytes& body, const Bytes& key) {
    auto mac = refs::hmac_sha256(key.data(), key.size(), body.data(), body.size());
    Bytes o = body;
    o.insert(o.end(), mac.begin(), mac.end());
    return o;
}

// ---- independent decoder -----------------------------------------------------------------------
enum class Rej { None, TooShortHeader, BadVersion, BadType, ShortFixed, ShortVariable };
struct DecInfo {
    Rej why = Rej::None;
    unsigned length_fields_read = 0;   // announce 3, chunk 1 (once the fixed part is present)
    std::uint64_t consumed = 0;        // bytes of the input the accepted message occupies
    bool near_2_32 = false;            // some length field >= 2^31
    std::size_t bool_offset = 0;       // offset of the truthiness byte (ack / hsack), 0 = none
};

inline std::uint32_t be32(const std::uint8_t* p) {
    return (std::uint32_t(p[0]) << 24) | (std::uint32_t(p[1]) << 16) | (std::uint32_t(p[2]) << 8) | p[3];
}
inline std::uint64_t be64(const std::uint8_t* p) { return (std::uint64_t(be32(p)) << 32) | be32(p + 4); }

inline std::optional<RMsg> ref_decode(const std::uint8_t* p, std::size_t n, DecInfo& di) {
    di = DecInfo{};
    if (n < 2) { di.why = Rej::TooShortHeader; return std::nullopt; }
    RMsg m;
    m.version = p[0];
    m.type = p[1];
    if (m.version < 1 || m.version > 4) { di.why = Rej::BadVersion; return std::nullopt; }
    if (m.type < 1 || m.type > 6) { di.why = Rej::BadType; return std::nullopt; }
    const std::uint8_t* b = p + 2;
    const std::uint64_t rem = n - 2;
    auto short_fixed = [&]() { di.why = Rej::ShortFixed; return std::nullopt; };
    switch (m.type) {
        case T_ANNOUNCE: {
            const std::uint64_t extra = m.version >= 3 ? 8 : 0;
            if (rem < 16 + 64 + extra) return short_fixed();
            m.ttl = be32(b);
            const std::uint64_t el = be32(b + 4), ml = be32(b + 8), sl = be32(b + 12);
            di.length_fields_read = 3;
            di.near_2_32 = el >= 0x80000000ull || ml >= 0x80000000ull || sl >= 0x80000000ull;
            const std::uint64_t total = 16 + 64 + el + ml + sl + extra;  // < 2^34, no wrap
            if (rem < total) { di.why = Rej::ShortVariable; return std::nullopt; }
            std::copy(b + 16, b + 48, m.chunk.begin());
            std::copy(b + 48, b + 80, m.peer.begin());
            const std::uint8_t* q = b + 80;
            m.endpoint.assign(q, q + el); q += el;
            m.manifest.assign(q, q + ml); q += ml;
            m.blob.assign(q, q + sl); q += sl;
            if (extra) m.nonce = be64(q);
            di.consumed = 2 + total;
            return m;
        }
        case T_REQUEST:
            if (rem < 64) return short_fixed();
            std::copy(b, b + 32, m.chunk.begin());
            std::copy(b + 32, b + 64, m.peer.begin());
            di.consumed = 2 + 64;
            return m;
        case T_CHUNK: {
            if (rem < 8 + 32) return short_fixed();
            m.ttl = be32(b);
            const std::uint64_t dl = be32(b + 4);
            di.length_fields_read = 1;
            di.near_2_32 = dl >= 0x80000000ull;
            if (rem < 40 + dl) { di.why = Rej::ShortVariable; return std::nullopt; }
            std::copy(b + 8, b + 40, m.chunk.begin());
            m.blob.assign(b + 40, b + 40 + dl);
            di.consumed = 2 + 40 + dl;
            return m;
        }
        case T_ACK:
            if (rem < 65) return short_fixed();
            m.accepted = b[0] != 0;
            di.bool_offset = 2;
            std::copy(b + 1, b + 33, m.chunk.begin());
            std::copy(b + 33, b + 65, m.peer.begin());
            di.consumed = 2 + 65;
            return m;
        case T_HANDSHAKE:
            if (rem < 13) return short_fixed();
            m.pub = be32(b);
            m.nonce = be64(b + 4);
            m.ver_field = b[12];
            di.consumed = 2 + 13;
            return m;
        case T_HSACK:
            if (rem < 6) return short_fixed();
            m.accepted = b[0] != 0;
            di.bool_offset = 2;
            m.ver_field = b[1];
            m.pub = be32(b + 2);
            di.consumed = 2 + 6;
            return m;
    }
    di.why = Rej::BadType;
    return std::nullopt;
}
inline std::optional<RMsg> ref_decode(const Bytes& b, DecInfo& di) { return ref_decode(b.data(), b.size(), di); }

// ---- bridge to the repository type ---------------------------------------------------------------
inline ephemeralnet::protocol::Message to_repo(const RMsg& m) {
    namespace P = ephemeralnet::protocol;
    P::Message out;
    out.version = m.version;
    out.type = static_cast<P::MessageType>(m.type);
    switch (m.type) {
        case T_ANNOUNCE: {
            P::AnnouncePayload a;
            a.chunk_id = m.chunk;
            a.peer_id = m.peer;
            a.endpoint.assign(reinterpret_cast<const char*>(m.endpoint.data()), m.endpoint.size());
            a.manifest_uri.assign(reinterpret_cast<const char*>(m.manifest.data()), m.manifest.size());
            a.assigned_shards = m.blob;
            a.ttl = std::chrono::seconds(m.ttl);
            a.work_nonce = m.nonce;
            out.payload = std::move(a);
            break;
        }
        case T_REQUEST: {
            P::RequestPayload r;
            r.chunk_id = m.chunk;
            r.requester = m.peer;
            out.payload = r;
            break;
        }
        case T_CHUNK: {
            P::ChunkPayload c;
            c.chunk_id = m.chunk;
            c.data = m.blob;
            c.ttl = std::chrono::seconds(m.ttl);
            out.payload = std::move(c);
            break;
        }
        case T_ACK: {
            P::AcknowledgePayload a;
            a.chunk_id = m.chunk;
            a.peer_id = m.peer;
            a.accepted = m.accepted;
            out.payload = a;
            break;
        }
        case T_HANDSHAKE: {
            P::TransportHandshakePayload h;
            h.public_identity = m.pub;
            h.work_nonce = m.nonce;
            h.requested_version = m.ver_field;
            out.payload = h;
            break;
        }
        case T_HSACK: {
            P::HandshakeAckPayload h;
            h.accepted = m.accepted;
            h.negotiated_version = m.ver_field;
            h.responder_public = m.pub;
            out.payload = h;
            break;
        }
    }
    return out;
}

// "" when the repository message `got` is exactly the wire-decoded model message `want`
// (want.version is a wire version 1..4; an announce nonce is compared only when version >= 3,
// below that the wire does not carry it and the property says nothing about its value).
inline std::string diff(const ephemeralnet::protocol::Message& got, const RMsg& want) {
    namespace P = ephemeralnet::protocol;
    auto h = [](const auto& x) { return verif::hex(x, 12); };
    if (got.version != want.version) return "version " + std::to_string(got.version) + " != " + std::to_string(want.version);
    if (static_cast<std::uint8_t>(got.type) != want.type)
        return "type " + std::to_string(static_cast<unsigned>(got.type)) + " != " + std::to_string(want.type);
    auto str_eq = [](const std::string& s, const Bytes& b) {
        return s.size() == b.size() && std::equal(b.begin(), b.end(), reinterpret_cast<const std::uint8_t*>(s.data()));
    };
    switch (want.type) {
        case T_ANNOUNCE: {
            auto* a = std::get_if<P::AnnouncePayload>(&got.payload);
            if (!a) return "payload alternative is not AnnouncePayload";
            if (a->chunk_id != want.chunk) return "chunk_id " + h(a->chunk_id) + " != " + h(want.chunk);
            if (a->peer_id != want.peer) return "peer_id " + h(a->peer_id) + " != " + h(want.peer);
            if (!str_eq(a->endpoint, want.endpoint)) return "endpoint (len " + std::to_string(a->endpoint.size()) + ") " + h(a->endpoint) + " != (len " + std::to_string(want.endpoint.size()) + ") " + h(want.endpoint);
            if (!str_eq(a->manifest_uri, want.manifest)) return "manifest_uri (len " + std::to_string(a->manifest_uri.size()) + ") " + h(a->manifest_uri) + " != (len " + std::to_string(want.manifest.size()) + ") " + h(want.manifest);
            if (a->assigned_shards != want.blob) return "assigned_shards (n " + std::to_string(a->assigned_shards.size()) + ") " + h(a->assigned_shards) + " != (n " + std::to_string(want.blob.size()) + ") " + h(want.blob);
            if (a->ttl.count() != static_cast<std::int64_t>(want.ttl)) return "ttl " + std::to_string(a->ttl.count()) + " != " + std::to_string(want.ttl);
            if (want.version >= 3 && a->work_nonce != want.nonce) return "work_nonce " + std::to_string(a->work_nonce) + " != " + std::to_string(want.nonce);
            return "";
        }
        case T_REQUEST: {
            auto* r = std::get_if<P::RequestPayload>(&got.payload);
            if (!r) return "payload alternative is not RequestPayload";
            if (r->chunk_id != want.chunk) return "chunk_id " + h(r->chunk_id) + " != " + h(want.chunk);
            if (r->requester != want.peer) return "requester " + h(r->requester) + " != " + h(want.peer);
            return "";
        }
        case T_CHUNK: {
            auto* c = std::get_if<P::ChunkPayload>(&got.payload);
            if (!c) return "payload alternative is not ChunkPayload";
            if (c->chunk_id != want.chunk) return "chunk_id " + h(c->chunk_id) + " != " + h(want.chunk);
            if (c->data != want.blob) return "data (n " + std::to_string(c->data.size()) + ") " + h(c->data) + " != (n " + std::to_string(want.blob.size()) + ") " + h(want.blob);
            if (c->ttl.count() != static_cast<std::int64_t>(want.ttl)) return "ttl " + std::to_string(c->ttl.count()) + " != " + std::to_string(want.ttl);
            return "";
        }
        case T_ACK: {
            auto* a = std::get_if<P::AcknowledgePayload>(&got.payload);
            if (!a) return "payload alternative is not AcknowledgePayload";
            if (a->accepted != want.accepted) return "accepted " + std::to_string(a->accepted) + " != " + std::to_string(want.accepted);
            if (a->chunk_id != want.chunk) return "chunk_id " + h(a->chunk_id) + " != " + h(want.chunk);
            if (a->peer_id != want.peer) return "peer_id " + h(a->peer_id) + " != " + h(want.peer);
            return "";
        }
        case T_HANDSHAKE: {
            auto* t = std::get_if<P::TransportHandshakePayload>(&got.payload);
            if (!t) return "payload alternative is not TransportHandshakePayload";
            if (t->public_identity != want.pub) return "public_identity " + std::to_string(t->public_identity) + " != " + std::to_string(want.pub);
            if (t->work_nonce != want.nonce) return "work_nonce " + std::to_string(t->work_nonce) + " != " + std::to_string(want.nonce);
            if (t->requested_version != want.ver_field) return "requested_version " + std::to_string(t->requested_version) + " != " + std::to_string(want.ver_field);
            return "";
        }
        case T_HSACK: {
            auto* k = std::get_if<P::HandshakeAckPayload>(&got.payload);
            if (!k) return "payload alternative is not HandshakeAckPayload";
            if (k->accepted != want.accepted) return "accepted " + std::to_string(k->accepted) + " != " + std::to_string(want.accepted);
            if (k->negotiated_version != want.ver_field) return "negotiated_version " + std::to_string(k->negotiated_version) + " != " + std::to_string(want.ver_field);
            if (k->responder_public != want.pub) return "responder_public " + std::to_string(k->responder_public) + " != " + std::to_string(want.pub);
            return "";
        }
    }
    return "unknown type in model message";
}

// ---- generator -----------------------------------------------------------------------------------
// cfg[0] type (announce x4, chunk x2, others x1); cfg[1..2] version (3/4 of the time 0..5, else any byte);
// cfg[3..6] expansion seed; cfg[7..8] length A (endpoint / chunk data); cfg[9..10] length B (manifest);
// cfg[11..12] shard count; cfg[13] ttl / public value; cfg[14] nonce; cfg[15] flags (accepted, string
// alphabet, version field).  All-zero configuration = version-0 request with zero ids.
inline const std::int64_t kStrTable[] = {0, 0, 1, 2, 15, 16, 17, 63, 64, 255, 256, 257, 1024, 4096, 65535, 65536};
inline const std::int64_t kShardTable[] = {0, 0, 1, 2, 3, 16, 254, 255, 256, 300};
inline const std::uint32_t kU32Table[] = {0u, 1u, 2u, 60u, 3600u, 86400u, 0x7FFFFFFFu, 0x80000000u, 0x80000001u, 0xFFFFFFFEu, 0xFFFFFFFFu, 0x00010000u, 0x0000FFFFu, 0x01000000u};
inline const std::uint64_t kU64Table[] = {0ull, 1ull, 0xFFull, 0x100ull, 0xFFFFFFFFull, 0x100000000ull, 0x7FFFFFFFFFFFFFFFull, 0x8000000000000000ull,
                                          0xFFFFFFFFFFFFFFFEull, 0xFFFFFFFFFFFFFFFFull, 0x0102030405060708ull, 0x00000000000000FFull << 56};
inline const std::uint8_t kVerFieldTable[] = {0, 1, 2, 3, 4, 5, 127, 128, 254, 255};

inline Bytes gen_string(verif::Prng& prng, std::size_t n, unsigned alphabet) {
    Bytes s(n);
    switch (alphabet & 3) {
        case 0: {  // endpoint-like printable text
            static const char cs[] = "abcdefghijklmnopqrstuvwxyz0123456789.:-/[]_%?=&";
            for (auto& ch : s) ch = static_cast<std::uint8_t>(cs[prng.below(sizeof cs - 1)]);
            break;
        }
        case 1: prng.fill(s.data(), n); break;                      // arbitrary bytes
        case 2: break;                                             // all NUL
        case 3:                                                    // text with embedded NULs / high bytes
            for (auto& ch : s) { auto r = prng.byte(); ch = r < 64 ? 0 : (r < 96 ? 0xFF : static_cast<std::uint8_t>('a' + r % 26)); }
            if (n) s[0] = 0;
            break;
    }
    return s;
}

inline Cfg cfg_at(const verif::Tape& t, std::size_t off) {
    Cfg c{};
    for (std::size_t i = 0; i < kCfg; ++i) c[i] = t.h(off + i);
    return c;
}
inline Cfg cfg_from(const std::uint8_t* p, std::size_t n) {
    Cfg c{};
    for (std::size_t i = 0; i < kCfg && i < n; ++i) c[i] = p[i];
    return c;
}

// cap: upper bound for the string / data lengths (C13 keeps messages small because every step is MACed twice)
inline RMsg gen_message(const Cfg& g, std::size_t cap = 1u << 20) {
    static const std::uint8_t kTypes[10] = {T_REQUEST, T_ANNOUNCE, T_CHUNK, T_ACK, T_HANDSHAKE, T_HSACK, T_ANNOUNCE, T_ANNOUNCE, T_CHUNK, T_ANNOUNCE};
    RMsg m;
    m.type = kTypes[g[0] % 10];
    m.version = g[1] < 192 ? static_cast<std::uint8_t>(g[1] % 6) : g[2];
    const std::uint32_t seed = g[3] | (g[4] << 8) | (g[5] << 16) | (std::uint32_t(g[6]) << 24);
    verif::Prng prng(seed ^ 0xC15C15ull);
    if (seed != 0) {
        prng.fill(m.chunk.data(), 32);
        prng.fill(m.peer.data(), 32);
    }
    std::size_t la = static_cast<std::size_t>(verif::boundary_int(g[7], g[8] % 49, kStrTable, 0, 65536));
    std::size_t lb = static_cast<std::size_t>(verif::boundary_int(g[9], g[10] % 49, kStrTable, 0, 65536));
    // 64 KiB strings are kept for a quarter of the boundary picks that land on them (cost), else 255..257
    if (la >= 65535 && (g[8] & 3) != 0) la = la - 65535 + 255;
    if (lb >= 65535 && (g[10] & 3) != 0) lb = lb - 65535 + 255;
    la = std::min(la, cap);
    lb = std::min(lb, cap);
    const std::size_t lc = static_cast<std::size_t>(verif::boundary_int(g[11], g[12] | (g[10] << 8), kShardTable, 0, 300));
    const std::uint32_t r32 = static_cast<std::uint32_t>(prng.next());
    const std::uint64_t r64 = prng.next();
    const std::uint32_t u32 = g[13] == 0 ? 0 : ((g[13] & 0x80) ? kU32Table[(g[13] & 0x7F) % (sizeof kU32Table / sizeof kU32Table[0])]
                                                                 : ((g[13] & 0x40) ? r32 : r32 % 100000u));
    const std::uint64_t u64 = g[14] == 0 ? 0 : ((g[14] & 0x80) ? kU64Table[(g[14] & 0x7F) % (sizeof kU64Table / sizeof kU64Table[0])] : r64);
    const unsigned alphabet = (g[15] >> 1) & 3;
    const std::uint8_t vf = (g[15] & 0x80) ? prng.byte() : kVerFieldTable[(g[15] >> 3) % sizeof kVerFieldTable];
    switch (m.type) {
        case T_ANNOUNCE:
            m.ttl = u32;
            m.endpoint = gen_string(prng, la, alphabet);
            m.manifest = gen_string(prng, lb, alphabet + 1);
            m.blob.resize(lc);
            for (std::size_t i = 0; i < lc; ++i) m.blob[i] = (alphabet & 1) ? prng.byte() : static_cast<std::uint8_t>(i + 1);
            m.nonce = u64;
            break;
        case T_REQUEST: break;
        case T_CHUNK:
            m.ttl = u32;
            m.blob = gen_string(prng, la, 1);
            break;
        case T_ACK: m.accepted = g[15] & 1; break;
        case T_HANDSHAKE:
            m.pub = u32;
            m.nonce = u64;
            m.ver_field = vf;
            break;
        case T_HSACK:
            m.accepted = g[15] & 1;
            m.ver_field = vf;
            m.pub = u32;
            break;
    }
    return m;
}

inline std::string describe(const RMsg& m) {
    char b[400];
    switch (m.type) {
        case T_ANNOUNCE:
            std::snprintf(b, sizeof b, "announce{v=%u ttl=%u ep=%zu:%s uri=%zu:%s shards=%zu nonce=%llx chunk=%s}", m.version, m.ttl, m.endpoint.size(),
                          verif::hex(m.endpoint, 6).c_str(), m.manifest.size(), verif::hex(m.manifest, 6).c_str(), m.blob.size(),
                          static_cast<unsigned long long>(m.nonce), verif::hex(m.chunk, 4).c_str());
            break;
        case T_REQUEST: std::snprintf(b, sizeof b, "request{v=%u chunk=%s peer=%s}", m.version, verif::hex(m.chunk, 4).c_str(), verif::hex(m.peer, 4).c_str()); break;
        case T_CHUNK:
            std::snprintf(b, sizeof b, "chunk{v=%u ttl=%u data=%zu:%s chunk=%s}", m.version, m.ttl, m.blob.size(), verif::hex(m.blob, 6).c_str(), verif::hex(m.chunk, 4).c_str());
            break;
        case T_ACK: std::snprintf(b, sizeof b, "ack{v=%u accepted=%d chunk=%s peer=%s}", m.version, m.accepted, verif::hex(m.chunk, 4).c_str(), verif::hex(m.peer, 4).c_str()); break;
        case T_HANDSHAKE:
            std::snprintf(b, sizeof b, "handshake{v=%u pub=%u nonce=%llx req_version=%u}", m.version, m.pub, static_cast<unsigned long long>(m.nonce), m.ver_field);
            break;
        case T_HSACK: std::snprintf(b, sizeof b, "hsack{v=%u accepted=%d negotiated=%u pub=%u}", m.version, m.accepted, m.ver_field, m.pub); break;
        default: std::snprintf(b, sizeof b, "type%u{v=%u}", m.type, m.version);
    }
    return b;
}

// the model message a peer must see after the wire: version clamped (nonce below v3 is not carried)
inline RMsg on_wire(const RMsg& m) {
    RMsg w = m;
    w.version = clamp_version(m.version);
    return w;
}

// exact-size heap copy so that ASan sees any read past the end of the input
struct ExactBuf {
    std::unique_ptr<std::uint8_t[]> p;
    std::size_t n;
    explicit ExactBuf(const Bytes& b) : p(new std::uint8_t[b.size()]), n(b.size()) { if (n) std::memcpy(p.get(), b.data(), n); }
    ExactBuf(const std::uint8_t* d, std::size_t len) : p(new std::uint8_t[len]), n(len) { if (n) std::memcpy(p.get(), d, n); }
    std::span<const std::uint8_t> span() const { return std::span<const std::uint8_t>(p.get(), n); }
};

// key lengths of DESIGN C13: {0,16,32,64,65,100}; sel==0 -> 32 zero... (simplest) ; content from seed
inline const std::size_t kKeyLens[] = {32, 0, 16, 64, 65, 100, 1, 31, 33, 63};
inline Bytes gen_key(std::uint8_t sel, std::uint8_t seed) {
    std::size_t n = kKeyLens[sel % (sizeof kKeyLens / sizeof kKeyLens[0])];
    verif::Prng prng(0x6B6579ull + seed);
    Bytes k = prng.bytes(n);
    if (seed == 0) std::fill(k.begin(), k.end(), std::uint8_t(0));
    else if ((seed & 3) == 1 && n) k.back() = 0;  // trailing zero byte: HMAC-equivalent to the key without it
    return k;
}
}  // namespace msggen
