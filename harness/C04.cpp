// C04 — persisted chunk files do not outlive the chunk (crash-point enumeration over generated histories)
#include "verif.hpp"
#include "vclock.hpp"

#include "ephemeralnet/storage/ChunkStore.hpp"

#include <dirent.h>
#include <fstream>
#include <map>
#include <memory>
#include <sys/stat.h>
#include <sys/wait.h>
#include <unistd.h>

namespace ephemeralnet::verif {
using ChunkStoreFsOpHook = void (*)(const char* operation, const char* path);
extern ChunkStoreFsOpHook g_chunkstore_fsop;
}  // namespace ephemeralnet::verif

namespace verif {
const PropertyInfo kInfo = {
    "C04", 4, 8, 14,
    "tape -> history over a persistent ChunkStore (wipe on expiry, 1..3 passes) in a fresh directory, virtual clock: put / overwrite of 3 chunk ids (0..9000 bytes, TTL 1..20 s), "
    "get incl. after the deadline and before any sweep, sweep_expired, advance (to the next deadline exactly / -1ns / +1ns / random), restart (the store object is destroyed and a new one "
    "is created on the same directory). Crash-free pass: after every op the file <hex>.chunk of every chunk live in the current instance holds exactly the stored bytes; after every "
    "sweep at time T the directory holds no file of any chunk (of this or an earlier instance) whose deadline <= T; at the hook point just before a wiped file is removed its "
    "content is all zeros of the original length. Crash enumeration: the pass counts the N filesystem-operation points (guarded hook in ChunkStore.cpp); for EVERY k <= N a forked "
    "child re-runs the history and _exits at point k; the parent then starts a new store on the directory, advances past every deadline, sweeps, and requires the directory to hold "
    "no chunk file. Non-trivial: a lookup after expiry before the sweep, or a restart with live files, or a crash point inside a wipe or persist."};

namespace {
using namespace ephemeralnet;
using TP = std::chrono::steady_clock::time_point;
using std::chrono::seconds;
using std::chrono::nanoseconds;
TP now() { return std::chrono::steady_clock::now(); }
ChunkId cid(int i) { ChunkId c{}; Prng g(400 + i); g.fill(c.data(), c.size()); c[0] = static_cast<std::uint8_t>(0xA0 + i); return c; }

// ---- hook state (process-wide; a forked child has its own copy)
long g_ops = 0;
long g_crash_at = -1;
std::string g_zero_violation;
int g_wipe_points = 0, g_persist_points = 0;
std::string g_crash_op;

void hook(const char* op, const char* path) {
    ++g_ops;
    if (std::strncmp(op, "wipe.", 5) == 0) ++g_wipe_points; else ++g_persist_points;
    if (g_crash_at >= 0 && g_ops == g_crash_at) _exit(42);
    if (g_crash_at < 0 && std::strcmp(op, "wipe.remove") == 0) {
        std::ifstream in(path, std::ios::binary);
        if (in) {
            std::vector<char> data((std::istreambuf_iterator<char>(in)), std::istreambuf_iterator<char>());
            for (char ch : data) if (ch != 0) { g_zero_violation = std::string("file ") + path + " is about to be removed but was not overwritten with zeros"; break; }
        }
    }
}

// files that belong to a chunk: "<hex id>.chunk", and any other name that carries a chunk's hex id (e.g. a staging
// file "<hex id>.chunk.tmp" of an interrupted store) -- "an interrupted store or wipe never leaves a file"
std::vector<std::string> chunk_files(const std::string& dir) {
    std::vector<std::string> out;
    if (DIR* d = ::opendir(dir.c_str())) {
        while (auto* e = ::readdir(d)) {
            std::string n = e->d_name;
            if (n == "." || n == "..") continue;
            bool is_chunk = n.size() > 6 && n.substr(n.size() - 6) == ".chunk";
            for (int k = 0; k < 3 && !is_chunk; ++k) is_chunk = n.find(chunk_id_to_string(cid(k))) != std::string::npos;
            if (is_chunk) out.push_back(n);
        }
        ::closedir(d);
    }
    return out;
}
std::optional<std::vector<std::uint8_t>> read_file(const std::string& path) {
    std::ifstream in(path, std::ios::binary);
    if (!in) return std::nullopt;
    return std::vector<std::uint8_t>((std::istreambuf_iterator<char>(in)), std::istreambuf_iterator<char>());
}
void rm_rf(const std::string& dir) {
    for (auto& f : chunk_files(dir)) ::unlink((dir + "/" + f).c_str());
    if (DIR* d = ::opendir(dir.c_str())) {
        while (auto* e = ::readdir(d)) { std::string n = e->d_name; if (n != "." && n != "..") ::unlink((dir + "/" + n).c_str()); }
        ::closedir(d);
    }
    ::rmdir(dir.c_str());
}

struct MChunk { std::vector<std::uint8_t> bytes; TP deadline; bool current_instance = true; };

struct History {
    const Tape& t;
    std::string dir;
    Config cfg;
    // runs the history; `c` is null in a crashing child (no oracle there)
    TP run(Ctx* c) {
        std::map<int, MChunk> model;
        TP latest = now();
        auto store = std::make_unique<ChunkStore>(cfg);
        auto key = [](int k) { return chunk_id_to_string(cid(k)) + ".chunk"; };
        auto check_files = [&](bool after_sweep) {
            if (!c) return;
            for (auto& [k, m] : model) {
                std::string path = dir + "/" + key(k);
                auto data = read_file(path);
                if (m.current_instance && now() < m.deadline) {
                    if (!data) c->fail("C04:live-chunk-file-missing", "chunk c" + std::to_string(k) + " is live but its file does not exist");
                    if (*data != m.bytes) c->fail("C04:live-chunk-file-content-wrong", "file of live chunk c" + std::to_string(k) + " does not hold exactly the stored bytes");
                }
                if (after_sweep && now() >= m.deadline && data)
                    c->fail(m.current_instance ? "C04:expired-file-survives-sweep" : "C04:orphan-file-after-restart-or-crash",
                            "file of chunk c" + std::to_string(k) + (m.current_instance ? "" : " (written by an earlier instance)") + " still exists after a sweep at/after its deadline");
            }
            if (!g_zero_violation.empty()) c->fail("C04:removed-without-overwrite", g_zero_violation);
        };
        for (std::size_t i = 0; i < t.nrec(); ++i) {
            Rec r = t.r(i);
            int k = r.a(0) % 3;
            switch (r.op() % 8) {
                case 0: case 1: {
                    static const int kSizes[] = {0, 1, 100, 4095, 4096, 4097, 9000, 300};
                    auto bytes = Prng(r.seed()).bytes(kSizes[r.a(1) % 8]);
                    for (auto& b : bytes) if (b == 0) b = 1;  // so that "all zeros" is distinguishable from data
                    int ttl = 1 + r.a(2) % 20;
                    if (c) c->note("|put(c%d,%zuB,ttl=%d)", k, bytes.size(), ttl);
                    store->put(cid(k), bytes, seconds(ttl));
                    model[k] = MChunk{bytes, now() + seconds(ttl), true};
                    latest = std::max(latest, model[k].deadline);
                    break;
                }
                case 2: {
                    if (c) {
                        c->note("|get(c%d)", k);
                        auto it = model.find(k);
                        if (it != model.end() && it->second.current_instance && now() >= it->second.deadline) c->nt("lookup_after_expiry_before_sweep");
                    }
                    auto got = store->get(cid(k));
                    if (c) {
                        auto it = model.find(k);
                        bool live = it != model.end() && it->second.current_instance && now() < it->second.deadline;
                        if (live && (!got || *got != it->second.bytes)) c->fail("C04:live-chunk-not-served", "get of live chunk returned wrong data");
                        if (!live && got) c->fail("C04:served-after-deadline", "get served an expired or foreign chunk");
                    }
                    break;
                }
                case 3: case 4: {
                    if (c) c->note("|sweep");
                    store->sweep_expired();
                    check_files(true);
                    break;
                }
                case 5: case 6: {
                    TP next = TP::max();
                    for (auto& [kk, m] : model) if (m.deadline > now()) next = std::min(next, m.deadline);
                    unsigned kind = r.a(1) % 5;
                    if (next == TP::max() && kind < 3) kind = 3;
                    nanoseconds d{0};
                    switch (kind) {
                        case 0: d = next - now(); break;
                        case 1: d = next - now() - nanoseconds(1); break;
                        case 2: d = next - now() + nanoseconds(1); break;
                        case 3: d = std::chrono::milliseconds(1 + r.a16(2) % 3000); break;
                        case 4: d = seconds(1 + r.a(2) % 25); break;
                    }
                    if (d.count() < 0) d = nanoseconds(0);
                    if (c) c->note("|adv(%lld)", static_cast<long long>(d.count()));
                    vclock::advance(d);
                    break;
                }
                case 7: {
                    if (c) {
                        c->note("|restart");
                        for (auto& [kk, m] : model) if (m.current_instance && now() < m.deadline) c->nt("restart_with_live_files");
                    }
                    store.reset();
                    store = std::make_unique<ChunkStore>(cfg);
                    for (auto& [kk, m] : model) m.current_instance = false;
                    break;
                }
            }
            check_files(false);
        }
        return latest;
    }
};
}  // namespace

void run_case(Ctx& c) {
    vclock::Frozen frozen(c.tape.header_seed());
    static int counter = 0;
    std::string dir = "/tmp/verif_C04_" + std::to_string(::getpid()) + "_" + std::to_string(++counter);
    rm_rf(dir);
    Config cfg;
    cfg.storage_persistent_enabled = true;
    cfg.storage_wipe_on_expiry = true;
    cfg.storage_wipe_passes = static_cast<std::uint8_t>(1 + c.tape.h(0) % 3);
    cfg.storage_directory = dir;
    cfg.default_chunk_ttl = seconds(5);
    c.note("passes=%u", cfg.storage_wipe_passes);
    struct Cleanup { std::string d; ~Cleanup() { ephemeralnet::verif::g_chunkstore_fsop = nullptr; rm_rf(d); } } cleanup{dir};

    // ---- crash-free pass
    g_ops = 0; g_crash_at = -1; g_zero_violation.clear(); g_wipe_points = g_persist_points = 0;
    ephemeralnet::verif::g_chunkstore_fsop = hook;
    const vclock::ns t_start = vclock::now_offset();
    History h{c.tape, dir, cfg};
    TP latest = h.run(&c);
    const long N = g_ops;
    c.count("histories");
    c.count("fs_operation_points", static_cast<std::uint64_t>(N));
    c.note("|points=%ld", N);
    // after the history: a final sweep past every deadline must leave an empty directory (same oracle as after a crash)
    auto final_check = [&](const char* sig, const std::string& what) {
        ChunkStore fresh(cfg);
        if (latest > now()) vclock::advance(latest - now() + seconds(1));
        fresh.sweep_expired();
        auto left = chunk_files(dir);
        if (!left.empty()) c.fail(sig, what + ": " + std::to_string(left.size()) + " chunk file(s) outlive every deadline (" + left.front() + ")");
    };
    final_check("C04:orphan-file-after-restart-or-crash", "after the history, a new store instance on the directory and a sweep past every deadline");
    if (N > 0 && (g_wipe_points > 0)) c.label("history_with_wipe");

    // ---- crash enumeration: every filesystem-operation point
    for (long k = 1; k <= N; ++k) {
        rm_rf(dir);
        vclock::set(t_start);
        pid_t pid = ::fork();
        if (pid == 0) {
            g_ops = 0;
            g_crash_at = k;
            ephemeralnet::verif::g_chunkstore_fsop = hook;
            History child{c.tape, dir, cfg};
            child.run(nullptr);
            _exit(0);  // history shorter than expected (cannot happen: same tape, same clock)
        }
        int status = 0;
        ::waitpid(pid, &status, 0);
        if (!WIFEXITED(status) || (WEXITSTATUS(status) != 42 && WEXITSTATUS(status) != 0))
            c.fail("C04:crash-child-abnormal", "child for crash point " + std::to_string(k) + " ended abnormally (status " + std::to_string(status) + ")");
        ephemeralnet::verif::g_chunkstore_fsop = nullptr;
        vclock::set(t_start);
        {
            ChunkStore fresh(cfg);
            vclock::advance((latest - vclock::steady_at(t_start)) + seconds(1));
            fresh.sweep_expired();
        }
        auto left = chunk_files(dir);
        if (!left.empty())
            c.fail("C04:orphan-file-after-restart-or-crash", "crash at filesystem operation " + std::to_string(k) + " of " + std::to_string(N) +
                                                                    ": after a restart and a sweep past every deadline " + std::to_string(left.size()) + " chunk file(s) remain");
        c.nt("crash_point_enumerated");
        c.count("crash_points_enumerated");
    }
    if (N > 0) c.note("crash_points=%ld", N);
}
}  // namespace verif
