// C06 — provider lookups return exactly the live, non-withdrawn providers (reference model, virtual time)
#define VERIF_FUZZ_TARGET 1
#include "verif.hpp"
#include "vclock.hpp"

#include "ephemeralnet/dht/KademliaTable.hpp"

#include <algorithm>
#include <map>

namespace verif {
const PropertyInfo kInfo = {
    "C06", 4, 8, 80,
    "tape -> history over 3 chunks x 30 peers on one KademliaTable under a frozen virtual clock: add_contact(chunk, peer, address variant, ttl in "
    "{0,1s,2s,5s,30s,300s,3600s} chosen per announcement so TTLs are mixed on one chunk), withdraw_contact, bursts of 1..24 announcements from consecutive peers with TTLs in {30,31,299,300,3600}s, find_providers, sweep_expired, "
    "advance(to the next expiry exactly / -1ns / +1ns / 1ms..100s); a header byte biases a case towards one chunk and towards walking through the peers so the 21st provider is reached. Oracle: reference map chunk->peer->(address, expiry of the most recent announcement); "
    "withdrawn peers removed; after each add at most the 20 latest-expiring are kept (a tie at the cut is resolved by observing which one the table kept and "
    "requiring the dropped ones to have minimum expiry). After EVERY operation the table's locator snapshot restricted to unexpired holders must equal the "
    "model's unexpired set (ids, addresses, expiries), and every find_providers result must equal it exactly, both directions. "
    "Non-trivial: a sweep while a chunk holds live providers with different expiries, or a 21st provider, or a withdraw followed by re-announce."};

namespace {
using namespace ephemeralnet;
using TP = std::chrono::steady_clock::time_point;
struct Entry { std::string address; TP expiry; };
using Model = std::map<int, std::map<int, Entry>>;  // chunk -> peer -> entry

const int kTtls[] = {0, 1, 2, 5, 30, 300, 3600, 1};

PeerId peer_id(int i) { PeerId p{}; Prng g(1000 + i); g.fill(p.data(), p.size()); p[31] = static_cast<std::uint8_t>(i); return p; }
ChunkId chunk_id(int i) { ChunkId c{}; Prng g(5000 + i); g.fill(c.data(), c.size()); return c; }

int peer_index(const PeerId& p) { return p[31]; }
}  // namespace

void run_case(Ctx& c) {
    vclock::Frozen frozen(c.tape.header_seed());
    PeerId self{};
    Prng(c.tape.h32(0)).fill(self.data(), self.size());
    self[31] = 0xEE;
    KademliaTable table(self);
    Model model;
    std::map<std::pair<int, int>, bool> withdrawn_since;  // (chunk, peer) withdrawn and not yet re-announced
    auto now = [] { return std::chrono::steady_clock::now(); };
    const char* last_op = "start";
    const unsigned mode = c.tape.h(1);
    unsigned add_counter = 0;
    int last_peer = -1, last_chunk = 0;
    c.note("mode=%u", mode & 3);

    auto live_set = [&](int ch) {
        std::map<int, Entry> out;
        auto it = model.find(ch);
        if (it == model.end()) return out;
        for (auto& [p, e] : it->second) if (now() < e.expiry) out[p] = e;
        return out;
    };
    auto compare = [&](int ch, const std::vector<PeerContact>& got, const char* via, bool filter_live) {
        auto want = live_set(ch);
        std::map<int, Entry> have;
        for (auto& pc : got) {
            if (filter_live && !(now() < pc.expires_at)) continue;
            int pi = peer_index(pc.id);
            if (pc.id != peer_id(pi)) c.fail("C06:unknown-provider-returned", std::string(via) + " returned an id never announced");
            if (have.count(pi)) c.fail("C06:duplicate-provider", std::string(via) + " lists peer " + std::to_string(pi) + " twice for chunk " + std::to_string(ch));
            have[pi] = Entry{pc.address, pc.expires_at};
        }
        for (auto& [p, e] : want) {
            auto it = have.find(p);
            if (it == have.end()) {
                // classify: was the loss caused by a sweep? (the signature used for the known defect)
                c.fail(std::string("C06:live-provider-missing-after-") + last_op,
                       std::string(via) + ": live provider p" + std::to_string(p) + " of chunk c" + std::to_string(ch) + " (expires in " +
                           std::to_string(std::chrono::duration_cast<std::chrono::nanoseconds>(e.expiry - now()).count()) + " ns) is not returned");
            }
            if (it->second.address != e.address) c.fail("C06:stale-address", std::string(via) + ": provider p" + std::to_string(p) + " has address '" + it->second.address + "' want '" + e.address + "'");
            if (it->second.expiry != e.expiry) c.fail("C06:wrong-expiry", std::string(via) + ": provider p" + std::to_string(p) + " expiry differs from its most recent announcement");
        }
        for (auto& [p, e] : have) {
            if (!want.count(p)) {
                bool wd = withdrawn_since.count({ch, p}) && withdrawn_since[{ch, p}];
                c.fail(wd ? "C06:withdrawn-provider-returned" : "C06:expired-or-dropped-provider-returned",
                       std::string(via) + ": p" + std::to_string(p) + " returned for chunk c" + std::to_string(ch) + " but it is not a live provider in the model");
            }
        }
    };
    auto check_all = [&](const char* via) {
        auto snap = table.snapshot_locators();
        std::map<std::string, const ChunkLocator*> by;
        for (auto& l : snap) by[chunk_id_to_string(l.id)] = &l;
        for (int ch = 0; ch < 3; ++ch) {
            auto it = by.find(chunk_id_to_string(chunk_id(ch)));
            static const std::vector<PeerContact> none;
            compare(ch, it == by.end() ? none : it->second->holders, via, true);
        }
    };

    auto do_add = [&](int ch, int p, int ttl, int av) {
        std::string addr = "10.0." + std::to_string(p) + "." + std::to_string(av) + ":4000";
        c.note("|add(c%d,p%d,ttl=%ds,a%d)", ch, p, ttl, av);
        last_op = "add";
        PeerContact pc{peer_id(p), addr, {}};
        auto& m = model[ch];
        bool re = withdrawn_since.count({ch, p}) && withdrawn_since[{ch, p}];
        if (re) c.nt("withdraw_then_reannounce");
        withdrawn_since[{ch, p}] = false;
        m[p] = Entry{addr, now() + std::chrono::seconds(ttl)};
        table.add_contact(chunk_id(ch), pc, std::chrono::seconds(ttl));
        // purge expired from the model (they can never come back), then apply the 20-cap by observation
        for (auto it = m.begin(); it != m.end();) it = (now() < it->second.expiry) ? std::next(it) : m.erase(it);
        if (m.size() > 20) {
            c.nt("provider_21st");
            std::size_t must_drop = m.size() - 20;
            std::map<int, bool> kept;
            for (auto& l : table.snapshot_locators()) {
                if (l.id != chunk_id(ch)) continue;
                for (auto& h : l.holders) if (now() < h.expires_at) kept[peer_index(h.id)] = true;
            }
            std::vector<int> dropped;
            TP min_kept = TP::max();
            for (auto& [pp, e] : m) {
                if (kept.count(pp)) min_kept = std::min(min_kept, e.expiry);
                else dropped.push_back(pp);
            }
            if (dropped.size() != must_drop)
                c.fail("C06:cap-20-wrong-count", "after the add the table keeps " + std::to_string(m.size() - dropped.size()) + " live providers of c" + std::to_string(ch) + ", expected 20");
            for (int d : dropped) {
                if (m[d].expiry > min_kept) c.fail("C06:cap-20-dropped-later-expiring", "dropped p" + std::to_string(d) + " although a kept provider expires earlier");
                m.erase(d);
            }
        }
    };

    std::size_t n = c.tape.nrec();
    for (std::size_t i = 0; i < n; ++i) {
        Rec r = c.tape.r(i);
        // header byte 1 biases the history: bit0 = everything on chunk 0, bit1 = adds walk through the peers in order
        // (so a 21st live provider is reached), argument bit selects "the peer touched last" (withdraw -> re-announce)
        int ch = (mode & 1) ? 0 : r.a(0) % 3;
        int p = r.a(1) % 30;
        bool is_add = (r.op() % 7 == 0 || r.op() % 7 == 5);
        if (is_add && (mode & 2) && (r.a(4) & 3) != 0) p = static_cast<int>(add_counter++ % 30);
        if ((r.a(4) & 0x0C) == 0x0C && last_peer >= 0) { p = last_peer; ch = last_chunk; }
        if (is_add || r.op() % 7 == 1) { last_peer = p; last_chunk = ch; }
        switch (r.op() % 7) {
            case 0:
            case 5: {  // add (weighted x2)
                do_add(ch, p, kTtls[r.a(2) % 8], r.a(3) % 3);
                break;
            }
            case 6: {  // burst of announcements from consecutive peers with mixed long TTLs
                int k = 1 + r.a(2) % 24;
                Prng g(r.seed());
                static const int kLong[] = {30, 300, 3600, 31, 30, 299};
                for (int j = 0; j < k; ++j) {
                    do_add(ch, (p + j) % 30, kLong[g.below(6)], static_cast<int>(g.below(3)));
                }
                break;
            }
            case 1: {
                c.note("|wdr(c%d,p%d)", ch, p);
                last_op = "withdraw";
                table.withdraw_contact(chunk_id(ch), peer_id(p));
                if (model[ch].erase(p)) withdrawn_since[{ch, p}] = true;
                break;
            }
            case 2: {
                c.note("|find(c%d)", ch);
                last_op = "find";
                auto got = table.find_providers(chunk_id(ch));
                compare(ch, got, "find_providers", false);
                break;
            }
            case 3: {
                c.note("|sweep");
                last_op = "sweep";
                for (int k = 0; k < 3; ++k) {
                    auto ls = live_set(k);
                    if (ls.size() >= 2) {
                        TP first = ls.begin()->second.expiry;
                        for (auto& [pp, e] : ls) if (e.expiry != first) { c.nt("sweep_with_mixed_expiries"); break; }
                    }
                }
                table.sweep_expired();
                break;
            }
            case 4: {
                // advance
                TP next = TP::max();
                for (auto& [k, m] : model) for (auto& [pp, e] : m) if (e.expiry > now()) next = std::min(next, e.expiry);
                vclock::ns d{0};
                unsigned kind = r.a(2) % 5;
                if (next == TP::max() && kind < 3) kind = 3;
                switch (kind) {
                    case 0: d = next - now(); break;
                    case 1: d = next - now() - vclock::ns(1); break;
                    case 2: d = next - now() + vclock::ns(1); break;
                    case 3: d = std::chrono::milliseconds(1 + r.a16(3) % 3000); break;
                    case 4: d = std::chrono::seconds(1 + r.a(3) % 100); break;
                }
                if (d.count() < 0) d = vclock::ns(0);
                c.note("|adv(%lldns,k%u)", static_cast<long long>(d.count()), kind);
                last_op = "advance";
                vclock::advance(d);
                if (kind <= 2) c.label("advance_to_expiry_edge");
                break;
            }
        }
        check_all("snapshot_locators(unexpired holders)");
    }
    // final: every chunk through the public lookup
    c.note("|final");
    for (int ch = 0; ch < 3; ++ch) compare(ch, table.find_providers(chunk_id(ch)), "find_providers", false);
}
}  // namespace verif
