// C18 — manifest decoding is total and free of undefined behaviour.
// Oracle: decode_manifest(s) returns or throws std::invalid_argument; nothing else (other exception types,
// sanitizer reports, hangs).  Inputs: structured (valid wire payload built by the independent encoder in
// manifest_gen.hpp, then corrupted before / after base64), raw payload bytes, raw strings.
#define VERIF_FUZZ_TARGET 1
#include "verif.hpp"
#include "manifest_gen.hpp"

#include <cerrno>
#include <csignal>
#include <exception>
#include <typeinfo>
#include <fcntl.h>
#include <sys/resource.h>
#include <sys/wait.h>
#include <unistd.h>

extern "C" void __sanitizer_set_death_callback(void (*callback)(void));

namespace verif {
const PropertyInfo kInfo = {
    "C18", 17, 10, 10,
    "tape -> string. mode structured: a small valid manifest (0..3 shards / metadata / discovery / fallback entries, digest on/off) is "
    "written by the harness's own encoder with version byte from {4,3,2,1,0,5,255,any} and a 64-bit expiry field (modern | any 64-bit value | "
    "boundary table around +-9223372036 s, INT64_MIN/MAX, 2^32, 2^63 | any in-range value); each of up to three records then corrupts the binary payload "
    "(set byte, overwrite the 8 expiry bytes, set a count byte to 0xFF/any, set an 8/16-bit length field to 0xFF(FF)/any, truncate at any "
    "offset or at a field boundary, cut the tail, append bytes, flip a bit) or the text (invalid character, '=' in the middle, length not "
    "a multiple of 4, damaged eph:// prefix). mode raw-payload: the records are the payload bytes (base64-wrapped by the harness; optionally the version byte forced to 1..4). "
    "mode raw-string: the records are the string itself (optionally prefixed with eph:// and/or mapped onto the base64 alphabet). "
    "Oracle: returns a manifest or throws std::invalid_argument; any other exception, sanitizer report or hang is a violation; an accepted "
    "manifest re-encodes and decodes to itself. Inputs whose expiry field exceeds +-9223372036 s are tried in a forked child (the first 24 per direction "
    "and process; in-process once those survived) so that a sanitizer abort becomes a reported failure (C18:expiry-overflow) instead of "
    "ending the run. "
    "Non-trivial: the input reached the binary parser (prefix and base64 valid, >= 88 payload bytes). Distinct = hash of the decoded case."};

namespace {
using mgen::Bytes;
using mgen::Model;
namespace proto = ephemeralnet::protocol;

const char* kOverflowSig = "C18:expiry-overflow";

constexpr std::uint64_t u(std::int64_t v) { return static_cast<std::uint64_t>(v); }
const std::uint64_t kExpiryTable[] = {
    0, 1, 1'700'000'000ull, 9'223'372'036ull, 9'223'372'037ull, u(-9'223'372'036LL), u(-9'223'372'037LL),
    0x7FFFFFFFFFFFFFFFull, 0x8000000000000000ull, 0xFFFFFFFFFFFFFFFFull, 0x100000000ull, 0x200000000ull, 0x4000000000000000ull,
    u(-1'000'000'000LL), 0x8000000000000001ull, 18'446'744'073ull, 4'294'967'295ull};
constexpr std::size_t kExpiryTableN = sizeof kExpiryTable / sizeof kExpiryTable[0];

bool in_range(std::uint64_t wire) {
    auto s = static_cast<std::int64_t>(wire);
    return s >= -mgen::kMaxSafeSeconds && s <= mgen::kMaxSafeSeconds;
}
// map any 64-bit value into the range the tick counter can hold
std::uint64_t into_range(std::uint64_t wire) {
    std::uint64_t span = 2 * static_cast<std::uint64_t>(mgen::kMaxSafeSeconds) + 1;
    return u(static_cast<std::int64_t>(wire % span) - mgen::kMaxSafeSeconds);
}
void put_expiry(Bytes& p, std::uint64_t wire) {
    if (p.size() < mgen::kExpiryOffset + 8) return;
    for (int i = 0; i < 8; ++i) p[mgen::kExpiryOffset + i] = static_cast<std::uint8_t>(wire >> (8 * (7 - i)));
}
std::uint64_t get_expiry(const Bytes& p) {
    std::uint64_t v = 0;
    for (int i = 0; i < 8; ++i) v = (v << 8) | p[mgen::kExpiryOffset + i];
    return v;
}

// ---- run decode_manifest in a forked child (only for inputs that may overflow the expiry conversion) ---------
struct ChildOutcome {
    enum Kind { Returned, InvalidArgument, OtherException, Died, ForkFailed } kind = ForkFailed;
    std::string detail;
};

ChildOutcome decode_in_child_once(const std::string& s);
// (a child killed by the CPU limit is re-tried twice: a decoder that hangs does so every time, an accident of the forked
//  sanitizer runtime does not)
ChildOutcome decode_in_child(const std::string& s) {
    ChildOutcome o = decode_in_child_once(s);
    for (int attempt = 0; attempt < 2 && o.kind == ChildOutcome::Died && (o.detail.rfind("killed by signal 24", 0) == 0 || o.detail.rfind("killed by signal 9", 0) == 0); ++attempt)
        o = decode_in_child_once(s);
    return o;
}
ChildOutcome decode_in_child_once(const std::string& s) {
    ChildOutcome out;
    int fds[2];
    if (::pipe(fds) != 0) return out;
    ::fflush(nullptr);
    pid_t pid = ::fork();
    if (pid < 0) { ::close(fds[0]); ::close(fds[1]); return out; }
    if (pid == 0) {
        ::close(fds[0]);
        ::dup2(fds[1], 2);  // sanitizer report -> pipe
        __sanitizer_set_death_callback(nullptr);  // no crash.tape / fuzzer artifact from the child
        ::signal(SIGABRT, SIG_DFL);
        ::signal(SIGALRM, SIG_DFL);
        { struct rlimit rl { 10, 12 }; ::setrlimit(RLIMIT_CPU, &rl); }   // CPU time, not wall-clock time, bounds the child
        ::alarm(900);
        int code = 0;
        try {
            (void)proto::decode_manifest(s);
        } catch (const std::invalid_argument&) {
            code = 40;
        } catch (const std::exception& e) {
            std::string m = std::string("EXC ") + typeid(e).name() + ": " + e.what() + "\n";
            (void)!::write(fds[1], m.data(), m.size());
            code = 41;
        } catch (...) {
            (void)!::write(fds[1], "EXC unknown\n", 12);
            code = 41;
        }
        ::_exit(code);
    }
    ::close(fds[1]);
    char buf[1024];
    for (;;) {
        ssize_t n = ::read(fds[0], buf, sizeof buf);
        if (n > 0) { if (out.detail.size() < 6000) out.detail.append(buf, static_cast<std::size_t>(n)); continue; }
        if (n < 0 && errno == EINTR) continue;
        break;
    }
    ::close(fds[0]);
    int st = 0;
    while (::waitpid(pid, &st, 0) < 0 && errno == EINTR) {}
    if (WIFEXITED(st) && WEXITSTATUS(st) == 0) out.kind = ChildOutcome::Returned;
    else if (WIFEXITED(st) && WEXITSTATUS(st) == 40) out.kind = ChildOutcome::InvalidArgument;
    else if (WIFEXITED(st) && WEXITSTATUS(st) == 41) out.kind = ChildOutcome::OtherException;
    else {
        out.kind = ChildOutcome::Died;
        out.detail = (WIFSIGNALED(st) ? "killed by signal " + std::to_string(WTERMSIG(st)) : "exit status " + std::to_string(WEXITSTATUS(st))) +
                     "; " + out.detail;
    }
    return out;
}

std::string first_report_line(const std::string& detail) {
    auto p = detail.find("runtime error");
    if (p == std::string::npos) p = detail.find("ERROR:");
    if (p == std::string::npos) return detail.substr(0, 300);
    auto b = detail.rfind('\n', p);
    b = (b == std::string::npos) ? 0 : b + 1;
    auto e = detail.find('\n', p);
    std::string line = detail.substr(b, (e == std::string::npos ? detail.size() : e) - b);
    return b == 0 ? line : detail.substr(0, detail.find(';')) + "; " + line;
}

std::string printable(const std::string& s, std::size_t max) {
    std::string o;
    for (std::size_t i = 0; i < s.size() && i < max; ++i) {
        unsigned char ch = static_cast<unsigned char>(s[i]);
        if (ch >= 0x20 && ch < 0x7F && ch != '\\') o.push_back(static_cast<char>(ch));
        else { char b[8]; std::snprintf(b, sizeof b, "\\x%02x", ch); o += b; }
    }
    if (s.size() > max) o += "..(" + std::to_string(s.size()) + ")";
    return o;
}

std::uint8_t version_from(std::uint8_t sel, std::uint8_t any) {
    static const std::uint8_t t[] = {4, 4, 4, 4, 4, 3, 3, 2, 2, 1, 1, 0, 5, 255};
    unsigned k = sel % 15;
    return k < 14 ? t[k] : any;
}

std::uint64_t expiry_from(unsigned mode, std::uint64_t raw) {
    switch (mode % 4) {
        case 0: return 1'700'000'000ull + raw % 1'000'000'000ull;
        case 1: return raw;
        case 2: return kExpiryTable[raw % kExpiryTableN];
        default: return into_range(raw);
    }
}

// builds the string for the structured mode; labels what was done
std::string build_structured(Ctx& c) {
    const Tape& t = c.tape;
    Prng g(t.h32(4) ^ 0xC18u);
    std::uint8_t counts = t.h(2);
    Model m = mgen::small_model(g, counts & 3, (counts >> 2) & 3, (counts >> 4) & 3, (counts >> 6) & 3, t.h(3) & 1);
    std::uint8_t version = version_from(t.h(1), t.h(3));
    std::uint64_t raw = 0;
    for (int i = 0; i < 8; ++i) raw |= static_cast<std::uint64_t>(t.h(9 + i)) << (8 * i);
    std::uint64_t expiry = expiry_from(t.h(8), raw);
    std::vector<mgen::Mark> marks;
    Bytes p = mgen::encode_payload(m, version, expiry, &marks);
    c.note("structured v=%u shards=%u meta=%u disc=%u fb=%u digest=%u expiry=%016llx len=%zu", version, counts & 3, (counts >> 2) & 3,
           (counts >> 4) & 3, (counts >> 6) & 3, t.h(3) & 1, static_cast<unsigned long long>(expiry), p.size());

    auto marks_of = [&](std::initializer_list<mgen::MarkKind> kinds) {
        std::vector<mgen::Mark> v;
        for (auto& mk : marks)
            for (auto k : kinds)
                if (mk.kind == k) v.push_back(mk);
        return v;
    };
    const auto count_marks = marks_of({mgen::kMarkCount});
    const auto len_marks = marks_of({mgen::kMarkLen8, mgen::kMarkLen16});

    // pass 1: payload corruptions
    // at most three corruptions per case (header byte 3), so that a good share of inputs stays nearly valid
    std::size_t nrec = std::min<std::size_t>(t.nrec(), (t.h(3) >> 1) & 3);
    c.note("ops=%zu", nrec);
    for (std::size_t i = 0; i < nrec; ++i) {
        Rec r = t.r(i);
        unsigned op = r.op() % 12;
        if (op >= 8) continue;
        switch (op) {
            case 0:
                if (p.empty()) break;
                p[r.a16(0) % p.size()] = r.a(2);
                c.note("set[%zu]=%02x", r.a16(0) % p.size(), r.a(2));
                c.label("op_set_byte");
                break;
            case 1: {
                std::uint64_t v = 0;
                for (int k = 0; k < 8; ++k) v = (v << 8) | r.a(1 + k);
                if (r.a(0) & 0x80) v = kExpiryTable[(r.a(0) & 0x7F) % kExpiryTableN];
                put_expiry(p, v);
                c.note("expiry:=%016llx", static_cast<unsigned long long>(v));
                c.label("op_expiry");
                break;
            }
            case 2: {
                if (count_marks.empty()) break;
                auto mk = count_marks[r.a(0) % count_marks.size()];
                if (mk.off >= p.size()) break;
                p[mk.off] = (r.a(1) & 1) ? r.a(2) : 0xFF;
                c.note("count@%zu=%02x", mk.off, p[mk.off]);
                c.label(p[mk.off] == 0xFF ? "op_count_ff" : "op_count_any");
                break;
            }
            case 3: {
                if (len_marks.empty()) break;
                auto mk = len_marks[r.a(0) % len_marks.size()];
                std::size_t w = mk.kind == mgen::kMarkLen8 ? 1 : 2;
                if (mk.off + w > p.size()) break;
                std::uint32_t v = (r.a(1) & 1) ? r.a16(2) : 0xFFFF;
                if ((r.a(1) & 2) && w == 2) v = (r.a(1) & 1) ? (r.a(2) % 64) : 0x00FF;  // small-but-wrong 16-bit lengths
                if (w == 1) p[mk.off] = static_cast<std::uint8_t>(v);
                else { p[mk.off] = static_cast<std::uint8_t>(v >> 8); p[mk.off + 1] = static_cast<std::uint8_t>(v); }
                c.note("len%zu@%zu=%x", w * 8, mk.off, v & (w == 1 ? 0xFFu : 0xFFFFu));
                c.label("op_length");
                break;
            }
            case 4: {
                std::size_t at;
                if ((r.a(2) & 1) && !marks.empty()) {
                    at = marks[r.a16(0) % marks.size()].off + ((r.a(2) >> 1) & 3);
                    c.label("op_truncate_at_field");
                } else {
                    at = r.a16(0) % (p.size() + 1);
                    c.label("op_truncate");
                }
                if (at < p.size()) p.resize(at);
                c.note("trunc@%zu", at);
                break;
            }
            case 5: {
                std::size_t k = r.a(0) % 40;
                p.resize(p.size() > k ? p.size() - k : 0);
                c.note("cut%zu", k);
                c.label("op_truncate");
                break;
            }
            case 6: {
                std::size_t k = r.a(0) % 16;
                for (std::size_t j = 0; j < k; ++j) p.push_back(r.a(1 + j % 8) ^ static_cast<std::uint8_t>(j * 37));
                c.note("append%zu", k);
                c.label("op_append");
                break;
            }
            default:
                if (p.empty()) break;
                p[r.a16(0) % p.size()] ^= static_cast<std::uint8_t>(1u << (r.a(2) % 8));
                c.note("flip[%zu].%u", r.a16(0) % p.size(), r.a(2) % 8);
                c.label("op_bitflip");
                break;
        }
    }

    // keep the search going behind the known finding: pull the expiry field back into range
    if (p.size() >= mgen::kFixedHead && !in_range(get_expiry(p)) && c.is_known(kOverflowSig)) {
        c.count_excluded(kOverflowSig);
        put_expiry(p, into_range(get_expiry(p)));
        c.note("expiry-clamped");
    }

    std::string prefix = "eph://";
    std::string text = mgen::b64_encode(p);

    // pass 2: text corruptions
    for (std::size_t i = 0; i < nrec; ++i) {
        Rec r = t.r(i);
        unsigned op = r.op() % 12;
        if (op < 8) continue;
        switch (op) {
            case 8:
                if (text.empty()) break;
                text[r.a16(0) % text.size()] = static_cast<char>(r.a(2));
                c.note("chr[%zu]=%02x", r.a16(0) % text.size(), r.a(2));
                c.label("op_text_char");
                break;
            case 9:
                if (text.empty()) break;
                text[r.a16(0) % text.size()] = '=';
                c.note("pad[%zu]", r.a16(0) % text.size());
                c.label("op_text_pad");
                break;
            case 10: {
                std::size_t k = r.a(0) % 8;
                if (k < 4) text.resize(text.size() > k ? text.size() - k : 0);
                else text.append(k - 3, mgen::b64_alphabet()[r.a(1) % 64]);
                c.note("textlen%+d", k < 4 ? -static_cast<int>(k) : static_cast<int>(k - 3));
                c.label("op_text_length");
                break;
            }
            default: {
                static const char* alts[] = {"eph:/", "EPH://", "", "eph://eph://", " eph://", "eph:///", "http://", "eph:\\\\"};
                prefix = alts[r.a(0) % 8];
                c.note("prefix='%s'", prefix.c_str());
                c.label("op_prefix");
                break;
            }
        }
    }
    return prefix + text;
}

std::string build_raw(Ctx& c, bool payload_mode) {
    const Tape& t = c.tape;
    Bytes recs;
    if (t.bytes.size() > t.header) recs.assign(t.bytes.begin() + static_cast<std::ptrdiff_t>(t.header), t.bytes.end());
    if (payload_mode) {
        c.label("raw_payload");
        if ((t.h(1) & 1) && !recs.empty()) recs[0] = static_cast<std::uint8_t>(1 + recs[0] % 4);  // supported version byte
        if (recs.size() >= mgen::kFixedHead && !in_range(get_expiry(recs)) && c.is_known(kOverflowSig)) {
            c.count_excluded(kOverflowSig);
            put_expiry(recs, into_range(get_expiry(recs)));
        }
        c.note("raw-payload %s", hex(recs, 100).c_str());
        return "eph://" + mgen::b64_encode(recs);
    }
    c.label("raw_string");
    std::uint8_t f = t.h(1);
    std::string s;
    if (f & 1) s = "eph://";
    if (f & 2) {
        for (auto b : recs) s.push_back(b == 0xFF ? '=' : mgen::b64_alphabet()[b % 64]);
    } else {
        s.append(recs.begin(), recs.end());
    }
    if (c.is_known(kOverflowSig) && s.rfind("eph://", 0) == 0) {
        Bytes p;
        if (mgen::b64_decode_permissive(s.substr(6), p) && p.size() >= mgen::kFixedHead && !in_range(get_expiry(p))) {
            c.count_excluded(kOverflowSig);
            put_expiry(p, into_range(get_expiry(p)));
            s = "eph://" + mgen::b64_encode(p);
        }
    }
    c.note("raw-string f=%u '%s'", f & 3, printable(s, 160).c_str());
    return s;
}
}  // namespace

void run_case(Ctx& c) {
    const Tape& t = c.tape;
    unsigned mode = t.h(0) % 16;  // 1: raw payload, 2: raw string, otherwise structured
    std::string s = (mode == 1) ? build_raw(c, true) : (mode == 2) ? build_raw(c, false) : build_structured(c);
    if (mode != 1 && mode != 2) c.label("structured");

    // ---- what do we expect to be reached?  (prediction for routing and labels only)
    Bytes payload;
    bool prefix_ok = s.rfind("eph://", 0) == 0;
    bool b64_ok = prefix_ok && mgen::b64_decode_permissive(s.substr(6), payload);
    bool reaches_parser = b64_ok && payload.size() >= mgen::kFixedHead;
    mgen::Parsed ref;
    if (reaches_parser) {
        ref = mgen::decode_payload(payload);
        c.nt("reached_parser");
        switch (ref.status) {
            case mgen::Parsed::Ok: c.label("ref_accepts"); break;
            case mgen::Parsed::BadVersion: c.label("ref_bad_version"); break;
            case mgen::Parsed::Truncated: c.label("ref_truncated"); break;
            default: break;
        }
        if (ref.status != mgen::Parsed::BadVersion) {
            switch (ref.version) {
                case 1: c.label("v1"); break;
                case 2: c.label("v2"); break;
                case 3: c.label("v3"); break;
                default: c.label("v4"); break;
            }
        }
    } else if (!prefix_ok) c.label("prefix_rejected");
    else if (!b64_ok) c.label("base64_rejected");
    else c.label("payload_too_small");

    // any input with >= 88 payload bytes and an out-of-range expiry field may hit the seconds -> ticks overflow
    bool risky = reaches_parser && !in_range(get_expiry(payload));
    if (risky) {
        c.label("expiry_out_of_range");
        c.note("expiry-field=%016llx", static_cast<unsigned long long>(get_expiry(payload)));
        if (c.is_known(kOverflowSig)) c.fail(kOverflowSig, "excluded");  // only reachable when a text corruption re-created the shape
        // A fork of a sanitized process costs tens of milliseconds, so only the first kProbe inputs of each
        // overflow direction are tried in a child; once that many have survived (the conversion is evidently
        // guarded) later ones run in-process.  Should one of those abort after all, the saved crash tape is
        // replayed in a fresh process, where it takes the child route again and reports the named signature.
        static unsigned survived[2] = {0, 0};
        constexpr unsigned kProbe = 24;
        unsigned dir = static_cast<std::int64_t>(get_expiry(payload)) < 0 ? 1 : 0;
        ChildOutcome co;
        if (survived[dir] >= kProbe) {
            co.kind = ChildOutcome::Returned;
            c.label("expiry_out_of_range_inprocess");
        } else {
            co = decode_in_child(s);
            if (co.kind == ChildOutcome::Returned || co.kind == ChildOutcome::InvalidArgument) ++survived[dir];
        }
        switch (co.kind) {
            case ChildOutcome::Died:
                c.fail(kOverflowSig, "decode_manifest died on an expiry field of " + std::to_string(static_cast<std::int64_t>(get_expiry(payload))) +
                                         " s (" + first_report_line(co.detail) + ")");
            case ChildOutcome::OtherException:
                c.fail("C18:wrong-exception-type", "decode_manifest threw something other than std::invalid_argument: " + co.detail.substr(0, 300));
            case ChildOutcome::ForkFailed:
                c.label("fork_failed");
                return;  // inconclusive: do not run a possibly aborting input in-process
            default:
                break;  // survived in the child: safe to repeat in-process below
        }
        c.label("expiry_out_of_range_survived");
    }

    // ---- the call under test
    proto::Manifest got;
    bool accepted = false;
    try {
        got = proto::decode_manifest(s);
        accepted = true;
    } catch (const std::invalid_argument&) {
        c.label("rejected_invalid_argument");
    } catch (const std::exception& e) {
        c.fail("C18:wrong-exception-type", std::string("decode_manifest threw ") + typeid(e).name() + ": " + e.what());
    } catch (...) {
        c.fail("C18:wrong-exception-type", "decode_manifest threw a non-standard exception");
    }
    if (!accepted) {
        if (reaches_parser && ref.status == mgen::Parsed::Ok && !risky) c.label("ref_verdict_differs");
        return;
    }
    c.label("accepted");

    // An accepted manifest whose wire expiry cannot be represented in clock ticks: no exact value exists, so the result is
    // either saturated (fine: no UB needed for that) or the seconds -> ticks multiplication wrapped.  The optimiser can
    // prove such an overflow "impossible" from earlier UB (e.g. abs(INT64_MIN)) and drop UBSan's check, so the value
    // itself is the witness.
    if (risky) {
        const std::int64_t secs = static_cast<std::int64_t>(get_expiry(payload));
        const std::int64_t ns = got.expires_at.time_since_epoch().count();
        const std::int64_t edge = (mgen::kMaxSafeSeconds - 1) * mgen::kNsPerSec;
        const bool saturated = secs > 0 ? ns >= edge : ns <= -edge;
        if (!saturated)
            c.fail(kOverflowSig, "decode_manifest accepted an expiry field of " + std::to_string(secs) + " s and returned expires_at = " + std::to_string(ns) +
                                     " ticks: the seconds -> ticks conversion overflowed (signed overflow; no saturation, no invalid_argument)");
        c.label("expiry_out_of_range_accepted_saturated");
    }

    // evidence only: the independent decoder's view of the same payload
    if (reaches_parser && ref.status == mgen::Parsed::Ok && ref.expiry_in_range())
        c.label(mgen::diff(got, ref.m, true).empty() ? "ref_decoder_agrees" : "ref_decoder_differs");
    else if (!risky)
        c.label("ref_verdict_differs");

    // ---- an accepted manifest re-encodes and decodes to itself (C17 applied to the decoder's output)
    std::string again;
    try {
        again = proto::encode_manifest(got);
    } catch (const std::exception&) {
        c.label("reencode_refused");  // not claimed by either property
        return;
    }
    proto::Manifest second;
    try {
        second = proto::decode_manifest(again);
    } catch (const std::invalid_argument& e) {
        c.fail("C18:accepted-manifest-not-stable", std::string("re-encoding of an accepted manifest is rejected: ") + e.what());
    } catch (const std::exception& e) {
        c.fail("C18:wrong-exception-type", std::string("decode_manifest threw ") + typeid(e).name() + ": " + e.what());
    }
    std::string d = mgen::diff(second, mgen::from_repo(got), true);
    if (!d.empty()) c.fail("C18:accepted-manifest-not-stable", "decode(encode(decode(s))) differs from decode(s): " + d);
}

std::vector<std::vector<std::uint8_t>> seed_tapes() {
    std::vector<std::vector<std::uint8_t>> out;
    Prng g(18);
    auto header = [](std::uint8_t mode, std::uint8_t h1, std::uint8_t counts, std::uint8_t flags) {
        std::vector<std::uint8_t> h(kInfo.header, 0);
        h[0] = mode; h[1] = h1; h[2] = counts; h[3] = flags; h[4] = 0x5E; h[5] = 0xED;
        return h;
    };
    // structured, all versions, no corruption / one record of each kind
    for (std::uint8_t vsel : {0, 5, 7, 9, 11, 12})
        for (std::uint8_t counts : {0x00, 0x55, 0xFF}) out.push_back(header(0, vsel, counts, 1));
    for (std::uint8_t op = 0; op < 12; ++op) {
        auto t = header(0, 0, 0x55, 3);  // flags: digest on, one corruption
        std::vector<std::uint8_t> r(kInfo.rec, 0);
        r[0] = op; r[1] = 0x81; r[3] = 7;
        t.insert(t.end(), r.begin(), r.end());
        out.push_back(t);
    }
    // raw payload / raw string holding valid payloads of every version
    for (std::uint8_t v = 1; v <= 4; ++v) {
        Model m = mgen::small_model(g, 1, 1, 1, 1, v & 1);
        Bytes p = mgen::encode_payload(m, v, 1'800'000'000ull);
        auto t = header(1, 0, 0, 0);
        t.insert(t.end(), p.begin(), p.end());
        out.push_back(t);
        std::string uri = "eph://" + mgen::b64_encode(p);
        auto s = header(2, 0, 0, 0);
        s.insert(s.end(), uri.begin(), uri.end());
        out.push_back(s);
    }
    return out;
}

std::string run_once(Ctx& c) {
    // the independent encoder's small manifests must be accepted and reproduced by the code under test: this is
    // what makes "reached the parser" / "accepted" in the histogram meaningful
    Prng g(1818);
    for (unsigned i = 0; i < 32; ++i) {
        Model m = mgen::small_model(g, i % 4, (i / 4) % 4, i % 3, (i / 2) % 4, i & 1);
        m.expiry_ns = static_cast<std::int64_t>(1'700'000'000 + i) * mgen::kNsPerSec;
        proto::Manifest d;
        try {
            d = proto::decode_manifest(mgen::encode_uri(m));
        } catch (const std::exception& e) {
            c.fail("C18:harness-error", std::string("a valid URI from the independent encoder is rejected: ") + e.what());
        }
        std::string df = mgen::diff(d, m, false);
        if (!df.empty()) c.fail("C18:harness-error", "independent encoder and decode_manifest disagree: " + df);
    }
    return "32 URIs from the independent encoder accepted and reproduced by decode_manifest";
}
}  // namespace verif
