// C27 — a configured control token gates STORE, FETCH and STOP
// In-process Node + daemon::ControlServer on a loopback port, raw TCP client written in the harness.
// Oracle: string equality between the TOKEN value sent and the configured token (computed here), plus a
// before/after snapshot of the node state, the scratch directory, the stop callback and the transport listener.
#define VERIF_FUZZ_TARGET 1
#include "ctl_common.hpp"
#include "ephemeralnet/bootstrap/TokenChallenge.hpp"

namespace verif {
const PropertyInfo kInfo = {
    "C27", 8, 8, 16,
    "tape -> control token of 1..40 printable bytes (length from {1,2,3,8,16,32,39,40} or uniform), node preloaded with 1..2 chunks, transport listener "
    "started in half of the cases; one control request per record: STORE (optional TTL / PATH) | FETCH STREAM:client of a local chunk | FETCH OUT:<scratch>/sub/file "
    "of a local chunk | STOP | FETCH stream / OUT of a manifest published by another node (not known to this one), with the TOKEN header "
    "{absent, exact, random same length, proper prefix (incl. empty), exact+extra, case-flipped, empty, proper suffix, extra+exact, one bit flipped at any "
    "position, exact value under another header name (X-TOKEN / TOKENS / AUTH) with TOKEN absent}; header lines (COMMAND, TOKEN, PAYLOAD-LENGTH, others) in a "
    "shuffled order, (FETCH, 1/4) the BOOTSTRAP / DISCOVERY-* headers of a hint-following `eph fetch` with the manifest's token-challenge solution as TOKEN, header names in mixed case and the command word in upper / lower / mixed case. Oracle: the request is authorised iff a TOKEN value was sent and equals the configured token byte for byte. "
    "Not authorised => STATUS:ERROR (with an authentication CODE when the request is otherwise well-formed, names canonical and the target chunk local) and no effect: chunk set, "
    "manifest cache, swarm plans, shard records and pending fetches unchanged, scratch directory empty, stop callback not invoked, transport port still "
    "accepting connections, next PING answered. Authorised (canonical header names) => normal result (chunk stored under sha256(payload); streamed / "
    "written bytes equal the plaintext; stop callback invoked once). Non-trivial: a non-exact token on a request that would otherwise succeed. "
    "Distinct = hash of the decoded case."};

namespace {
using namespace ephemeralnet;
using ctl::Bytes;
const std::int64_t kTokLen[] = {1, 2, 3, 8, 16, 32, 39, 40};

enum Kind { kStore = 0, kFetchStream, kFetchOut, kStop, kForeignStream, kForeignOut, kKinds };
const char* kKindName[] = {"STORE", "FETCH-stream", "FETCH-out", "STOP", "FETCH-foreign-stream", "FETCH-foreign-out"};
const char* kVarName[] = {"absent", "exact", "random", "prefix", "exact+extra", "caseflip", "empty", "suffix", "extra+exact", "bitflip", "other-header", "exact"};

struct Local {
    ChunkId id{};
    Bytes plain;
    std::string uri;
};

struct TokenChoice {
    bool sent = false;        // a TOKEN header is present
    std::string value;        // its value
    std::string other_name;   // non-empty: the exact token travels under this header name instead
};

// extension lengths include the places where a narrowed length comparison wraps (2^8, 2^9, 2^10 and neighbours)
std::size_t ext_len(unsigned arg) {
    static const std::size_t k[] = {1, 2, 3, 1, 2, 3, 16, 255, 256, 257, 512, 1024};
    return k[arg % 12];
}

TokenChoice make_token(const std::string& tok, unsigned variant, unsigned arg, std::uint64_t seed) {
    TokenChoice t;
    Prng g(seed ^ 0x70CEull);
    switch (variant) {
        case 0: break;
        case 1: case 11: t.sent = true; t.value = tok; break;
        case 2: t.sent = true; t.value = ctl::printable(g, tok.size()); break;
        case 3: t.sent = true; t.value = tok.substr(0, arg % tok.size()); break;
        case 4: t.sent = true; t.value = tok + ctl::printable(g, ext_len(arg)); break;
        case 5: {
            t.sent = true;
            t.value = tok;
            for (auto& ch : t.value) {
                if (std::islower(static_cast<unsigned char>(ch))) ch = static_cast<char>(std::toupper(static_cast<unsigned char>(ch)));
                else if (std::isupper(static_cast<unsigned char>(ch))) ch = static_cast<char>(std::tolower(static_cast<unsigned char>(ch)));
            }
            if (t.value == tok) t.value[arg % tok.size()] = static_cast<char>(t.value[arg % tok.size()] == 'x' ? 'y' : 'x');
            break;
        }
        case 6: t.sent = true; t.value = ""; break;
        case 7: t.sent = true; t.value = tok.substr(1 + arg % tok.size()); break;
        case 8: t.sent = true; t.value = ctl::printable(g, ext_len(arg)) + tok; break;
        case 9: t.sent = true; t.value = tok; t.value[arg % tok.size()] = static_cast<char>(t.value[arg % tok.size()] ^ (1 << ((arg / 40) % 3))); break;
        case 10: {
            static const char* names[] = {"X-TOKEN", "TOKENS", "AUTH"};
            t.other_name = names[arg % 3];
            break;
        }
    }
    return t;
}
}  // namespace

void run_case(Ctx& c) {
    vclock::Frozen frozen(c.tape.header_seed());
    vnode::silence_streams();
    const Tape& t = c.tape;

    // ---- configuration
    std::size_t toklen = static_cast<std::size_t>(boundary_int(t.h(0), t.h(0), kTokLen, 1, 40));
    Prng tg(t.h16(1) + 0xC27);
    const std::string token = ctl::printable(tg, toklen);
    const unsigned npre = 1 + (t.h(3) & 1);
    const bool with_transport = (t.h(3) & 2) != 0;
    const std::uint32_t case_seed = t.h32(4);
    c.note("token[%zu]='%s' preload=%u transport=%d", toklen, ctl::shorten(token, 44).c_str(), npre, with_transport);

    Config cfg = ctl::quiet_config(27);
    cfg.control_token = token;
    // the handshake difficulty becomes the token-challenge difficulty of the manifests this node issues
    static const std::uint8_t kHandshakeBits[4] = {0, 4, 8, 6};
    cfg.handshake_pow_difficulty = kHandshakeBits[t.h(6) % 4];
    Node node(vnode::make_id(5, 0x27), cfg);
    if (!node.config().control_token || *node.config().control_token != token) c.fail("C27:harness-error", "configured token did not survive Config sanitisation");

    std::vector<Local> locals;
    std::vector<ChunkId> tracked;
    for (unsigned i = 0; i < npre; ++i) {
        Local l;
        l.plain = Prng(case_seed * 31 + i).bytes(1 + (case_seed >> (8 * i)) % 48);
        l.id = ctl::payload_chunk_id(l.plain);
        auto m = node.store_chunk(l.id, l.plain, std::chrono::seconds(3600));
        l.uri = protocol::encode_manifest(m);
        tracked.push_back(l.id);
        locals.push_back(std::move(l));
    }
    // a manifest this node has never seen, published by another node (one publisher per process: it is only a
    // manifest factory, its state is not observed)
    static Node* publisher = nullptr;
    bool have_foreign = false;
    Local foreign;
    auto need_foreign = [&]() {
        if (have_foreign) return;
        have_foreign = true;
        if (!publisher) publisher = new Node(vnode::make_id(6, 0x28), ctl::quiet_config(99));
        foreign.plain = Prng(case_seed ^ 0xF0F0).bytes(24);
        foreign.id = ctl::payload_chunk_id(foreign.plain);
        foreign.uri = protocol::encode_manifest(publisher->store_chunk(foreign.id, foreign.plain, std::chrono::seconds(3600)));
        tracked.push_back(foreign.id);
    };
    for (std::size_t i = 0; i < t.nrec(); ++i) {
        unsigned k = t.r(i).op() % kKinds;
        if (k == kForeignStream || k == kForeignOut) need_foreign();
    }

    std::uint16_t tport = 0;
    if (with_transport) {
        node.start_transport(0);
        tport = node.transport_port();
        if (tport == 0 || !ctl::port_listening(tport)) c.fail("C27:harness-error", "transport listener did not start");
    }
    vctl::Server server(node);
    if (!server.ok()) c.fail("C27:harness-error", "control server did not start");

    const std::string scratch = ctl::scratch_root("C27");
    ctl::clear_dir(scratch);
    bool stopped = false;  // an authorised STOP happened

    auto ping_ok = [&]() {
        vctl::Request q;
        q.command = "PING";
        q.with_payload_length = false;
        auto r = server.roundtrip(q);
        return r.ok && r.field("STATUS") == "OK";
    };

    for (std::size_t i = 0; i < t.nrec(); ++i) {
        Rec r = t.r(i);
        const unsigned kind = r.op() % kKinds;
        const unsigned variant = r.a(0) % 12;
        const unsigned varg = r.a(1);
        const std::uint64_t order_seed = r.a(2);
        const std::uint64_t name_seed = r.a(3);
        const unsigned p = r.a(4);
        TokenChoice tc = make_token(token, variant, varg, r.seed());
        // What `eph fetch` sends when it follows a control hint of a manifest: BOOTSTRAP / DISCOVERY-* headers and, as
        // TOKEN, the solution of the manifest's token challenge (not the daemon's control token).  A daemon with a control
        // token still has to refuse it.
        const bool bootstrap_style = (r.a(6) & 3) == 3 && (r.op() % kKinds == kFetchStream || r.op() % kKinds == kFetchOut || r.op() % kKinds == kForeignStream || r.op() % kKinds == kForeignOut);
        if (bootstrap_style && !(tc.sent && tc.value == token)) {
            tc.sent = true;
            tc.other_name.clear();
            tc.value = "0";
            try {
                const Local& tg = (r.op() % kKinds == kForeignStream || r.op() % kKinds == kForeignOut) ? foreign : locals[p % locals.size()];
                auto m = protocol::decode_manifest(tg.uri);   // its token_challenge_bits come from the issuing node's handshake difficulty
                protocol::DiscoveryHint hint{};
                hint.scheme = "control";
                hint.transport = "control";
                hint.endpoint = "127.0.0.1:47777";
                if (auto solved = bootstrap::solve_token_challenge(m, hint, m.security.token_challenge_bits)) tc.value = std::to_string(*solved);
            } catch (const std::exception&) {
            }
            if (tc.value == token) tc.value += "0";
            c.label("bootstrap_style_fetch_with_challenge_token");
        }
        const bool authorised = tc.sent && tc.value == token;
        const bool canonical_names = name_seed == 0;
        const bool is_fetch = kind == kFetchStream || kind == kFetchOut || kind == kForeignStream || kind == kForeignOut;
        const Local& target = (kind == kForeignStream || kind == kForeignOut) ? foreign : locals[p % locals.size()];

        // exclusions for listed, unrepaired findings: those commands only with the exact token
        if (!authorised) {
            const char* sig = nullptr;
            if (kind == kStop && c.is_known("C27:stop-unauthenticated")) sig = "C27:stop-unauthenticated";
            else if ((kind == kFetchOut) && c.is_known("C27:fetch-out-unauthenticated")) sig = "C27:fetch-out-unauthenticated";
            if (sig) {
                c.count_excluded(sig);
                c.note("|%s(token=%s) [excluded]", kKindName[kind], kVarName[variant]);
                continue;
            }
        }

        // ---- build the request: header lines in a generated order, names in a generated case
        std::vector<std::pair<std::string, std::string>> lines;
        Bytes payload;
        std::string out_path;
        // the command word itself in upper / lower / mixed case (the server dispatches case-insensitively)
        std::string cmd_word = kind == kStore ? "STORE" : kind == kStop ? "STOP" : "FETCH";
        switch (r.a(5) % 4) {
            case 1: for (auto& ch : cmd_word) ch = static_cast<char>(std::tolower(static_cast<unsigned char>(ch))); c.label("command_word_lower_case"); break;
            case 2: cmd_word = ctl::case_mix(cmd_word, 1 + r.a(5)); c.label("command_word_mixed_case"); break;
            default: break;
        }
        lines.push_back({"COMMAND", cmd_word});
        if (tc.sent) lines.push_back({"TOKEN", tc.value});
        if (!tc.other_name.empty()) lines.push_back({tc.other_name, token});
        if (kind == kStore) {
            payload = Prng(r.seed() ^ 0x5707E).bytes(1 + p % 64);
            if (p & 0x40) lines.push_back({"TTL", std::to_string(60 + p)});
            if (p & 0x80) lines.push_back({"PATH", "dir/file-" + std::to_string(p) + ".bin"});
            lines.push_back({"PAYLOAD-LENGTH", std::to_string(payload.size())});
        } else if (is_fetch) {
            if (bootstrap_style) {
                lines.push_back({"BOOTSTRAP", "1"});
                lines.push_back({"DISCOVERY-ENDPOINT", (r.a(6) & 8) ? "control://127.0.0.1:47777" : "127.0.0.1:47777"});
                lines.push_back({"DISCOVERY-SCHEME", "control"});
                lines.push_back({"DISCOVERY-TRANSPORT", "control"});
                lines.push_back({"DISCOVERY-PRIORITY", std::to_string(r.a(6) % 16)});
                if (r.a(6) & 4) { lines.push_back({"FALLBACK", "1"}); lines.push_back({"DISCOVERY-RESOLVED", "127.0.0.1:47777"}); }
            }
            lines.push_back({"MANIFEST", target.uri});
            if (kind == kFetchStream || kind == kForeignStream) lines.push_back({"STREAM", (p & 1) ? "client" : "CLIENT"});
            else {
                out_path = scratch + "/sub" + std::to_string(i) + "/out.bin";
                lines.push_back({"OUT", out_path});
            }
        }
        if (order_seed) {
            Prng og(order_seed);
            for (std::size_t j = lines.size(); j > 1; --j) std::swap(lines[j - 1], lines[og.below(j)]);
        }
        vctl::Request q;
        for (std::size_t j = 0; j < lines.size(); ++j) q.raw += ctl::case_mix(lines[j].first, name_seed ? name_seed * 131 + j : 0) + ":" + lines[j].second + "\n";
        q.raw += "\n";
        q.raw.append(reinterpret_cast<const char*>(payload.data()), payload.size());
        c.note("|%s(token=%s%s%s%s)", kKindName[kind], kVarName[variant], authorised ? "=OK" : "", order_seed ? ",shuffled" : "", name_seed ? ",mixedcase" : "");

        const auto before = ctl::take_snapshot(node, server.node_mutex(), tracked);
        const int stops_before = server.stop_calls();
        auto resp = server.roundtrip(q);
        if (!resp.ok && server.timed_out()) { c.label("control_timeout_inconclusive"); return; }   // a stalled machine is not a verdict
        if (!resp.ok) c.fail("C27:harness-error", "no control response for " + std::string(kKindName[kind]));
        const std::string status = resp.field("STATUS"), code = resp.field("CODE");
        const auto after = ctl::take_snapshot(node, server.node_mutex(), tracked);
        const std::string diff = ctl::diff_snapshot(before, after);
        const int stops_after = server.stop_calls();
        const std::size_t files = ctl::count_entries(scratch);
        const std::string what = std::string(kKindName[kind]) + " with TOKEN " + kVarName[variant] + (tc.sent ? " ('" + ctl::shorten(tc.value, 44) + "')" : "") + " -> " + status + "/" + code;

        if (!authorised) {
            const bool local_target = kind == kStore || kind == kFetchStream || kind == kFetchOut || kind == kStop;
            if (local_target) c.nt("nonexact_token_on_request_that_would_succeed");
            else c.label("nonexact_token_foreign_manifest");
            c.label(variant == 0 || variant == 10 ? "token_absent" : variant == 3 || variant == 7 ? "token_prefix_or_suffix" : variant == 4 || variant == 8 ? "token_extended" : variant == 5 ? "token_caseflip" : variant == 9 ? "token_bitflip" : variant == 6 ? "token_empty" : "token_random");
            if (kind == kStop) {
                if (status != "ERROR" || stops_after != stops_before || (with_transport && !stopped && !ctl::port_listening(tport)))
                    c.fail("C27:stop-unauthenticated", what + "; stop callback calls " + std::to_string(stops_before) + "->" + std::to_string(stops_after) +
                                                           (with_transport ? std::string("; transport listening=") + (ctl::port_listening(tport) ? "yes" : "no") : ""));
            }
            if (kind == kFetchOut || kind == kForeignOut) {
                if (status != "ERROR" || files != 0) c.fail("C27:fetch-out-unauthenticated", what + "; entries under the scratch directory: " + std::to_string(files));
            }
            if (kind == kStore && (status != "ERROR" || after.chunks != before.chunks)) c.fail("C27:store-unauthenticated", what + "; " + diff);
            if ((kind == kFetchStream || kind == kForeignStream) && (status != "ERROR" || !resp.payload.empty())) c.fail("C27:fetch-stream-unauthenticated", what + "; payload bytes " + std::to_string(resp.payload.size()));
            if (status != "ERROR") c.fail("C27:unauthenticated-request-accepted", what);
            if (!diff.empty()) {
                if (is_fetch) {
                    if (c.is_known("C27:fetch-registers-before-auth")) c.count_excluded("C27:fetch-registers-before-auth");
                    else c.fail("C27:fetch-registers-before-auth", what + "; node state changed: " + diff);
                } else {
                    c.fail("C27:unauthenticated-request-changed-state", what + "; node state changed: " + diff);
                }
            }
            if (stops_after != stops_before) c.fail("C27:unauthenticated-request-stopped-daemon", what);
            if (local_target && canonical_names && !ctl::is_auth_code(code)) c.fail("C27:refusal-not-authentication-error", what);
        } else {
            c.label("exact_token");
            if (canonical_names) {
                if (kind == kStore) {
                    auto id = ctl::hex_full(ctl::payload_chunk_id(payload));
                    if (status != "OK" || code != "OK_STORE" || !after.chunks.count(id)) c.fail("C27:exact-token-refused", what + "; chunk " + id.substr(0, 12) + " stored=" + std::to_string(after.chunks.count(id)));
                } else if (kind == kFetchStream) {
                    if (status != "OK" || resp.payload != target.plain) c.fail("C27:exact-token-refused", what + "; streamed " + std::to_string(resp.payload.size()) + " bytes, expected " + std::to_string(target.plain.size()));
                } else if (kind == kFetchOut) {
                    Bytes got;
                    if (status != "OK" || !ctl::read_file(out_path, got) || got != target.plain) c.fail("C27:exact-token-refused", what + "; file missing or different");
                } else if (kind == kStop) {
                    if (status != "OK" || stops_after != stops_before + 1) c.fail("C27:exact-token-refused", what + "; stop callback calls " + std::to_string(stops_before) + "->" + std::to_string(stops_after));
                }
            }
        }
        if (stops_after != stops_before) stopped = true;
        ctl::clear_dir(scratch);
        if (kind == kStop && !ping_ok()) c.fail("C27:daemon-not-answering", "PING not answered after " + what);
        // keep the (authorised) requests clear of the 6-per-30 s / 12-per-30 s rate limits
        vclock::advance(std::chrono::seconds(31));
    }
    if (!ping_ok()) c.fail("C27:daemon-not-answering", "PING not answered at the end of the case");
    if (with_transport && !stopped && !ctl::port_listening(tport)) c.fail("C27:unauthenticated-request-stopped-transport", "transport listener gone at the end of a case without an authorised STOP");
    server.stop();
}

std::vector<std::vector<std::uint8_t>> seed_tapes() {
    std::vector<std::vector<std::uint8_t>> v;
    for (unsigned kind = 0; kind < kKinds; ++kind)
        for (unsigned variant : {0u, 1u, 3u, 9u}) {
            std::vector<std::uint8_t> t = {0x83, 1, 0, 3, 9, 9, 9, 9};
            t.insert(t.end(), {static_cast<std::uint8_t>(kind), static_cast<std::uint8_t>(variant), 1, 0, 0, 0, 0, 0});
            v.push_back(t);
        }
    return v;
}
}  // namespace verif
