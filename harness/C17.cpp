// C17 — manifests round-trip, and unrepresentable manifests are refused.
// Oracle: a model of the manifest built by the harness; representability is decided from the property statement
// (8-bit counts, 8/16-bit string lengths); the decoded result is compared field by field with the model.
#include "verif.hpp"
#include "manifest_gen.hpp"

#include <exception>
#include <typeinfo>

namespace verif {
const PropertyInfo kInfo = {
    "C17", 29, 6, 6,
    "tape -> manifest model: list sizes for shards / metadata / discovery hints / fallback hints each chosen by a selector "
    "(small 0..3 | boundary table {0,1,254,255,256,257|260,300} | uniform up to 300/260 | 0..16); advisory length from "
    "{0,1,65535,65536} or small; expiry anywhere in system_clock's 64-bit nanosecond range (modern whole seconds, modern with "
    "sub-second part, arbitrary int64, boundary table incl. INT64_MIN/MAX, +-1 ns, +-1 s, pre-1970 with sub-second part); "
    "digest flag on/off; ids, hashes, nonce, shard values, strings (arbitrary bytes incl. NUL) expanded from a seed. "
    "Each record overrides one string of one list element: metadata key / discovery scheme / transport lengths from "
    "{0,1,2,254,255,256,257,300}, metadata value / endpoint / fallback uri lengths from {0,1,255,256,65534,65535,65536,65537}, "
    "or forces an empty scheme. Oracle: if every count <= 255 and every string fits its length field, then when encode_manifest "
    "accepts, decode_manifest(encode_manifest(m)) equals the model (expiry: whole seconds, < 1 s away; empty scheme -> transport; "
    "digest compared when flagged); otherwise encode_manifest must throw and never return a URI. "
    "Non-trivial: a count or length exactly at 255/256 or 65535/65536, or > 255 shards. Distinct = hash of the decoded case."};

namespace {
using mgen::Model;
namespace proto = ephemeralnet::protocol;

const std::uint32_t kShardTable[] = {0, 1, 254, 255, 256, 257, 300};
const std::uint32_t kListTable[] = {0, 1, 254, 255, 256, 260};
const std::uint32_t kAdvisoryTable[] = {0, 1, 65535, 65536};
const std::uint32_t kLen8Table[] = {0, 1, 2, 254, 255, 256, 257, 300};
const std::uint32_t kLen16Table[] = {0, 1, 255, 256, 65534, 65535, 65536, 65537};

constexpr std::int64_t kI64Max = std::numeric_limits<std::int64_t>::max();
constexpr std::int64_t kI64Min = std::numeric_limits<std::int64_t>::min();
const std::int64_t kExpiryTable[] = {0,
                                     1,
                                     -1,
                                     999'999'999,
                                     1'000'000'000,
                                     1'000'000'001,
                                     -999'999'999,
                                     -1'000'000'000,
                                     -1'000'000'001,
                                     kI64Max,
                                     kI64Max - 1,
                                     kI64Min,
                                     kI64Min + 1,
                                     9'223'372'036'000'000'000LL,
                                     -9'223'372'036'000'000'000LL,
                                     4'294'967'296LL * 1'000'000'000LL,
                                     2'147'483'648LL * 1'000'000'000LL,
                                     -1'500'000'000,
                                     1'500'000'000};

std::size_t len8(std::uint8_t sel, std::uint32_t v) {
    switch (sel >> 6) {
        case 0: return v % 8;
        case 1: return kLen8Table[(sel & 0x3F) % 8];
        case 2: return v % 301;
        default: return v % 32;
    }
}
std::size_t len16(std::uint8_t sel, std::uint32_t v) {
    switch (sel >> 6) {
        case 0: return v % 8;
        case 1: return kLen16Table[(sel & 0x3F) % 8];
        case 2: return v % 2048;
        default: return v % 300;
    }
}

struct Boundary {
    bool at255 = false, at256 = false, at65535 = false, at65536 = false;
    void count(std::size_t n) { at255 |= n == 255; at256 |= n == 256; }
    void l8(std::size_t n) { at255 |= n == 255; at256 |= n == 256; }
    void l16(std::size_t n) { at65535 |= n == 65535; at65536 |= n == 65536; }
};
}  // namespace

void run_case(Ctx& c) {
    const Tape& t = c.tape;
    Prng g(t.h32(25) ^ 0xC17u);
    Model m;

    // ---- list sizes
    std::size_t nshards = mgen::pick_size(t.h(0), t.h16(1), kShardTable, 300);
    std::size_t nmeta = mgen::pick_size(t.h(3), t.h16(4), kListTable, 260);
    std::size_t ndisc = mgen::pick_size(t.h(6), t.h16(7), kListTable, 260);
    std::size_t nfb = mgen::pick_size(t.h(9), t.h16(10), kListTable, 260);
    if (nshards > 255 && c.is_known("C17:shard-count-truncated")) {
        c.count_excluded("C17:shard-count-truncated");
        nshards = 255;
    }

    // ---- expiry
    std::uint64_t raw = 0;
    for (int i = 0; i < 8; ++i) raw |= static_cast<std::uint64_t>(t.h(13 + i)) << (8 * i);
    unsigned emode = t.h(12) % 6;
    switch (emode) {
        case 0: m.expiry_ns = static_cast<std::int64_t>(1'700'000'000ull + raw % 1'000'000'000ull) * mgen::kNsPerSec; break;
        case 1: m.expiry_ns = static_cast<std::int64_t>(1'700'000'000ull + raw % 1'000'000'000ull) * mgen::kNsPerSec +
                              static_cast<std::int64_t>((raw >> 32) % 1'000'000'000ull); break;
        case 2: m.expiry_ns = static_cast<std::int64_t>(raw); break;
        case 3: m.expiry_ns = kExpiryTable[raw % (sizeof kExpiryTable / sizeof kExpiryTable[0])]; break;
        case 4: m.expiry_ns = -static_cast<std::int64_t>(raw >> 2); break;
        default: m.expiry_ns = static_cast<std::int64_t>(raw % 4'000'000'000ull); break;
    }

    // ---- fixed fields
    g.fill(m.chunk_id.data(), 32);
    g.fill(m.chunk_hash.data(), 32);
    g.fill(m.nonce.data(), 12);
    m.threshold = g.byte();
    m.total_shares = g.byte();
    m.token_bits = g.byte();
    std::uint8_t flags = t.h(24);
    m.has_digest = flags & 1;
    if (m.has_digest || (flags & 2)) g.fill(m.digest.data(), 32);  // flag off + non-zero digest: digest not compared

    m.shards.reserve(nshards);
    for (std::size_t i = 0; i < nshards; ++i) {
        mgen::Shard s;
        s.index = (flags & 4) ? g.byte() : static_cast<std::uint8_t>(i + 1);
        g.fill(s.value.data(), 32);
        m.shards.push_back(s);
    }

    // metadata as an ordered list of (key, value) first, so that records can address entries by position
    std::vector<std::pair<std::string, std::string>> meta(nmeta);
    for (std::size_t i = 0; i < nmeta; ++i) {
        std::string k(2, '\0');
        k[0] = static_cast<char>(i >> 8);
        k[1] = static_cast<char>(i & 0xFF);
        k += mgen::rand_string(g, g.below(7));
        meta[i] = {std::move(k), mgen::rand_string(g, g.below(9))};
    }
    m.discovery.resize(ndisc);
    for (auto& h : m.discovery) {
        h.scheme = (g.next() % 3 == 0) ? std::string() : mgen::short_token(g, 6);
        h.transport = mgen::short_token(g, 6);
        h.endpoint = mgen::short_token(g, 20);
        h.priority = g.byte();
    }
    m.fallback.resize(nfb);
    for (auto& f : m.fallback) {
        f.uri = mgen::short_token(g, 24);
        f.priority = g.byte();
    }
    std::size_t adv_len = mgen::pick_size(t.h(21), t.h16(22), kAdvisoryTable, 300);
    m.advisory = mgen::rand_string(g, adv_len);

    Boundary bd;
    bd.l16(adv_len);
    c.note("shards=%zu meta=%zu disc=%zu fb=%zu adv=%zu expiry[%u]=%lldns digest=%d/%d seed=%08x", nshards, nmeta, ndisc, nfb, adv_len,
           emode, static_cast<long long>(m.expiry_ns), m.has_digest ? 1 : 0, (flags & 2) ? 1 : 0, t.h32(25));

    // ---- overrides
    for (std::size_t i = 0; i < t.nrec() && i < 16; ++i) {
        Rec r = t.r(i);
        unsigned kind = r.op() % 8;
        std::size_t pos = r.a16(0);
        std::uint8_t sel = r.a(2);
        std::uint32_t v = r.a16(3);
        std::size_t n = 0;
        switch (kind) {
            case 0:
                if (meta.empty()) break;
                n = len8(sel, v);
                {
                    auto& k = meta[pos % meta.size()].first;
                    std::size_t idx = pos % meta.size();
                    k = mgen::rand_string(g, n);
                    if (n >= 2) { k[0] = static_cast<char>(idx >> 8); k[1] = static_cast<char>(idx & 0xFF); }  // keep keys distinct
                }
                bd.l8(n);
                c.note("key[%zu]=%zu", pos % meta.size(), n);
                break;
            case 1:
                if (meta.empty()) break;
                n = len16(sel, v);
                meta[pos % meta.size()].second = mgen::rand_string(g, n);
                bd.l16(n);
                c.note("val[%zu]=%zu", pos % meta.size(), n);
                break;
            case 2:
                if (m.discovery.empty()) break;
                n = len8(sel, v);
                m.discovery[pos % ndisc].scheme = mgen::rand_string(g, n);
                bd.l8(n);
                c.note("scheme[%zu]=%zu", pos % ndisc, n);
                break;
            case 3:
                if (m.discovery.empty()) break;
                n = len8(sel, v);
                m.discovery[pos % ndisc].transport = mgen::rand_string(g, n);
                bd.l8(n);
                c.note("transport[%zu]=%zu", pos % ndisc, n);
                break;
            case 4:
                if (m.discovery.empty()) break;
                n = len16(sel, v);
                m.discovery[pos % ndisc].endpoint = mgen::rand_string(g, n);
                bd.l16(n);
                c.note("endpoint[%zu]=%zu", pos % ndisc, n);
                break;
            case 5:
                if (m.fallback.empty()) break;
                n = len16(sel, v);
                m.fallback[pos % nfb].uri = mgen::rand_string(g, n);
                bd.l16(n);
                c.note("uri[%zu]=%zu", pos % nfb, n);
                break;
            case 6:
                if (m.discovery.empty()) break;
                m.discovery[pos % ndisc].scheme.clear();
                c.note("scheme[%zu]=empty", pos % ndisc);
                break;
            default:  // empty scheme together with a transport of a chosen length (the transport is then written twice)
                if (m.discovery.empty()) break;
                n = len8(sel, v);
                m.discovery[pos % ndisc].scheme.clear();
                m.discovery[pos % ndisc].transport = mgen::rand_string(g, n);
                bd.l8(n);
                c.note("scheme[%zu]=empty,transport=%zu", pos % ndisc, n);
                break;
        }
    }
    for (auto& kv : meta) m.metadata.insert_or_assign(std::move(kv.first), std::move(kv.second));

    bd.count(m.shards.size());
    bd.count(m.metadata.size());
    bd.count(m.discovery.size());
    bd.count(m.fallback.size());

    const mgen::Over over = mgen::unrepresentable(m);
    bool empty_scheme = false;
    for (auto& h : m.discovery) empty_scheme |= h.scheme.empty();
    if (m.metadata.size() != nmeta) c.note("meta_distinct=%zu", m.metadata.size());
    if (over.any()) c.note("over={%s}", over.str().c_str());

    // ---- labels
    if (bd.at255) c.nt("at_255");
    if (bd.at256) c.nt("at_256");
    if (bd.at65535) c.nt("at_65535");
    if (bd.at65536) c.nt("at_65536");
    if (m.shards.size() > 255) c.nt("shards_gt_255");
    if (over.any()) c.label("unrepresentable"); else c.label("representable");
    if (!over.any() && (bd.at255 || bd.at65535)) c.label("representable_at_limit");
    if (over.only_shards()) c.label("only_shards_over");
    if (over.metadata) c.label("over_metadata_count");
    if (over.discovery) c.label("over_discovery_count");
    if (over.fallback) c.label("over_fallback_count");
    if (over.key) c.label("over_key");
    if (over.value) c.label("over_value");
    if (over.scheme) c.label("over_scheme");
    if (over.transport) c.label("over_transport");
    if (over.endpoint) c.label("over_endpoint");
    if (over.uri) c.label("over_uri");
    if (over.advisory) c.label("over_advisory");
    if (empty_scheme) c.label("empty_scheme");
    if (m.expiry_ns < 0 && m.expiry_ns % mgen::kNsPerSec != 0) c.label("pre1970_subsecond");
    if (m.expiry_ns >= 0 && m.expiry_ns % mgen::kNsPerSec != 0) c.label("subsecond");
    if (m.has_digest) c.label("digest_on");

    // ---- run the code under test
    const proto::Manifest input = mgen::to_repo(m);
    std::string uri;
    bool accepted = false;
    std::string refusal;
    try {
        uri = proto::encode_manifest(input);
        accepted = true;
    } catch (const std::exception& e) {
        refusal = std::string(typeid(e).name()) + ": " + e.what();
    }

    if (over.any()) {
        if (accepted) {
            if (over.only_shards())
                c.fail("C17:shard-count-truncated", "encode_manifest returned a URI (" + std::to_string(uri.size()) + " chars) for a manifest with " +
                                                        std::to_string(m.shards.size()) + " shards; the 8-bit count field cannot represent it");
            c.fail("C17:unrepresentable-accepted", "encode_manifest returned a URI for a manifest the format cannot represent: " + over.str());
        }
        c.label("refused_ok");
        return;
    }

    if (!accepted) {
        // Not claimed by the property (it speaks about manifests the encoder accepts); recorded in the histogram.
        c.label("representable_refused");
        c.note("refused: %s", refusal.c_str());
        return;
    }
    c.label("encoded");

    proto::Manifest decoded;
    try {
        decoded = proto::decode_manifest(uri);
    } catch (const std::exception& e) {
        c.fail("C17:decode-rejects-encoded", std::string("decode_manifest threw on the encoder's own output: ") + e.what());
    }
    std::string d = mgen::diff(decoded, m, /*exact=*/false);
    if (!d.empty()) c.fail("C17:roundtrip-mismatch", "decode(encode(m)) differs from m: " + d);

    // evidence only: does the independently written encoder produce the same URI?
    if (mgen::encode_uri(m) == uri) c.label("ref_encoder_agrees"); else c.label("ref_encoder_differs");
}

std::string run_once(Ctx& c) {
    // self-check of the independent codec: encode -> permissive base64 -> independent decode reproduces the model
    Prng g(17);
    for (unsigned i = 0; i < 64; ++i) {
        Model m = mgen::small_model(g, i % 4, (i / 4) % 4, (i / 16) % 4, i % 3, i & 1);
        m.expiry_ns = static_cast<std::int64_t>(g.next() % 4'000'000'000ull) * mgen::kNsPerSec;
        for (auto& h : m.discovery) if (h.scheme.empty()) h.scheme = h.transport;  // the wire form reports it that way
        mgen::Bytes back;
        std::string uri = mgen::encode_uri(m);
        if (!mgen::b64_decode_permissive(uri.substr(6), back)) c.fail("C17:harness-error", "own base64 does not round-trip");
        mgen::Parsed p = mgen::decode_payload(back);
        if (p.status != mgen::Parsed::Ok) c.fail("C17:harness-error", "independent decoder rejects the independent encoder's output");
        if (!mgen::diff(mgen::to_repo(p.m), m, true).empty())
            c.fail("C17:harness-error", "independent codec self round-trip: " + mgen::diff(mgen::to_repo(p.m), m, true));
    }
    return "independent codec self round-trip on 64 small manifests passed";
}
}  // namespace verif
