// Internals shim for the STUN response parser that lives in the anonymous namespace of
// src/network/NatTraversal.cpp (DESIGN.md section 3, "internals shim").
// Plain functions over std types only; no test-library headers.
#pragma once
#include <array>
#include <cstddef>
#include <cstdint>
#include <string>

namespace shim_nat {
struct StunResult {
    bool has_value = false;   // parse_stun_response returned a value
    std::string address;      // textual address as reported
    std::uint16_t port = 0;
};

// ephemeralnet::network::(anonymous)::parse_stun_response(data, length, transaction_id)
StunResult parse_stun_response(const std::uint8_t* data, std::size_t length,
                               const std::array<std::uint8_t, 12>& transaction_id);

// constants the repository source uses (for evidence only; the oracle has its own from RFC 5389)
std::uint32_t magic_cookie();
}  // namespace shim_nat
